//! Boring reference models: linear scans and brute force over every element
use engeom::{Point2, Point3, Vector2, Vector3};

pub fn d2(a: &Point2, b: &Point2) -> f64 {
    (a - b).norm()
}
pub fn d3(a: &Point3, b: &Point3) -> f64 {
    (a - b).norm()
}

/// Closest point on segment ab to p: (point, parameter in [0,1])
pub fn seg_closest2(a: &Point2, b: &Point2, p: &Point2) -> (Point2, f64) {
    let ab = b - a;
    let l2 = ab.norm_squared();
    let t = if l2 > 0.0 {
        ((p - a).dot(&ab) / l2).clamp(0.0, 1.0)
    } else {
        0.0
    };
    (a + ab * t, t)
}

pub fn seg_closest3(a: &Point3, b: &Point3, p: &Point3) -> (Point3, f64) {
    let ab = b - a;
    let l2 = ab.norm_squared();
    let t = if l2 > 0.0 {
        ((p - a).dot(&ab) / l2).clamp(0.0, 1.0)
    } else {
        0.0
    };
    (a + ab * t, t)
}

pub fn seg_dist2(a: &Point2, b: &Point2, p: &Point2) -> f64 {
    d2(&seg_closest2(a, b, p).0, p)
}
pub fn seg_dist3(a: &Point3, b: &Point3, p: &Point3) -> f64 {
    d3(&seg_closest3(a, b, p).0, p)
}

/// Brute-force distance from p to an open polyline
pub fn poly_dist2(v: &[Point2], p: &Point2) -> f64 {
    let mut best = f64::MAX;
    for i in 0..v.len() - 1 {
        best = best.min(seg_dist2(&v[i], &v[i + 1], p));
    }
    best
}
pub fn poly_dist3(v: &[Point3], p: &Point3) -> f64 {
    let mut best = f64::MAX;
    for i in 0..v.len() - 1 {
        best = best.min(seg_dist3(&v[i], &v[i + 1], p));
    }
    best
}

/// Cumulative lengths by plain summation
pub fn cum_lengths2(v: &[Point2]) -> Vec<f64> {
    let mut out = vec![0.0];
    for i in 0..v.len() - 1 {
        let l = out[i] + d2(&v[i], &v[i + 1]);
        out.push(l);
    }
    out
}
pub fn cum_lengths3(v: &[Point3]) -> Vec<f64> {
    let mut out = vec![0.0];
    for i in 0..v.len() - 1 {
        let l = out[i] + d3(&v[i], &v[i + 1]);
        out.push(l);
    }
    out
}

/// Arc-length point function by linear scan: the point at length l (clamped into [0, L])
pub fn point_at2(v: &[Point2], cum: &[f64], l: f64) -> Point2 {
    let n = v.len();
    if l <= 0.0 {
        return v[0];
    }
    for i in 0..n - 1 {
        if l <= cum[i + 1] {
            let e = cum[i + 1] - cum[i];
            let t = if e > 0.0 { (l - cum[i]) / e } else { 0.0 };
            return v[i] + (v[i + 1] - v[i]) * t;
        }
    }
    v[n - 1]
}
pub fn point_at3(v: &[Point3], cum: &[f64], l: f64) -> Point3 {
    let n = v.len();
    if l <= 0.0 {
        return v[0];
    }
    for i in 0..n - 1 {
        if l <= cum[i + 1] {
            let e = cum[i + 1] - cum[i];
            let t = if e > 0.0 { (l - cum[i]) / e } else { 0.0 };
            return v[i] + (v[i + 1] - v[i]) * t;
        }
    }
    v[n - 1]
}

/// Closest point on a triangle (Ericson, Real-Time Collision Detection 5.1.5)
pub fn tri_closest(a: &Point3, b: &Point3, c: &Point3, p: &Point3) -> Point3 {
    let ab = b - a;
    let ac = c - a;
    let ap = p - a;
    let d1 = ab.dot(&ap);
    let d2 = ac.dot(&ap);
    if d1 <= 0.0 && d2 <= 0.0 {
        return *a;
    }
    let bp = p - b;
    let d3 = ab.dot(&bp);
    let d4 = ac.dot(&bp);
    if d3 >= 0.0 && d4 <= d3 {
        return *b;
    }
    let vc = d1 * d4 - d3 * d2;
    if vc <= 0.0 && d1 >= 0.0 && d3 <= 0.0 {
        let v = d1 / (d1 - d3);
        return a + ab * v;
    }
    let cp = p - c;
    let d5 = ab.dot(&cp);
    let d6 = ac.dot(&cp);
    if d6 >= 0.0 && d5 <= d6 {
        return *c;
    }
    let vb = d5 * d2 - d1 * d6;
    if vb <= 0.0 && d2 >= 0.0 && d6 <= 0.0 {
        let w = d2 / (d2 - d6);
        return a + ac * w;
    }
    let va = d3 * d6 - d5 * d4;
    if va <= 0.0 && (d4 - d3) >= 0.0 && (d5 - d6) >= 0.0 {
        let w = (d4 - d3) / ((d4 - d3) + (d5 - d6));
        return b + (c - b) * w;
    }
    let denom = 1.0 / (va + vb + vc);
    let v = vb * denom;
    let w = vc * denom;
    a + ab * v + ac * w
}

pub fn tri_normal(a: &Point3, b: &Point3, c: &Point3) -> Option<Vector3> {
    let n = (b - a).cross(&(c - a));
    let l = n.norm();
    if l > 0.0 {
        Some(n / l)
    } else {
        None
    }
}

pub fn tri_area(a: &Point3, b: &Point3, c: &Point3) -> f64 {
    (b - a).cross(&(c - a)).norm() * 0.5
}

/// Brute-force distance to a triangle soup
pub fn mesh_dist(v: &[Point3], f: &[[u32; 3]], p: &Point3) -> f64 {
    let mut best = f64::MAX;
    for t in f {
        let cp = tri_closest(&v[t[0] as usize], &v[t[1] as usize], &v[t[2] as usize], p);
        best = best.min(d3(&cp, p));
    }
    best
}

pub fn rot90(v: &Vector2) -> Vector2 {
    Vector2::new(-v.y, v.x)
}
pub fn rot270(v: &Vector2) -> Vector2 {
    Vector2::new(v.y, -v.x)
}

/// Union-find
pub struct Uf(pub Vec<usize>);
impl Uf {
    pub fn new(n: usize) -> Self {
        Uf((0..n).collect())
    }
    pub fn find(&mut self, i: usize) -> usize {
        let mut r = i;
        while self.0[r] != r {
            r = self.0[r];
        }
        let mut c = i;
        while self.0[c] != r {
            let n = self.0[c];
            self.0[c] = r;
            c = n;
        }
        r
    }
    pub fn union(&mut self, a: usize, b: usize) {
        let (a, b) = (self.find(a), self.find(b));
        if a != b {
            self.0[a.max(b)] = a.min(b);
        }
    }
    /// Components as sorted lists, sorted
    pub fn components(&mut self) -> Vec<Vec<usize>> {
        let n = self.0.len();
        let mut m: std::collections::BTreeMap<usize, Vec<usize>> = Default::default();
        for i in 0..n {
            let r = self.find(i);
            m.entry(r).or_default().push(i);
        }
        m.into_values().collect()
    }
}
