//! vcheck — bounded exhaustive exploration of engeom against the properties in /verif/properties.jsonl
#![allow(clippy::too_many_arguments, clippy::type_complexity, clippy::needless_range_loop)]
mod engine;
mod gen;
mod props;
mod refmodel;
mod sr;

use engine::{Local, Tier, Val};

macro_rules! properties {
    ($($id:literal => $m:ident),* $(,)?) => {
        fn run_property(id: &str, tier: Tier) -> Option<i32> {
            Some(match id { $($id => props::$m::run(tier),)* _ => return None })
        }
        fn replay_property(id: &str, case: &Val) -> Option<Local> {
            Some(match id { $($id => props::$m::replay(case),)* _ => return None })
        }
    };
}

properties! {
    "C01" => c01,
    "C02" => c02,
    "C03" => c03,
    "C04" => c04,
    "C05" => c05,
    "C06" => c06,
    "C07" => c07,
    "C08" => c08,
    "C09" => c09,
    "C10" => c10,
    "C11" => c11,
    "C12" => c12,
    "C13" => c13,
    "C14" => c14,
    "C15" => c15,
    "C16" => c16,
    "C17" => c17,
    "C18" => c18,
    "C19" => c19,
    "C20" => c20,
}

fn main() {
    engine::install_panic_hook();
    engine::start_watchdog();
    let args: Vec<String> = std::env::args().collect();
    if args.len() < 2 {
        eprintln!("usage: vcheck <Cxx> quick|thorough | vcheck replay <file>");
        std::process::exit(2);
    }
    if args[1] == "worker-range" {
        // subprocess entry point of the isolated sweeps: vcheck worker-range <Cxx> <tier> <label> <start> <end>
        let tier = if args.get(3).map(|s| s.as_str()) == Some("thorough") { Tier::Thorough } else { Tier::Quick };
        let (start, end) = (args[5].parse::<usize>().expect("start"), args[6].parse::<usize>().expect("end"));
        let code = match args.get(2).map(|s| s.as_str()) {
            Some("C13") => props::c13::worker_range(tier, &args[4], start, end),
            _ => 2,
        };
        std::process::exit(code);
    }
    if args[1] == "worker" {
        // subprocess entry point for checks that isolate cases: vcheck worker <Cxx> <case json>
        let code = match args.get(2).map(|s| s.as_str()) {
            Some("C13") => props::c13::worker(&args[3]),
            _ => 2,
        };
        std::process::exit(code);
    }
    if args[1] == "replay" {
        let text = std::fs::read_to_string(&args[2]).expect("replay file");
        let v: Val = serde_json::from_str(&text).expect("replay json");
        let id = v["property"].as_str().expect("property").to_string();
        if let Some(msg) = v["case"]["unanticipated_panic"].as_str() {
            // recorded by the sweep engine, not by a clause: there is no single judged case to re-run
            println!("{} recorded a library panic outside any judged clause: {}", id, msg);
            println!("re-run `./check {} {}` to reproduce it (sweep item {})", id, v["tier"].as_str().unwrap_or("quick"), v["case"]["sweep_item"]);
            std::process::exit(1);
        }
        let l = replay_property(&id, &v["case"]).expect("unknown property");
        println!("replay of {} case: {} clause evaluations, {} violation class(es)", id, l.clauses.values().sum::<u64>(), l.viol_counts.len());
        for x in &l.viol {
            println!("  VIOLATED clause=\"{}\" class=\"{}\" :: {}", x.clause, x.class_key, x.detail);
        }
        std::process::exit(if l.viol.is_empty() { 0 } else { 1 });
    }
    let tier = match args.get(2).map(|s| s.as_str()).or(std::env::var("VERIF_TIER").ok().as_deref()) {
        Some("thorough") => Tier::Thorough,
        _ => Tier::Quick,
    };
    match run_property(&args[1], tier) {
        Some(code) => std::process::exit(code),
        None => {
            eprintln!("unknown property {}", args[1]);
            std::process::exit(2);
        }
    }
}
