//! Common machinery: per-thread accumulators, the parallel exhaustive sweep, panic capture,
//! evidence writing, known-finding matching and the exit protocol.
use serde_json::{json, Value};
use std::cell::RefCell;
use std::collections::{BTreeMap, BTreeSet, HashSet};
use std::hash::{Hash, Hasher};
use std::panic::{catch_unwind, AssertUnwindSafe};
use std::sync::atomic::{AtomicUsize, Ordering};
use std::sync::Mutex;
use std::time::Instant;

pub type Val = Value;

#[derive(Clone, Copy, PartialEq, Eq, Debug)]
pub enum Tier {
    Quick,
    Thorough,
}

impl Tier {
    pub fn name(&self) -> &'static str {
        match self {
            Tier::Quick => "quick",
            Tier::Thorough => "thorough",
        }
    }
    pub fn pick<T>(&self, quick: T, thorough: T) -> T {
        match self {
            Tier::Quick => quick,
            Tier::Thorough => thorough,
        }
    }
}

#[derive(Clone, Debug)]
pub struct Violation {
    pub clause: String,
    pub class_key: String,
    pub case: Val,
    pub detail: String,
}

/// Accumulator owned by one worker thread (or by a sequential check); merged deterministically
#[derive(Default)]
pub struct Local {
    pub evals: u64,
    pub buckets: BTreeMap<String, u64>,
    pub grays: BTreeMap<String, u64>,
    pub clauses: BTreeMap<String, u64>,
    pub viol: Vec<Violation>,
    pub viol_counts: BTreeMap<(String, String), u64>,
    pub samples: Vec<Val>,
    pub distinct: HashSet<u64>,
    pub outcomes: HashSet<u64>,
    pub states: u64,
    pub transitions: u64,
    pub traces: u64,
    pub caps: Vec<String>,
    pub machinery: Vec<String>,
    /// largest number of loop-hook ticks one swept item consumed under the default budget
    pub max_item_ticks: u64,
}

pub fn hash_of<T: Hash>(t: &T) -> u64 {
    let mut h = std::collections::hash_map::DefaultHasher::new();
    t.hash(&mut h);
    h.finish()
}

/// Hash of a float slice that treats -0.0 and 0.0 alike and is stable across runs
pub fn hash_f64s(v: &[f64]) -> u64 {
    let mut h = std::collections::hash_map::DefaultHasher::new();
    for x in v {
        let x = if *x == 0.0 { 0.0 } else { *x };
        x.to_bits().hash(&mut h);
    }
    h.finish()
}

impl Local {
    pub fn new() -> Self {
        Self::default()
    }
    /// One execution of real code that is judged
    pub fn eval(&mut self) {
        self.evals += 1;
    }
    pub fn evals_n(&mut self, n: u64) {
        self.evals += n;
    }
    pub fn bucket(&mut self, name: &str) {
        *self.buckets.entry(name.to_string()).or_insert(0) += 1;
    }
    pub fn bucket_n(&mut self, name: &str, n: u64) {
        *self.buckets.entry(name.to_string()).or_insert(0) += n;
    }
    /// Counted but not judged
    pub fn gray(&mut self, clause: &str) {
        *self.grays.entry(clause.to_string()).or_insert(0) += 1;
    }
    pub fn distinct(&mut self, h: u64) {
        self.distinct.insert(h);
    }
    pub fn outcome(&mut self, h: u64) {
        self.outcomes.insert(h);
    }
    pub fn sample(&mut self, f: impl FnOnce() -> Val) {
        if self.samples.len() < 2 {
            self.samples.push(f());
        }
    }
    pub fn cap(&mut self, what: String) {
        if self.caps.len() < 20 {
            self.caps.push(what);
        }
    }
    /// Judges one clause on one case. `class_key` is computed by the reference side of the oracle.
    pub fn check(
        &mut self,
        clause: &str,
        class_key: &str,
        ok: bool,
        case: impl FnOnce() -> Val,
        detail: impl FnOnce() -> String,
    ) -> bool {
        *self.clauses.entry(clause.to_string()).or_insert(0) += 1;
        if !ok {
            let key = (clause.to_string(), class_key.to_string());
            let n = self.viol_counts.entry(key).or_insert(0);
            *n += 1;
            if *n <= 2 {
                self.viol.push(Violation {
                    clause: clause.to_string(),
                    class_key: class_key.to_string(),
                    case: case(),
                    detail: detail(),
                });
            }
        }
        ok
    }

    pub fn merge(&mut self, o: Local) {
        self.evals += o.evals;
        for (k, v) in o.buckets {
            *self.buckets.entry(k).or_insert(0) += v;
        }
        for (k, v) in o.grays {
            *self.grays.entry(k).or_insert(0) += v;
        }
        for (k, v) in o.clauses {
            *self.clauses.entry(k).or_insert(0) += v;
        }
        for (k, v) in o.viol_counts {
            *self.viol_counts.entry(k).or_insert(0) += v;
        }
        for v in o.viol {
            let have = self
                .viol
                .iter()
                .filter(|x| x.clause == v.clause && x.class_key == v.class_key)
                .count();
            if have < 2 {
                self.viol.push(v);
            }
        }
        for s in o.samples {
            if self.samples.len() < 5 {
                self.samples.push(s);
            }
        }
        self.distinct.extend(o.distinct);
        self.outcomes.extend(o.outcomes);
        self.states += o.states;
        self.transitions += o.transitions;
        self.traces += o.traces;
        for c in o.caps {
            if self.caps.len() < 20 {
                self.caps.push(c);
            }
        }
        self.machinery.extend(o.machinery);
        self.max_item_ticks = self.max_item_ticks.max(o.max_item_ticks);
    }


    /// Wire format used between an isolated worker process and its parent
    pub fn to_val(&self) -> Val {
        let mut d: Vec<u64> = self.distinct.iter().copied().collect();
        d.sort();
        let mut o: Vec<u64> = self.outcomes.iter().copied().collect();
        o.sort();
        json!({
            "evals": self.evals, "buckets": self.buckets, "grays": self.grays, "clauses": self.clauses,
            "viol": self.viol.iter().map(|v| json!({"clause": v.clause, "class_key": v.class_key, "case": v.case, "detail": v.detail})).collect::<Vec<_>>(),
            "viol_counts": self.viol_counts.iter().map(|((a, b), n)| json!([a, b, n])).collect::<Vec<_>>(),
            "samples": self.samples, "distinct": d, "outcomes": o, "states": self.states, "transitions": self.transitions,
            "traces": self.traces, "caps": self.caps, "machinery": self.machinery, "max_item_ticks": self.max_item_ticks,
        })
    }
    pub fn from_val(v: &Val) -> Option<Local> {
        let map = |x: &Val| -> BTreeMap<String, u64> { x.as_object().map(|o| o.iter().map(|(k, n)| (k.clone(), n.as_u64().unwrap_or(0))).collect()).unwrap_or_default() };
        let strs = |x: &Val| -> Vec<String> { x.as_array().map(|a| a.iter().filter_map(|s| s.as_str().map(|t| t.to_string())).collect()).unwrap_or_default() };
        let nums = |x: &Val| -> HashSet<u64> { x.as_array().map(|a| a.iter().filter_map(|n| n.as_u64()).collect()).unwrap_or_default() };
        let mut l = Local::new();
        l.evals = v.get("evals")?.as_u64()?;
        l.buckets = map(&v["buckets"]);
        l.grays = map(&v["grays"]);
        l.clauses = map(&v["clauses"]);
        for x in v["viol"].as_array()? {
            l.viol.push(Violation { clause: x["clause"].as_str()?.to_string(), class_key: x["class_key"].as_str()?.to_string(), case: x["case"].clone(), detail: x["detail"].as_str()?.to_string() });
        }
        for x in v["viol_counts"].as_array()? {
            l.viol_counts.insert((x[0].as_str()?.to_string(), x[1].as_str()?.to_string()), x[2].as_u64()?);
        }
        l.samples = v["samples"].as_array().cloned().unwrap_or_default();
        l.distinct = nums(&v["distinct"]);
        l.outcomes = nums(&v["outcomes"]);
        l.states = v["states"].as_u64().unwrap_or(0);
        l.transitions = v["transitions"].as_u64().unwrap_or(0);
        l.traces = v["traces"].as_u64().unwrap_or(0);
        l.caps = strs(&v["caps"]);
        l.machinery = strs(&v["machinery"]);
        l.max_item_ticks = v["max_item_ticks"].as_u64().unwrap_or(0);
        Some(l)
    }

    /// Digest used by the determinism self-check (same case twice => same observations)
    pub fn digest(&self) -> u64 {
        let mut outcomes: Vec<u64> = self.outcomes.iter().copied().collect();
        outcomes.sort();
        let viol: Vec<(&String, &String, &String)> = self
            .viol
            .iter()
            .map(|v| (&v.clause, &v.class_key, &v.detail))
            .collect();
        hash_of(&(
            self.evals,
            &self.buckets,
            &self.grays,
            &self.clauses,
            &self.viol_counts,
            outcomes,
            viol,
        ))
    }
}

thread_local! {
    static LAST_PANIC: RefCell<String> = const { RefCell::new(String::new()) };
}

pub fn install_panic_hook() {
    let show = std::env::var("VERIF_SHOW_PANICS").is_ok();
    std::panic::set_hook(Box::new(move |info| {
        let msg = if let Some(s) = info.payload().downcast_ref::<&str>() {
            s.to_string()
        } else if let Some(s) = info.payload().downcast_ref::<String>() {
            s.clone()
        } else {
            "panic".to_string()
        };
        let loc = info
            .location()
            .map(|l| format!("{}:{}", l.file(), l.line()))
            .unwrap_or_default();
        if show {
            eprintln!("panic: {} at {}", msg, loc);
        }
        LAST_PANIC.with(|p| *p.borrow_mut() = format!("{} at {}", msg, loc));
    }));
}

/// Runs `f`, turning a panic into `Err(message at file:line)`
/// Wall-clock watchdog. The iteration budgets catch loops that carry a hook; recursion without one, or a
/// loop inside a dependency, would otherwise hang the checker. Every sweep worker registers the item it is
/// executing; a watchdog thread ends the process with a VIOLATION line when one item exceeds
/// `ITEM_WALL_LIMIT_S` (hundreds of times the slowest legitimate item; override: VERIF_ITEM_WALL_S).
pub const ITEM_WALL_LIMIT_S: u64 = 300;
const SLOTS: usize = 256;
static SLOT_START: [std::sync::atomic::AtomicU64; SLOTS] = [const { std::sync::atomic::AtomicU64::new(0) }; SLOTS];
static SLOT_ITEM: [std::sync::atomic::AtomicU64; SLOTS] = [const { std::sync::atomic::AtomicU64::new(0) }; SLOTS];
static NEXT_SLOT: AtomicUsize = AtomicUsize::new(0);
static PROPERTY: Mutex<(String, String)> = Mutex::new((String::new(), String::new()));

thread_local! {
    static MY_SLOT: usize = NEXT_SLOT.fetch_add(1, Ordering::SeqCst) % SLOTS;
}

fn now_ms() -> u64 {
    use std::time::{SystemTime, UNIX_EPOCH};
    SystemTime::now().duration_since(UNIX_EPOCH).map(|d| d.as_millis() as u64).unwrap_or(1).max(1)
}

fn item_begin(i: usize) {
    MY_SLOT.with(|s| {
        SLOT_ITEM[*s].store(i as u64, Ordering::SeqCst);
        SLOT_START[*s].store(now_ms(), Ordering::SeqCst);
    });
}

fn item_end() {
    MY_SLOT.with(|s| SLOT_START[*s].store(0, Ordering::SeqCst));
}

pub fn start_watchdog() {
    let limit = std::env::var("VERIF_ITEM_WALL_S").ok().and_then(|s| s.parse::<u64>().ok()).unwrap_or(ITEM_WALL_LIMIT_S);
    std::thread::spawn(move || loop {
        std::thread::sleep(std::time::Duration::from_millis(500));
        let now = now_ms();
        for k in 0..SLOTS {
            let st = SLOT_START[k].load(Ordering::SeqCst);
            if st != 0 && now.saturating_sub(st) > limit * 1000 {
                let item = SLOT_ITEM[k].load(Ordering::SeqCst);
                let (id, tier) = PROPERTY.lock().map(|p| p.clone()).unwrap_or_default();
                let path = format!("{}/replays/{}-{}-hang.json", VERIF_DIR, id, tier);
                let body = json!({"property": id, "tier": tier, "clause": "library call terminates (no item exceeds the wall-clock allowance)", "class_key": "", "case": {"unanticipated_panic": format!("sweep item {} still running after {} s", item, limit), "sweep_item": item}, "detail": "the checker ended itself; nothing else of this run is reported"});
                let _ = std::fs::create_dir_all(format!("{}/replays", VERIF_DIR));
                let _ = std::fs::write(&path, serde_json::to_string_pretty(&body).unwrap_or_default());
                println!("VIOLATION property={} replay={} clause=\"library call terminates (no item exceeds the wall-clock allowance)\" class=\"\" cases=1 :: sweep item {} still running after {} s", id, path, item, limit);
                std::process::exit(1);
            }
        }
    });
}

/// Iteration budget (ticks of the library's loop hooks) granted to one swept item unless the property
/// installs its own: far above anything the explored inputs need, so that only a loop that no longer
/// terminates reaches it
pub const ITEM_BUDGET: u64 = 2_000_000;
pub const UNANTICIPATED_BUDGET: &str = "library call terminates (no loop exceeds the per-item iteration budget)";

/// Number of iteration budgets exhausted so far in this process. Each one costs a full budget of work, so
/// once `BUDGET_PANIC_LIMIT` of them have been recorded (every one a reported violation) the sweeps skip
/// their remaining items and say so under caps_hit: the verdict is already exit 1.
pub static BUDGET_PANICS: AtomicUsize = AtomicUsize::new(0);
pub const BUDGET_PANIC_LIMIT: usize = 500;

pub fn cut_short() -> bool {
    BUDGET_PANICS.load(Ordering::Relaxed) >= BUDGET_PANIC_LIMIT
}

/// Back to the default per-item budget after a property-specific one
pub fn reset_budget() {
    engeom::verif::set_budget(ITEM_BUDGET);
}

/// Files an escaped panic: harness-located ones are machinery errors, library-located ones violations
pub fn file_escaped_panic(l: &mut Local, i: usize, msg: String) {
    let loc = msg.rsplit(" at ").next().unwrap_or("").to_string();
    if msg.contains(engeom::verif::BUDGET_PANIC) {
        l.check(UNANTICIPATED_BUDGET, "", false, || json!({"unanticipated_panic": msg.clone(), "sweep_item": i}), || format!("more than {} loop iterations inside one item", ITEM_BUDGET));
    } else if loc.starts_with("src/") || loc.contains("/verif/harness/") || loc.is_empty() {
        l.machinery.push(format!("harness panic on item {}: {}", i, msg));
    } else {
        l.check(UNANTICIPATED_PANIC, &loc, false, || json!({"unanticipated_panic": msg.clone(), "sweep_item": i}), || msg.clone());
    }
}

pub const UNANTICIPATED_PANIC: &str = "library call returns (no panic in a call that no clause expects to fail)";

pub fn guarded<T>(f: impl FnOnce() -> T) -> Result<T, String> {
    catch_unwind(AssertUnwindSafe(f)).map_err(|_| {
        let msg = LAST_PANIC.with(|p| p.borrow().clone());
        if msg.contains(engeom::verif::BUDGET_PANIC) {
            BUDGET_PANICS.fetch_add(1, Ordering::SeqCst);
            // the hook disarms itself when it fires; re-arm the default for whatever the item calls next
            reset_budget();
        }
        msg
    })
}

/// VERIF_SEED: rotates which members of a sub-sampled quick tier are taken; deciding enumerations do
/// not depend on it otherwise
pub fn seed() -> u64 {
    std::env::var("VERIF_SEED").ok().and_then(|s| s.parse::<i64>().ok()).unwrap_or(0) as u64
}

pub fn n_threads() -> usize {
    std::env::var("VERIF_THREADS")
        .ok()
        .and_then(|s| s.parse().ok())
        .unwrap_or_else(|| {
            std::thread::available_parallelism()
                .map(|n| n.get())
                .unwrap_or(8)
                .min(16)
        })
}

/// Exhaustive parallel enumeration of the index range `0..n`. Chunks are handed out dynamically but
/// merged in index order, so the merged result is independent of the schedule. The first items are
/// executed twice and must give identical observation digests (determinism self-check).
pub fn sweep_n<F>(n: usize, f: F) -> Local
where
    F: Fn(usize, &mut Local) + Sync,
{
    sweep_collect::<(), _>(n, |i, l, _| f(i, l)).0
}

/// As `sweep_n`, but every item may also emit values (successor states, records) which are returned
/// in index order
pub fn sweep_collect<T: Send, F>(n: usize, f: F) -> (Local, Vec<T>)
where
    F: Fn(usize, &mut Local, &mut Vec<T>) + Sync,
{
    let threads = n_threads();
    let mut merged = Local::new();
    let recheck = n.min(16);
    for i in 0..recheck {
        let mut a = Local::new();
        let mut b = Local::new();
        let mut sink = Vec::new();
        reset_budget();
        item_begin(i);
        let _ = guarded(|| f(i, &mut a, &mut sink));
        reset_budget();
        let _ = guarded(|| f(i, &mut b, &mut sink));
        item_end();
        if a.digest() != b.digest() {
            merged
                .machinery
                .push(format!("nondeterministic observations on item {}", i));
        }
    }
    if n == 0 {
        return (merged, Vec::new());
    }
    let chunk = (n / (threads * 32)).max(1);
    let n_chunks = n.div_ceil(chunk);
    let next = AtomicUsize::new(0);
    let results: Mutex<Vec<Option<(Local, Vec<T>)>>> = Mutex::new((0..n_chunks).map(|_| None).collect());
    std::thread::scope(|s| {
        for _ in 0..threads.min(n_chunks) {
            s.spawn(|| loop {
                let c = next.fetch_add(1, Ordering::SeqCst);
                if c >= n_chunks {
                    break;
                }
                let mut l = Local::new();
                let mut out = Vec::new();
                for i in c * chunk..((c + 1) * chunk).min(n) {
                    if cut_short() {
                        if l.caps.is_empty() {
                            l.cap(format!("sweep cut short after {} exhausted iteration budgets (all reported as violations)", BUDGET_PANIC_LIMIT));
                        }
                        break;
                    }
                    reset_budget();
                    item_begin(i);
                    if let Err(msg) = guarded(|| f(i, &mut l, &mut out)) {
                        file_escaped_panic(&mut l, i, msg);
                    }
                    item_end();
                    l.max_item_ticks = l.max_item_ticks.max(engeom::verif::ticks());
                }
                results.lock().unwrap()[c] = Some((l, out));
            });
        }
    });
    let mut all = Vec::new();
    for (l, out) in results.into_inner().unwrap().into_iter().flatten() {
        merged.merge(l);
        all.extend(out);
    }
    (merged, all)
}

/// Worker side of `sweep_isolated`: runs items `start..end` sequentially, announcing each one before it
/// starts, and prints the accumulated observations at the end.
pub fn isolated_worker(start: usize, end: usize, mut f: impl FnMut(usize, &mut Local)) -> i32 {
    use std::io::Write;
    let mut l = Local::new();
    let out = std::io::stdout();
    for i in start..end {
        {
            let mut o = out.lock();
            let _ = writeln!(o, "ITEM {}", i);
            let _ = o.flush();
        }
        reset_budget();
        item_begin(i);
        if let Err(msg) = guarded(|| f(i, &mut l)) {
            file_escaped_panic(&mut l, i, msg);
        }
        item_end();
        l.max_item_ticks = l.max_item_ticks.max(engeom::verif::ticks());
    }
    let mut o = out.lock();
    let _ = writeln!(o, "DONE {}", l.to_val());
    let _ = o.flush();
    0
}

/// What became of one item whose worker process did not survive it
#[derive(Clone, Debug)]
pub struct Casualty {
    pub item: usize,
    pub what: String,
}

/// Exhaustive sweep over `n` items executed in worker processes (`<this exe> <worker_args..> <start> <end>`),
/// each limited to `mem_kb` of address space, with a watchdog of `item_timeout_s` per item. The subject can
/// therefore abort, exhaust memory or hang without taking the checker with it: the item in progress is
/// returned as a casualty (for the caller to report) and the rest of its chunk is re-run. Results are merged
/// in index order.
pub fn sweep_isolated(worker_args: &[String], n: usize, chunk: usize, mem_kb: u64, item_timeout_s: u64) -> (Local, Vec<Casualty>) {
    // determinism self-check, as in `sweep_collect`: the first items are executed twice more, in two
    // separate workers, and must produce identical observations
    let k = n.min(16);
    let (a, ca) = sweep_isolated_inner(worker_args, k, k, mem_kb, item_timeout_s);
    let (b, cb) = sweep_isolated_inner(worker_args, k, k, mem_kb, item_timeout_s);
    let (mut merged, cas) = sweep_isolated_inner(worker_args, n, chunk, mem_kb, item_timeout_s);
    if a.digest() != b.digest() || ca.len() != cb.len() {
        merged.machinery.push("nondeterministic observations between two isolated workers on the first items".to_string());
    }
    (merged, cas)
}

fn sweep_isolated_inner(worker_args: &[String], n: usize, chunk: usize, mem_kb: u64, item_timeout_s: u64) -> (Local, Vec<Casualty>) {
    use std::io::{BufRead, BufReader};
    let exe = match std::env::current_exe() {
        Ok(e) => e,
        Err(e) => {
            let mut l = Local::new();
            l.machinery.push(format!("cannot locate the checker executable: {}", e));
            return (l, Vec::new());
        }
    };
    let chunk = chunk.max(1);
    let queue: Mutex<Vec<(usize, usize)>> = Mutex::new((0..n.div_ceil(chunk)).rev().map(|c| (c * chunk, ((c + 1) * chunk).min(n))).collect());
    let results: Mutex<Vec<(usize, Local)>> = Mutex::new(Vec::new());
    let casualties: Mutex<Vec<Casualty>> = Mutex::new(Vec::new());
    let threads = n_threads();
    std::thread::scope(|sc| {
        for _ in 0..threads {
            sc.spawn(|| loop {
                let job = queue.lock().unwrap().pop();
                let (start, end) = match job {
                    Some(j) => j,
                    None => break,
                };
                let mut cmd = std::process::Command::new("sh");
                cmd.arg("-c").arg(format!("ulimit -v {}; exec \"$0\" \"$@\"", mem_kb)).arg(&exe);
                for a in worker_args {
                    cmd.arg(a);
                }
                cmd.arg(start.to_string()).arg(end.to_string());
                cmd.stdout(std::process::Stdio::piped()).stderr(std::process::Stdio::null());
                let mut child = match cmd.spawn() {
                    Ok(c) => c,
                    Err(e) => {
                        let mut l = Local::new();
                        l.machinery.push(format!("cannot spawn a worker: {}", e));
                        results.lock().unwrap().push((start, l));
                        continue;
                    }
                };
                let stdout = child.stdout.take().unwrap();
                let current = std::sync::Arc::new(Mutex::new((None::<usize>, Instant::now())));
                let done = std::sync::Arc::new(std::sync::atomic::AtomicBool::new(false));
                let pid = child.id();
                // watchdog: kills the worker when one item exceeds its time allowance
                let wd = {
                    let current = current.clone();
                    let done = done.clone();
                    std::thread::spawn(move || {
                        while !done.load(Ordering::SeqCst) {
                            std::thread::sleep(std::time::Duration::from_millis(100));
                            let (_, since) = *current.lock().unwrap();
                            if since.elapsed().as_secs() >= item_timeout_s && !done.load(Ordering::SeqCst) {
                                let _ = std::process::Command::new("kill").arg("-9").arg(pid.to_string()).status();
                                return true;
                            }
                        }
                        false
                    })
                };
                let mut got: Option<Local> = None;
                for line in BufReader::new(stdout).lines().map_while(|l| l.ok()) {
                    if let Some(i) = line.strip_prefix("ITEM ") {
                        *current.lock().unwrap() = (i.trim().parse().ok(), Instant::now());
                    } else if let Some(js) = line.strip_prefix("DONE ") {
                        got = serde_json::from_str::<Val>(js).ok().and_then(|v| Local::from_val(&v));
                    }
                }
                let status = child.wait();
                done.store(true, Ordering::SeqCst);
                let timed_out = wd.join().unwrap_or(false);
                match got {
                    Some(l) => results.lock().unwrap().push((start, l)),
                    None => {
                        let (item, since) = *current.lock().unwrap();
                        match item {
                            Some(i) => {
                                let what = if timed_out {
                                    format!("no result after the {} s watchdog", item_timeout_s)
                                } else {
                                    format!("the worker process ended with {:?} after {:.1} s on this item (address space limited to {} MB)", status.ok(), since.elapsed().as_secs_f64(), mem_kb / 1000)
                                };
                                casualties.lock().unwrap().push(Casualty { item: i, what });
                                let mut q = queue.lock().unwrap();
                                if i + 1 < end {
                                    q.push((i + 1, end));
                                }
                                if start < i {
                                    q.push((start, i));
                                }
                            }
                            None => {
                                let mut l = Local::new();
                                l.machinery.push(format!("worker for items {}..{} produced no output", start, end));
                                results.lock().unwrap().push((start, l));
                            }
                        }
                    }
                }
            });
        }
    });
    let mut rs = results.into_inner().unwrap();
    rs.sort_by_key(|(s, _)| *s);
    let mut merged = Local::new();
    for (_, l) in rs {
        merged.merge(l);
    }
    let mut cas = casualties.into_inner().unwrap();
    cas.sort_by_key(|c| c.item);
    (merged, cas)
}

/// Level-synchronous parallel explicit-state search. Every state of the frontier is expanded by
/// `succ` (which calls the real code, judges the transitions and emits the successors); successors
/// are de-duplicated by their canonical `key`. Returns (accumulator, states, transitions, depth
/// reached, capped).
pub fn bfs_par<S: Send + Sync, K: Ord, FK, FS>(
    init: Vec<S>,
    key: FK,
    succ: FS,
    max_depth: usize,
    max_states: usize,
) -> (Local, u64, u64, usize, bool)
where
    FK: Fn(&S) -> K,
    FS: Fn(&S, usize, &mut Local, &mut Vec<S>) + Sync,
{
    let mut seen: BTreeSet<K> = BTreeSet::new();
    let mut frontier: Vec<S> = Vec::new();
    for s in init {
        if seen.insert(key(&s)) {
            frontier.push(s);
        }
    }
    let mut acc = Local::new();
    let mut transitions = 0u64;
    let mut depth = 0usize;
    let mut capped = false;
    while !frontier.is_empty() && depth < max_depth {
        let fr = &frontier;
        let (l, out) = sweep_collect::<S, _>(fr.len(), |i, l, out| succ(&fr[i], depth, l, out));
        acc.merge(l);
        transitions += out.len() as u64;
        let mut next = Vec::new();
        for n in out {
            if seen.len() >= max_states {
                capped = true;
                break;
            }
            if seen.insert(key(&n)) {
                next.push(n);
            }
        }
        frontier = next;
        depth += 1;
    }
    (acc, seen.len() as u64, transitions, depth, capped)
}

pub fn sweep<T: Sync, F>(items: &[T], f: F) -> Local
where
    F: Fn(&T, &mut Local) + Sync,
{
    sweep_n(items.len(), |i, l| f(&items[i], l))
}

#[derive(Clone, Debug)]
pub struct KnownFinding {
    pub property: String,
    pub clause: String,
    pub class_key: String,
    pub note: String,
}

pub fn load_known(path: &str) -> Result<Vec<KnownFinding>, String> {
    let text = match std::fs::read_to_string(path) {
        Ok(t) => t,
        Err(_) => return Ok(Vec::new()),
    };
    let v: Value = serde_json::from_str(&text).map_err(|e| format!("{}: {}", path, e))?;
    let mut out = Vec::new();
    for e in v["findings"].as_array().cloned().unwrap_or_default() {
        out.push(KnownFinding {
            property: e["property"].as_str().unwrap_or("").to_string(),
            clause: e["clause"].as_str().unwrap_or("").to_string(),
            class_key: e["class_key"].as_str().unwrap_or("").to_string(),
            note: e["note"].as_str().unwrap_or("").to_string(),
        });
    }
    Ok(out)
}

pub struct Ctx {
    pub id: &'static str,
    pub tier: Tier,
    pub seed: u64,
    pub level: &'static str,
    pub rule: String,
    pub bounds: Val,
    pub assumptions: Vec<String>,
    pub required_buckets: Vec<String>,
    pub exhaustive: bool,
    pub acc: Local,
    pub extra: BTreeMap<String, Val>,
    start: Instant,
}

pub const VERIF_DIR: &str = "/verif";

impl Ctx {
    pub fn new(id: &'static str, tier: Tier, level: &'static str) -> Self {
        let seed = std::env::var("VERIF_SEED")
            .ok()
            .and_then(|s| s.parse::<i64>().ok())
            .unwrap_or(0) as u64;
        if let Ok(mut p) = PROPERTY.lock() {
            *p = (id.to_string(), tier.name().to_string());
        }
        Ctx {
            id,
            tier,
            seed,
            level,
            rule: String::new(),
            bounds: json!({}),
            assumptions: Vec::new(),
            required_buckets: Vec::new(),
            exhaustive: true,
            acc: Local::new(),
            extra: BTreeMap::new(),
            start: Instant::now(),
        }
    }
    pub fn absorb(&mut self, l: Local) {
        self.acc.merge(l);
    }
    pub fn require(&mut self, buckets: &[&str]) {
        for b in buckets {
            self.required_buckets.push(b.to_string());
        }
    }
    pub fn assume(&mut self, a: &str) {
        self.assumptions.push(a.to_string());
    }

    /// Writes evidence, prints KNOWN-FINDING / VIOLATION lines and returns the exit code
    pub fn finish(mut self) -> i32 {
        let wall = self.start.elapsed().as_secs_f64();
        let mut machinery = std::mem::take(&mut self.acc.machinery);
        for b in &self.required_buckets {
            if self.acc.buckets.get(b).copied().unwrap_or(0) == 0 {
                machinery.push(format!("vacuity: coverage bucket '{}' is empty", b));
            }
        }
        if self.acc.outcomes.len() < 2 {
            machinery.push(format!(
                "vacuity: only {} distinct observed outcome(s)",
                self.acc.outcomes.len()
            ));
        }
        if !self.acc.caps.is_empty() {
            self.exhaustive = false;
        }

        let known = match load_known(&format!("{}/known_findings.json", VERIF_DIR)) {
            Ok(k) => k,
            Err(e) => {
                machinery.push(e);
                Vec::new()
            }
        };

        // Group violations by (clause, class_key)
        let mut classes: BTreeMap<(String, String), Vec<&Violation>> = BTreeMap::new();
        for v in &self.acc.viol {
            classes
                .entry((v.clause.clone(), v.class_key.clone()))
                .or_default()
                .push(v);
        }
        let mut known_lines = Vec::new();
        let mut violation_lines = Vec::new();
        let _ = std::fs::create_dir_all(format!("{}/replays", VERIF_DIR));
        let mut n_unknown: u64 = 0;
        let mut matched: BTreeSet<String> = BTreeSet::new();
        for (idx, ((clause, class_key), vs)) in classes.iter().enumerate() {
            let count = self
                .acc
                .viol_counts
                .get(&(clause.clone(), class_key.clone()))
                .copied()
                .unwrap_or(vs.len() as u64);
            let k = known
                .iter()
                .find(|k| k.property == self.id && &k.clause == clause && &k.class_key == class_key);
            if let Some(k) = k {
                known_lines.push(format!(
                    "KNOWN-FINDING: property={} clause=\"{}\" class=\"{}\" cases={} {}",
                    self.id, clause, class_key, count, k.note
                ));
                matched.insert(format!("{} / {}", clause, class_key));
            } else {
                n_unknown += count;
                let path = format!("{}/replays/{}-{}-{}.json", VERIF_DIR, self.id, self.tier.name(), idx);
                let body = json!({
                    "property": self.id,
                    "clause": clause,
                    "class_key": class_key,
                    "case": vs[0].case,
                    "detail": vs[0].detail,
                    "cases_in_class": count,
                });
                let _ = std::fs::write(&path, serde_json::to_string_pretty(&body).unwrap());
                violation_lines.push(format!(
                    "VIOLATION property={} replay={} clause=\"{}\" class=\"{}\" cases={} :: {}",
                    self.id, path, clause, class_key, count, vs[0].detail
                ));
            }
        }

        let a = &self.acc;
        let mut coverage = json!({
            "evaluations": a.evals,
            "distinct_nontrivial": a.distinct.len(),
            "rule": self.rule,
            "samples": a.samples,
            "states": a.states.max(a.distinct.len() as u64),
            "transitions": a.transitions.max(a.evals),
            "traces_validated_against_impl": a.traces.max(a.transitions.max(a.evals)),
            "exhaustive": self.exhaustive,
            "bounds": self.bounds,
            "buckets": a.buckets,
            "gray_zone_counts": a.grays,
            "clauses_judged": a.clauses,
            "distinct_observed_outcomes": a.outcomes.len(),
            "caps_hit": a.caps,
            "default_item_iteration_budget": ITEM_BUDGET,
            "max_loop_iterations_used_by_one_item": a.max_item_ticks,
            "known_findings_matched": matched.iter().collect::<Vec<_>>(),
            "explanation": "every count is measured on this run; the deciding step is the complete enumeration of the stated bounds against the real engeom code (feature verif)",
        });
        for (k, v) in &self.extra {
            coverage[k] = v.clone();
        }
        let evidence = json!({
            "property_id": self.id,
            "tier": self.tier.name(),
            "seed": self.seed,
            "level": self.level,
            "coverage": coverage,
            "assumptions": self.assumptions,
            "wall_s": wall,
            "violations": n_unknown,
            "machinery_errors": machinery,
        });
        let _ = std::fs::create_dir_all(format!("{}/evidence", VERIF_DIR));
        let path = format!("{}/evidence/{}.json", VERIF_DIR, self.id);
        if self.tier == Tier::Thorough {
            // the per-property file always describes the latest run; the last thorough run is kept beside it
            let _ = std::fs::create_dir_all(format!("{}/evidence/thorough", VERIF_DIR));
            let _ = std::fs::write(format!("{}/evidence/thorough/{}.json", VERIF_DIR, self.id), serde_json::to_string_pretty(&evidence).unwrap());
        }
        if let Err(e) = std::fs::write(&path, serde_json::to_string_pretty(&evidence).unwrap()) {
            machinery.push(format!("cannot write evidence: {}", e));
        }

        println!(
            "[{} {}] evaluations={} distinct={} states={} transitions={} outcomes={} gray={} wall={:.1}s",
            self.id,
            self.tier.name(),
            a.evals,
            a.distinct.len(),
            a.states.max(a.distinct.len() as u64),
            a.transitions.max(a.evals),
            a.outcomes.len(),
            a.grays.values().sum::<u64>(),
            wall
        );
        for (k, v) in &a.buckets {
            println!("    bucket {:40} {}", k, v);
        }
        for l in &known_lines {
            println!("{}", l);
        }
        for l in &violation_lines {
            println!("{}", l);
        }
        for m in &machinery {
            println!("MACHINERY-ERROR property={} {}", self.id, m);
        }
        if !violation_lines.is_empty() {
            1
        } else if !machinery.is_empty() {
            2
        } else {
            0
        }
    }
}

/// Deviation-bounded depth-first exploration over choice scripts (hash iteration orders, RNG draws):
/// executes `run` under the default answers, then under every script that departs from the default
/// in at most `max_dev` choice points. `run` returns a canonical outcome string. Returns the number
/// of executions, the map outcome -> first script producing it, and whether the cap was hit.
pub fn explore_choices<F: FnMut() -> String>(
    max_dev: usize,
    cap: usize,
    mut run: F,
) -> (usize, BTreeMap<String, Vec<usize>>, bool) {
    use engeom::verif;
    let mut outcomes: BTreeMap<String, Vec<usize>> = BTreeMap::new();
    let mut stack: Vec<Vec<usize>> = vec![vec![]];
    let mut runs = 0usize;
    let mut cap_hit = false;
    while let Some(prefix) = stack.pop() {
        if runs >= cap {
            cap_hit = true;
            break;
        }
        verif::install(prefix.clone());
        let out = run();
        let log = verif::take_log();
        runs += 1;
        // The prefix must have been replayed exactly
        for (i, k) in prefix.iter().enumerate() {
            if i >= log.len() || log[i].1 != *k {
                outcomes.insert("REPLAY-DIVERGENCE".to_string(), prefix.clone());
            }
        }
        let script: Vec<usize> = log.iter().map(|(_, k)| *k).collect();
        outcomes.entry(out).or_insert(script);
        for i in prefix.len()..log.len() {
            let dev_before = log[..i].iter().filter(|(_, k)| *k != 0).count();
            if dev_before + 1 > max_dev {
                continue;
            }
            for alt in 1..log[i].0 {
                let mut np: Vec<usize> = log[..i].iter().map(|(_, k)| *k).collect();
                np.push(alt);
                stack.push(np);
            }
        }
    }
    (runs, outcomes, cap_hit)
}

/// Generic explicit-state breadth-first search. `succ` calls the real code for every action enabled
/// in a state and reports each successor; `key` is the canonical form used for de-duplication.
pub fn bfs<S: Clone, K: Ord + Clone>(
    init: Vec<S>,
    key: impl Fn(&S) -> K,
    mut succ: impl FnMut(&S, usize, &mut dyn FnMut(S)),
    max_depth: usize,
    max_states: usize,
) -> (u64, u64, usize, bool) {
    let mut seen: BTreeSet<K> = BTreeSet::new();
    let mut frontier: Vec<S> = Vec::new();
    for s in init {
        if seen.insert(key(&s)) {
            frontier.push(s);
        }
    }
    let mut transitions = 0u64;
    let mut depth = 0usize;
    let mut capped = false;
    while !frontier.is_empty() && depth < max_depth {
        let mut next = Vec::new();
        for s in frontier.iter() {
            let mut out: Vec<S> = Vec::new();
            succ(s, depth, &mut |n| out.push(n));
            for n in out {
                transitions += 1;
                if seen.len() >= max_states {
                    capped = true;
                    continue;
                }
                if seen.insert(key(&n)) {
                    next.push(n);
                }
            }
        }
        frontier = next;
        depth += 1;
    }
    (seen.len() as u64, transitions, depth, capped)
}

/// Encodes a float so that non-finite values survive JSON
pub fn fj(x: f64) -> Val {
    if x.is_finite() {
        json!(x)
    } else if x.is_nan() {
        json!("nan")
    } else if x > 0.0 {
        json!("inf")
    } else {
        json!("-inf")
    }
}

pub fn jf(v: &Val) -> f64 {
    match v {
        Value::String(s) if s == "nan" => f64::NAN,
        Value::String(s) if s == "inf" => f64::INFINITY,
        Value::String(s) if s == "-inf" => f64::NEG_INFINITY,
        _ => v.as_f64().unwrap_or(f64::NAN),
    }
}

/// serde adapter for `Vec<f64>` that keeps NaN and infinities (as strings)
pub mod nf {
    use super::{fj, jf, Val};
    use serde::{Deserialize, Deserializer, Serialize, Serializer};
    pub fn serialize<S: Serializer>(v: &[f64], s: S) -> Result<S::Ok, S::Error> {
        v.iter().map(|x| fj(*x)).collect::<Vec<Val>>().serialize(s)
    }
    pub fn deserialize<'de, D: Deserializer<'de>>(d: D) -> Result<Vec<f64>, D::Error> {
        Ok(Vec::<Val>::deserialize(d)?.iter().map(jf).collect())
    }
}

/// serde adapter for `Option<Vec<f64>>` that keeps NaN and infinities
pub mod nf_opt {
    use super::{fj, jf, Val};
    use serde::{Deserialize, Deserializer, Serialize, Serializer};
    pub fn serialize<S: Serializer>(v: &Option<Vec<f64>>, s: S) -> Result<S::Ok, S::Error> {
        v.as_ref().map(|v| v.iter().map(|x| fj(*x)).collect::<Vec<Val>>()).serialize(s)
    }
    pub fn deserialize<'de, D: Deserializer<'de>>(d: D) -> Result<Option<Vec<f64>>, D::Error> {
        Ok(Option::<Vec<Val>>::deserialize(d)?.map(|v| v.iter().map(jf).collect()))
    }
}
