pub mod c01;
pub mod c04;
pub mod c05;
