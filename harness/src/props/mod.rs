pub mod c01;
pub mod c02;
pub mod c03;
pub mod c04;
pub mod c05;
pub mod c06;
pub mod c17;
pub mod c18;
