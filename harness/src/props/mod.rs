pub mod c01;
