//! C17 — series and discrete domains stay sorted, finite and function-preserving.
//! Explicit-state search over series reachable by derived operations + constructor sweeps.
use crate::engine::*;
use engeom::common::{linear_space, DiscreteDomain, Interval};
use engeom::Series1;
use serde::{Deserialize, Serialize};
use serde_json::json;

#[derive(Clone, Serialize, Deserialize, Debug)]
pub struct State {
    #[serde(with = "crate::engine::nf")]
    pub xs: Vec<f64>,
    #[serde(with = "crate::engine::nf")]
    pub ys: Vec<f64>,
}

impl State {
    fn series(&self) -> Option<Series1> {
        Series1::try_new(self.xs.clone(), self.ys.clone()).ok()
    }
    fn of(s: &Series1) -> State {
        State { xs: s.x.values().to_vec(), ys: s.y.clone() }
    }
    fn key(&self) -> (Vec<i64>, Vec<i64>) {
        (
            self.xs.iter().map(|v| (v * 1e9).round() as i64).collect(),
            self.ys.iter().map(|v| if v.is_nan() { i64::MIN } else { (v * 1e9).round() as i64 }).collect(),
        )
    }
}

#[derive(Clone, Serialize, Deserialize, Debug)]
pub struct Case {
    /// state | ctor
    pub kind: String,
    pub state: Option<State>,
    #[serde(with = "crate::engine::nf_opt")]
    pub ctor: Option<Vec<f64>>,
    pub name: String,
}

fn valid(s: &Series1) -> Option<String> {
    let xs = s.x.values();
    if xs.len() != s.y.len() {
        return Some(format!("{} abscissae but {} ordinates", xs.len(), s.y.len()));
    }
    if xs.iter().any(|v| !v.is_finite()) {
        return Some(format!("non-finite abscissa in {:?}", xs));
    }
    if xs.windows(2).any(|w| w[0] > w[1]) {
        return Some(format!("abscissae not ascending: {:?}", xs));
    }
    None
}

fn eval_ref(xs: &[f64], ys: &[f64], x: f64) -> f64 {
    if x < xs[0] || x > xs[xs.len() - 1] {
        return f64::NAN;
    }
    for i in 0..xs.len() {
        if xs[i] == x {
            return ys[i];
        }
    }
    for i in 0..xs.len() - 1 {
        if xs[i] < x && x < xs[i + 1] {
            return ys[i] + (ys[i + 1] - ys[i]) * (x - xs[i]) / (xs[i + 1] - xs[i]);
        }
    }
    f64::NAN
}

fn trapezoid(xs: &[f64], ys: &[f64]) -> f64 {
    (0..xs.len() - 1).map(|i| (xs[i + 1] - xs[i]) * (ys[i] + ys[i + 1]) * 0.5).sum()
}

fn expand(st: &State, depth: usize, l: &mut Local, out: &mut Vec<State>) {
    let mk = |name: &str| {
        let c = Case { kind: "state".into(), state: Some(st.clone()), ctor: None, name: name.into() };
        move || serde_json::to_value(&c).unwrap()
    };
    let s = match st.series() {
        Some(s) => s,
        None => return,
    };
    l.states += 1;
    l.distinct(hash_of(&st.key()));
    l.sample(|| json!({"state": st, "depth": depth}));
    if depth > 0 {
        l.bucket("non-initial state");
    }
    l.eval();
    if let Some(p) = valid(&s) {
        l.check("state invariant: finite ascending abscissae with matching ordinates", "", false, mk("invariant"), || p.clone());
        return;
    }
    let xs = s.x.values().to_vec();
    let ys = s.y.clone();
    let distinct = xs.windows(2).all(|w| w[0] < w[1]);
    if !distinct {
        l.bucket("repeated abscissae");
    }
    if xs.len() < 2 {
        l.bucket("single-knot series");
        // interpolation at the only knot, and outside
        l.check("interpolation returns the stored value at knots", "single", s.interpolate(xs[0]) == ys[0] || (ys[0].is_nan() && s.interpolate(xs[0]).is_nan()), mk("interpolate"), String::new);
        return;
    }
    let (x0, x1) = (xs[0], xs[xs.len() - 1]);
    let has_nan = ys.iter().any(|y| y.is_nan());

    // interpolation against the reference
    let mut probes: Vec<f64> = xs.clone();
    for w in xs.windows(2) {
        probes.push(0.5 * (w[0] + w[1]));
        probes.push(w[0] + 0.25 * (w[1] - w[0]));
    }
    for x in xs.iter() {
        probes.push(x.next_up());
        probes.push(x.next_down());
    }
    probes.push(x0 - 1.0);
    probes.push(x1 + 1.0);
    if distinct && !has_nan {
        let mut worst: Option<(f64, f64, f64)> = None;
        for &p in &probes {
            l.eval();
            match guarded(|| s.interpolate(p)) {
                Ok(a) => {
                    let b = eval_ref(&xs, &ys, p);
                    let scale = 1.0 + ys.iter().fold(0.0f64, |m, y| m.max(y.abs()));
                    if !(a.is_nan() && b.is_nan()) && !((a - b).abs() <= 1e-9 * scale) {
                        worst = Some((p, a, b));
                    }
                }
                Err(_) => worst = Some((p, f64::NAN, 0.0)),
            }
        }
        l.check("interpolation: stored values at knots, linear blend between, NaN outside", "", worst.is_none(), mk("interpolate"), || format!("{:?}", worst));
    }
    if distinct && has_nan {
        // with NaN ordinates in the series the knots still return exactly what is stored there: a finite
        // value next to a NaN neighbour stays finite, a NaN stays NaN
        let ok = xs.iter().zip(ys.iter()).all(|(x, y)| {
            let v = s.interpolate(*x);
            v == *y || (v.is_nan() && y.is_nan())
        });
        l.check("interpolation returns the stored value at knots", "NaN neighbours", ok, mk("interpolate"), || format!("xs {:?} ys {:?}", xs, ys));
    }
    if !distinct {
        return;
    }

    // remove_nan / abs (valid results, become states)
    for name in ["remove_nan", "abs"] {
        l.eval();
        l.transitions += 1;
        match guarded(|| if name == "abs" { s.abs() } else { s.remove_nan() }) {
            Ok(r) => {
                let ok = valid(&r).is_none() && (name == "abs" || !r.y.iter().any(|y| y.is_nan())) && (name != "abs" || r.y.iter().zip(ys.iter()).all(|(a, b)| *a == b.abs() || (a.is_nan() && b.is_nan())));
                l.check(&format!("{} yields a valid series", name), "", ok, mk(name), || format!("{:?}", r));
                if ok && r.x.len() >= 1 {
                    out.push(State::of(&r));
                }
            }
            Err(m) => {
                l.check(&format!("{} yields a valid series", name), "panic", false, mk(name), || m.clone());
            }
        }
    }
    // derived series that keep the abscissae: derivative, smoothing, pointwise scaling
    if xs.len() >= 2 {
        for name in ["dydx", "savitzky_golay", "scaled_y"] {
            l.eval();
            l.transitions += 1;
            let line = engeom::func1::Line1::new_mxb(0.5, 2.0);
            match guarded(|| match name {
                "dydx" => s.dydx(),
                "savitzky_golay" => s.savitzky_golay(),
                _ => s.scaled_y(&line),
            }) {
                Ok(r) => {
                    let mut ok = valid(&r).is_none() && r.x.values() == xs.as_slice();
                    if name == "scaled_y" {
                        ok &= r.y.iter().zip(ys.iter().zip(xs.iter())).all(|(a, (y, x))| (a.is_nan() && y.is_nan()) || (*a - y * (0.5 * x + 2.0)).abs() <= 1e-12 * (1.0 + a.abs()));
                    }
                    l.check("derivative, smoothing and pointwise scaling keep the abscissae and the number of ordinates", name, ok, mk(name), || format!("{:?}", r));
                }
                Err(m) => {
                    l.check("derivative, smoothing and pointwise scaling keep the abscissae and the number of ordinates", "panic", false, mk(name), || m.clone());
                }
            }
        }
    }
    if has_nan {
        l.bucket("series with NaN ordinates");
        return;
    }

    let mut cuts: Vec<f64> = xs.clone();
    for w in xs.windows(2) {
        cuts.push(0.5 * (w[0] + w[1]));
        // two more cuts strictly inside every segment, so that slices with both bounds inside one segment
        // (neither on a knot) occur
        cuts.push((0.75 * w[0] + 0.25 * w[1]).clamp(w[0], w[1]));
        cuts.push((0.2 * w[0] + 0.8 * w[1]).clamp(w[0], w[1]));
    }
    for x in xs.iter() {
        if x.next_up() <= x1 {
            cuts.push(x.next_up());
        }
        if x.next_down() >= x0 {
            cuts.push(x.next_down());
        }
    }
    cuts.sort_by(|a, b| a.partial_cmp(b).unwrap());
    cuts.dedup();
    let scale = 1.0 + ys.iter().fold(0.0f64, |m, y| m.max(y.abs()));

    // slices
    for &a in &cuts {
        for &b in &cuts {
            if !(a < b) {
                continue;
            }
            for via in ["between", "in_interval"] {
                l.eval();
                l.transitions += 1;
                let r = guarded(|| if via == "between" { s.between(a, b) } else { s.in_interval(Interval::new(a, b)) });
                match r {
                    Err(m) => {
                        l.check("slice returns", "panic", false, mk(via), || format!("({:e},{:e}): {}", a, b, m));
                    }
                    Ok(r) => {
                        l.outcome(hash_of(&(r.x.len().min(6), via == "between")));
                        if let Some(p) = valid(&r) {
                            l.check("slice yields a valid series", "", false, mk(via), || format!("({:e},{:e}): {}", a, b, p));
                            continue;
                        }
                        let rx = r.x.values();
                        l.check("slice ends exactly at the requested bounds", "", rx[0] == a && rx[rx.len() - 1] == b, mk(via), || format!("({:e},{:e}) -> {:?}", a, b, rx));
                        let mut worst = 0.0f64;
                        for k in 0..=16 {
                            let x = (a + (b - a) * k as f64 / 16.0).min(b);
                            let (u, v) = (r.interpolate(x), eval_ref(&xs, &ys, x));
                            worst = worst.max(if u.is_nan() || v.is_nan() { f64::MAX } else { (u - v).abs() });
                        }
                        l.check("slice evaluates as its parent", "", worst <= 1e-9 * scale, mk(via), || format!("({:e},{:e}): worst deviation {:e}", a, b, worst));
                        if via == "between" && (b - a) > 1e-6 {
                            out.push(State::of(&r));
                        }
                    }
                }
            }
        }
    }
    l.bucket("slices judged");

    // splits
    for &a in cuts.iter().chain([x0 - 1.0, x1 + 1.0].iter()) {
        l.eval();
        l.transitions += 1;
        match guarded(|| s.split_at_x(a)) {
            Err(m) => {
                l.check("split returns", "panic", false, mk("split_at_x"), || format!("{:e}: {}", a, m));
            }
            Ok((lft, rgt)) => {
                let mut ok = true;
                let mut area = 0.0;
                for p in [&lft, &rgt].into_iter().flatten() {
                    ok &= valid(p).is_none();
                    if p.x.len() >= 2 {
                        area += trapezoid(p.x.values(), &p.y);
                    }
                }
                let inside = a >= x0 && a <= x1;
                if inside {
                    ok &= lft.is_some() && rgt.is_some();
                    if let (Some(p), Some(q)) = (&lft, &rgt) {
                        ok &= p.x[0] == x0 && p.x[p.x.len() - 1] == a && q.x[0] == a && q.x[q.x.len() - 1] == x1;
                    }
                } else {
                    // a cut outside the domain leaves the whole series on the far side and nothing on the near one
                    let (whole, none) = if a < x0 { (&rgt, &lft) } else { (&lft, &rgt) };
                    let side = none.is_none() && whole.as_ref().map(|p| p.x.values() == xs.as_slice() && p.y.iter().zip(ys.iter()).all(|(u, v)| u == v || (u.is_nan() && v.is_nan()))).unwrap_or(false);
                    l.check("a split outside the domain puts the whole series on the side away from the cut", "", side, mk("split_at_x"), || format!("{:e} outside [{:e}, {:e}]: left {:?} right {:?}", a, x0, x1, lft.as_ref().map(|p| p.x.values().to_vec()), rgt.as_ref().map(|p| p.x.values().to_vec())));
                }
                l.check("split pieces are valid, meet at the split abscissa and their areas add up", "", ok && (area - trapezoid(&xs, &ys)).abs() <= 1e-9 * scale * (1.0 + (x1 - x0)), mk("split_at_x"), || {
                    format!("{:e}: areas {} vs {}; left {:?} right {:?}", a, area, trapezoid(&xs, &ys), lft.as_ref().map(|p| p.x.values().to_vec()), rgt.as_ref().map(|p| p.x.values().to_vec()))
                });
            }
        }
    }
    l.bucket("splits judged");

    // scaling and shifting
    for sx in [-2.0, 0.5, 3.0] {
        for sy in [-1.5, 2.0] {
            l.eval();
            l.transitions += 1;
            match guarded(|| s.scaled_by(sx, sy)) {
                Err(m) => {
                    l.check("scaling returns", "panic", false, mk("scaled_by"), || m.clone());
                }
                Ok(r) => {
                    if let Some(p) = valid(&r) {
                        l.check("scaling yields a valid series", "", false, mk("scaled_by"), || format!("sx {} sy {}: {}", sx, sy, p));
                        continue;
                    }
                    let mut worst = 0.0f64;
                    for &p in &xs {
                        let (u, v) = (r.interpolate(p * sx), sy * eval_ref(&xs, &ys, p));
                        worst = worst.max(if u.is_nan() || v.is_nan() { f64::MAX } else { (u - v).abs() });
                    }
                    l.bucket(if sx < 0.0 { "negative x scale" } else { "positive x scale" });
                    l.check("scaling transforms the graph", "", worst <= 1e-9 * scale * 3.0, mk("scaled_by"), || format!("sx {} sy {}: deviation {:e}", sx, sy, worst));
                    if depth == 0 {
                        out.push(State::of(&r));
                    }
                }
            }
        }
    }
    // adding and subtracting a function (another series, a Gaussian bump): same abscissae, ordinates combined
    {
        use engeom::func1::{Func1, Gaussian1};
        let bump = Gaussian1::new(1.0, 0.7);
        let other = Series1::try_new(vec![-10.0, 0.0, 10.0], vec![1.0, -2.0, 3.0]).ok();
        let mut fs: Vec<(&str, &dyn Func1)> = vec![("gaussian", &bump)];
        if let Some(o) = other.as_ref() {
            fs.push(("series", o));
        }
        for (name, g) in fs {
            l.eval();
            l.transitions += 2;
            match (guarded(|| &s + g), guarded(|| &s - g)) {
                (Ok(a), Ok(b)) => {
                    let ok = a.x.to_vec() == xs && b.x.to_vec() == xs && xs.iter().enumerate().all(|(i, x)| {
                        let gv = g.f(*x);
                        let (ea, eb) = (ys[i] + gv, ys[i] - gv);
                        (a.y[i] == ea || (a.y[i].is_nan() && ea.is_nan())) && (b.y[i] == eb || (b.y[i].is_nan() && eb.is_nan()))
                    });
                    l.check("adding or subtracting a function keeps the abscissae and combines the ordinates", "", ok, mk("add/sub"), || format!("{}: {:?} / {:?}", name, a, b));
                }
                (a, b) => {
                    l.check("adding or subtracting a function keeps the abscissae and combines the ordinates", "panic", false, mk("add/sub"), || format!("{}: {:?} {:?}", name, a.err(), b.err()));
                }
            }
        }
    }
    for (sx, sy) in [(1.5, -0.5), (0.0, 5.0), (-3.0, 0.0), (0.0, 0.0), (-0.0, 2.0), (1e-300, -0.0)] {
        l.eval();
        l.transitions += 1;
        match guarded(|| s.shift_by(sx, sy)) {
            Err(m) => {
                l.check("shifting returns", "panic", false, mk("shift_by"), || m.clone());
            }
            Ok(r) => {
                let ok = valid(&r).is_none() && r.x.len() == xs.len() && xs.iter().all(|p| (r.interpolate(p + sx) - (eval_ref(&xs, &ys, *p) + sy)).abs() <= 1e-9 * scale);
                l.check("shifting transforms the graph", "", ok, mk("shift_by"), || format!("shift ({}, {}): {:?}", sx, sy, r));
            }
        }
    }

    // resampling
    for n in [2usize, 3, 5] {
        l.eval();
        l.transitions += 1;
        match guarded(|| s.resampled_n(n)) {
            Err(m) => {
                l.check("resampling returns", "panic", false, mk("resampled_n"), || format!("n {}: {}", n, m));
            }
            Ok(r) => {
                if let Some(p) = valid(&r) {
                    l.check("resampling yields a valid series", "", false, mk("resampled_n"), || p.clone());
                    continue;
                }
                let rx = r.x.values();
                let ends = rx.len() == n && (rx[0] - x0).abs() <= 4.0 * f64::EPSILON * (x0.abs() + x1.abs()) && (rx[n - 1] - x1).abs() <= 4.0 * f64::EPSILON * (x0.abs() + x1.abs());
                l.check("resampling to n points keeps both end points", "", ends, mk("resampled_n"), || format!("n {}: {:?} for [{}, {}]", n, rx, x0, x1));
                let on = r.xys().all(|(x, y)| {
                    let xr = x.clamp(x0, x1);
                    (y - eval_ref(&xs, &ys, xr)).abs() <= 1e-9 * scale
                });
                l.check("resampled points lie on the piecewise-linear graph", "", on, mk("resampled_n"), || format!("n {}: {:?} {:?}", n, rx, r.y));
                if ends && on {
                    out.push(State::of(&r));
                }
            }
        }
    }
    for sp in [0.4 * (x1 - x0), (x1 - x0) / 3.0, 1.5 * (x1 - x0), 7.0 * (x1 - x0)] {
        l.eval();
        l.transitions += 1;
        match guarded(|| s.resampled_x(sp)) {
            Err(m) => {
                l.check("resampling returns", "panic", false, mk("resampled_x"), || format!("spacing {}: {}", sp, m));
            }
            Ok(r) => {
                // also with a spacing wider than the whole span: both end points are kept
                let ends = r.x.len() >= 2 && r.x[0] == x0 && (r.x[r.x.len() - 1] - x1).abs() <= 1e-12 * (1.0 + x1.abs());
                let ok = ends && valid(&r).is_none() && r.xys().all(|(x, y)| (y - eval_ref(&xs, &ys, x.clamp(x0, x1))).abs() <= 1e-9 * scale);
                l.check("resampling by spacing yields a valid series on the graph", "", ok, mk("resampled_x"), || format!("{:?}", r));
            }
        }
    }

    // level crossings
    let mut levels: Vec<f64> = ys.clone();
    for w in ys.windows(2) {
        levels.push(0.5 * (w[0] + w[1]));
    }
    levels.push(5.0);
    levels.sort_by(|a, b| a.partial_cmp(b).unwrap());
    levels.dedup();
    for &lv in &levels {
        l.eval();
        l.transitions += 1;
        let flat_on_level = (0..xs.len() - 1).any(|i| ys[i] == lv && ys[i + 1] == lv);
        l.bucket(if flat_on_level { "level along a flat segment" } else { "level crossing isolated points" });
        match guarded(|| s.y_crossings(lv)) {
            Err(m) => {
                l.check("level crossings return", "panic", false, mk("y_crossings"), || format!("level {}: {}", lv, m));
            }
            Ok(cr) => {
                l.outcome(hash_of(&(cr.len().min(5), flat_on_level)));
                let sorted = cr.windows(2).all(|w| w[0] < w[1]);
                let on_level = cr.iter().all(|c| (eval_ref(&xs, &ys, c.clamp(x0, x1)) - lv).abs() <= 1e-9 * scale && *c >= x0 - 1e-12 && *c <= x1 + 1e-12);
                l.check("crossings are sorted, unique and lie on the level", "", sorted && on_level, mk("y_crossings"), || format!("level {}: {:?}", lv, cr));
                if !flat_on_level {
                    let mut missed = None;
                    for i in 0..xs.len() - 1 {
                        let (a, b) = (ys[i] - lv, ys[i + 1] - lv);
                        if (a < 0.0 && b > 0.0) || (a > 0.0 && b < 0.0) || a == 0.0 || b == 0.0 {
                            let xc = if a == 0.0 { xs[i] } else if b == 0.0 { xs[i + 1] } else { xs[i] + (xs[i + 1] - xs[i]) * (-a) / (b - a) };
                            if !cr.iter().any(|c| (c - xc).abs() <= 1e-9 * (1.0 + xc.abs())) {
                                missed = Some(xc);
                            }
                        }
                    }
                    l.check("every sign change or touching knot is reported", "", missed.is_none(), mk("y_crossings"), || format!("level {}: missing {:?} in {:?}", lv, missed, cr));
                }
            }
        }
    }
    l.eval();
    l.transitions += 1;
    match guarded(|| s.bounds_at_y0()) {
        Err(m) => {
            l.check("bounds_at_y0 returns", "panic", false, mk("bounds_at_y0"), || m.clone());
        }
        Ok(b) => {
            let ok = b.iter().all(|iv| iv.min.is_finite() && iv.max.is_finite() && iv.min <= iv.max) && (b.is_empty() || ((b[0].min - x0).abs() <= 1e-9 && (b[b.len() - 1].max - x1).abs() <= 1e-9));
            l.check("bounds_at_y0 tiles the domain with finite intervals", "", ok, mk("bounds_at_y0"), || format!("{:?}", b));
        }
    }
    l.eval();
    let area = s.area_under();
    l.check("area equals the sum of trapezoids", "", (area - trapezoid(&xs, &ys)).abs() <= 1e-9 * scale * (1.0 + (x1 - x0)), mk("area_under"), || format!("{} vs {}", area, trapezoid(&xs, &ys)));
}

fn judge_ctor(case: &Case, l: &mut Local) {
    let mk = || serde_json::to_value(case).unwrap();
    let v = case.ctor.clone().unwrap_or_default();
    l.distinct(hash_of(&(case.name.as_str(), hash_f64s(&v))));
    match case.name.as_str() {
        "try_from" => {
            l.eval();
            let want = v.iter().all(|x| x.is_finite()) && v.windows(2).all(|w| w[0] <= w[1]);
            let got = DiscreteDomain::try_from(v.clone());
            l.outcome(hash_of(&(want, v.len())));
            l.bucket(if want { "accepted vector" } else { "rejected vector" });
            l.check("domain from vector accepts exactly finite ascending input", "", got.is_ok() == want && got.map(|d| d.values() == v.as_slice()).unwrap_or(true), mk, || format!("{:?}", v));
            // series construction: same rule plus matching lengths
            let ys = vec![0.0; v.len()];
            l.check("series from vectors follows the same rule", "", Series1::try_new(v.clone(), ys).is_ok() == want && Series1::try_new(v.clone(), vec![0.0; v.len() + 1]).is_err(), mk, || format!("{:?}", v));
        }
        "push" => {
            // history of pushes into an empty domain; reference = Vec with the acceptance rule
            l.eval();
            let mut d = DiscreteDomain::default();
            let mut model: Vec<f64> = Vec::new();
            let mut ok = true;
            for x in &v {
                let want = x.is_finite() && model.last().map(|m| x >= m).unwrap_or(true);
                let got = d.push(*x).is_ok();
                if want {
                    model.push(*x);
                }
                ok &= got == want && d.values() == model.as_slice() && d.len() == model.len();
            }
            l.outcome(hash_of(&(model.len(), v.len())));
            l.bucket("push history");
            l.check("push accepts exactly finite non-decreasing values; rejected pushes change nothing", "", ok, mk, || format!("pushes {:?} -> {:?}", v, d.values()));
            // index_of on the result
            for q in model.iter().flat_map(|m| [*m, m.next_up(), m.next_down(), m + 0.5]) {
                let want = if model.is_empty() || q < model[0] || q > model[model.len() - 1] { None } else { Some(model.iter().rposition(|m| *m <= q).unwrap()) };
                let got = d.index_of(q);
                // with repeated values any index of an equal value is acceptable
                let okq = match (got, want) {
                    (Some(g), Some(w)) => g == w || model[g] == model[w],
                    (None, None) => true,
                    _ => false,
                };
                l.check("index_of returns the zone of the greatest value not above the query", "", okq, mk, || format!("{:?}.index_of({}) = {:?} expected {:?}", model, q, got, want));
            }
        }
        "long" => {
            // long domains and series (sizes around powers of two and beyond a thousand): lookups at every knot, one
            // ulp either side and between knots, interpolation and slicing against the plain reference
            l.eval();
            let n = v[0] as usize;
            let xs: Vec<f64> = (0..n).map(|i| v[1] + 0.137 * i as f64 + 0.011 * ((i * 7) % 5) as f64).collect();
            let ys: Vec<f64> = (0..n).map(|i| ((i * 13) % 17) as f64 - 8.0).collect();
            l.bucket("long domain");
            let d = match DiscreteDomain::try_from(xs.clone()) {
                Ok(d) => d,
                Err(e) => {
                    l.check("domain from vector accepts exactly finite ascending input", "long", false, mk, || e.to_string());
                    return;
                }
            };
            let mut ok = d.len() == n;
            for (k, x) in xs.iter().enumerate() {
                ok &= d.index_of(*x) == Some(k);
                ok &= d.index_of(x.next_down()) == if k == 0 { None } else { Some(k - 1) };
                if k + 1 < n {
                    ok &= d.index_of(x.next_up()) == Some(k) && d.index_of(0.5 * (x + xs[k + 1])) == Some(k);
                }
            }
            l.check("index_of returns the zone of the greatest value not above the query", "long", ok, mk, || format!("{} values", n));
            if let Ok(sr) = Series1::try_new(xs.clone(), ys.clone()) {
                let mut oks = true;
                for k in 0..n - 1 {
                    let xm = 0.25 * xs[k] + 0.75 * xs[k + 1];
                    oks &= sr.interpolate(xs[k]) == ys[k] && (sr.interpolate(xm) - (0.25 * ys[k] + 0.75 * ys[k + 1])).abs() <= 1e-9;
                }
                oks &= sr.interpolate(xs[n - 1]) == ys[n - 1];
                l.check("interpolation: stored values at knots, linear blend between, NaN outside", "long", oks, mk, || format!("{} knots", n));
                // a slice across most of the series keeps exactly the knots inside plus the two cut points
                let (a, b) = (0.5 * (xs[1] + xs[2]), 0.5 * (xs[n - 3] + xs[n - 2]));
                match guarded(|| sr.between(a, b)) {
                    Ok(sl) => {
                        let inner = xs.iter().filter(|x| **x > a && **x < b).count();
                        l.check("slice keeps the knots inside and the exact ends", "long", sl.x.len() == inner + 2 && sl.x[0] == a && sl.x[sl.x.len() - 1] == b, mk, || format!("{} knots: slice has {} (expected {})", n, sl.x.len(), inner + 2));
                    }
                    Err(e) => {
                        l.check("slice returns", "panic", false, mk, || e.clone());
                    }
                }
            }
        }
        "resample" => {
            l.eval();
            let (x0, span, n) = (v[0], v[1], v[2] as usize);
            let xs = vec![x0, x0 + 0.4 * span, x0 + span];
            let ys = vec![1.0, -0.5, 2.0];
            let s = match Series1::try_new(xs.clone(), ys.clone()) {
                Ok(s) => s,
                Err(_) => return,
            };
            l.bucket("resampling over awkward spans");
            match guarded(|| s.resampled_n(n)) {
                Err(m) => {
                    l.check("resampling returns", "panic", false, mk, || m.clone());
                }
                Ok(r) => {
                    let rx = r.x.values();
                    l.outcome(hash_of(&(n, rx.last().map(|x| *x > xs[2]))));
                    let ends = rx.len() == n && rx[0] == xs[0] && rx[n - 1] <= xs[2] && (rx[n - 1] - xs[2]).abs() <= 4.0 * f64::EPSILON * (xs[0].abs() + xs[2].abs());
                    let finite = r.y.iter().all(|y| y.is_finite()) && valid(&r).is_none();
                    let on = r.xys().all(|(x, y)| (y - eval_ref(&xs, &ys, *x)).abs() <= 1e-9);
                    l.check("resampling to n points keeps both end points inside the domain, finite ordinates on the graph", "", ends && finite && on, mk, || format!("[{}, {}] n {}: last abscissa {:e} (x_max {:e}), ordinates {:?}", xs[0], xs[2], n, rx[rx.len() - 1], xs[2], &r.y[r.y.len().saturating_sub(2)..]));
                    if finite {
                        let a = r.area_under();
                        l.check("area under a resampled series is finite", "", a.is_finite(), mk, String::new);
                    }
                }
            }
        }
        "linear" | "linear_space" => {
            l.eval();
            let (a, b, n) = (v[0], v[1], v[2] as usize);
            let r = guarded(|| if case.name == "linear" { DiscreteDomain::linear(a, b, n) } else { linear_space(a, b, n) });
            l.bucket(if a > b { "descending bounds" } else if a == b { "equal bounds" } else { "ascending bounds" });
            match r {
                Err(m) => {
                    // an error is acceptable, a silently invalid object is not; a panic counts as an error signal
                    l.gray("linear spacing signalled failure by panicking");
                    let _ = m;
                }
                Ok(d) => {
                    let x = d.values();
                    l.outcome(hash_of(&(a > b, n, x.first().map(|f| f.to_bits()))));
                    let step = (a - b).abs() / (n as f64 - 1.0);
                    let ok = x.len() == n && x.iter().all(|t| t.is_finite()) && x.windows(2).all(|w| w[0] <= w[1]) && (x[0] - a.min(b)).abs() <= 1e-12 && (x[n - 1] - a.max(b)).abs() <= 1e-12 && x.windows(2).all(|w| ((w[1] - w[0]) - step).abs() <= 1e-12);
                    l.check("linear spacing yields n finite ascending evenly spaced values from min to max", "", ok, mk, || format!("{}({}, {}, {}) -> {:?}", case.name, a, b, n, x));
                }
            }
        }
        _ => {}
    }
}

pub fn roots(tier: Tier) -> Vec<State> {
    let alphabet = [0.0, 1.0, 1.0, 2.5, 4.0];
    let yvals = [-1.0, 0.0, 0.0, 2.0];
    let mut out = Vec::new();
    // every ascending (non-strict) subsequence of the alphabet of length 1..4
    for mask in 1u32..32 {
        let xs: Vec<f64> = (0..5).filter(|i| mask & (1 << i) != 0).map(|i| alphabet[i]).collect();
        if xs.len() > 4 {
            continue;
        }
        let m = xs.len();
        for code in 0..4usize.pow(m as u32) {
            let mut ys = vec![0.0; m];
            let mut c = code;
            for y in ys.iter_mut() {
                *y = yvals[c % 4];
                c /= 4;
            }
            out.push(State { xs: xs.clone(), ys });
        }
    }
    // a few series with NaN ordinates (for remove_nan) and an offset, uneven one
    out.push(State { xs: vec![0.0, 1.0, 2.5], ys: vec![1.0, f64::NAN, 2.0] });
    out.push(State { xs: vec![0.0, 1.0, 2.5, 4.0], ys: vec![f64::NAN, 1.0, -1.0, f64::NAN] });
    // runs of adjacent NaN ordinates: every pattern of NaN / finite over five knots
    for mask in 1u32..31 {
        let ys: Vec<f64> = (0..5).map(|i| if mask & (1 << i) != 0 { f64::NAN } else { 0.5 * i as f64 - 1.0 }).collect();
        out.push(State { xs: vec![0.0, 1.0, 2.5, 4.0, 4.5], ys });
    }
    if tier == Tier::Thorough {
        out.push(State { xs: vec![-3.0, -2.5, 0.125, 7.0, 7.5], ys: vec![0.5, -0.5, 0.0, 0.0, 3.0] });
    }
    out
}

pub fn ctor_cases() -> Vec<Case> {
    let mut out = Vec::new();
    let vals = [-1.0, 0.0, 1.0, 2.5, f64::NAN, f64::INFINITY];
    for len in 1..=4usize {
        for code in 0..vals.len().pow(len as u32) {
            let mut c = code;
            let v: Vec<f64> = (0..len).map(|_| { let x = vals[c % vals.len()]; c /= vals.len(); x }).collect();
            out.push(Case { kind: "ctor".into(), state: None, ctor: Some(v.clone()), name: "try_from".into() });
            if len <= 3 {
                out.push(Case { kind: "ctor".into(), state: None, ctor: Some(v), name: "push".into() });
            }
        }
    }
    for n in [31usize, 32, 33, 255, 256, 257, 1000, 1024, 1025, 4097] {
        for off in [0.0, -57.3] {
            out.push(Case { kind: "ctor".into(), state: None, ctor: Some(vec![n as f64, off]), name: "long".into() });
        }
    }
    for x0 in [0.0, 1.0, -0.3] {
        for span in [0.1, 0.3, 0.7, 0.9, 1.7, 2.5, 3.1, 4.0] {
            for n in 2..=16 {
                out.push(Case { kind: "ctor".into(), state: None, ctor: Some(vec![x0, span, n as f64]), name: "resample".into() });
            }
        }
    }
    for a in [-2.0, 0.0, 1.0, 3.0] {
        for b in [-2.0, 0.0, 1.0, 3.0] {
            for n in [2.0, 3.0, 7.0] {
                for name in ["linear", "linear_space"] {
                    out.push(Case { kind: "ctor".into(), state: None, ctor: Some(vec![a, b, n]), name: name.into() });
                }
            }
        }
    }
    out
}

pub fn run(tier: Tier) -> i32 {
    let mut cx = Ctx::new("C17", tier, "model_checking");
    cx.rule = "explicit-state search: initial states = every series over ascending (non-strict) abscissae from {0,1,1,2.5,4} (1..4 knots) x ordinates {-1,0,0,2}, plus NaN-carrying series; actions = between / in_interval over all pairs of cuts (knots, three interior points of every segment, knots +-1 ulp), split_at_x, scaled_by (negative and positive factors), shift_by, resampled_n, resampled_x, remove_nan, abs, y_crossings at every stored and mid level, bounds_at_y0, area; successor states de-duplicated by (xs, ys) rounded to 1e-9. Constructor sweep: domains and series of 31 .. 4097 knots (lookups at, one ulp around and between every knot, interpolation, slicing); every vector of length <= 4 over {-1,0,1,2.5,NaN,inf}, every push history of length <= 3, linear/linear_space over all bound pairs (both orders, equal) x n. distinct = distinct canonical states + constructor inputs".into();
    let depth = tier.pick(3, 4);
    let max_states = 3_000_000;
    cx.bounds = json!({"depth": depth, "max_states": max_states});
    cx.require(&["non-initial state", "repeated abscissae", "single-knot series", "series with NaN ordinates", "slices judged", "splits judged", "negative x scale", "positive x scale", "level along a flat segment", "level crossing isolated points", "resampling over awkward spans", "accepted vector", "rejected vector", "push history", "descending bounds", "equal bounds", "ascending bounds", "long domain"]);
    cx.assume("function preservation is judged on strictly ascending, NaN-free series; series with repeated abscissae are judged for validity only; along a flat segment lying on the level only 'returns, and every reported abscissa is a crossing' is judged");
    let (l, states, _e, reached, capped) = bfs_par(roots(tier), |s| s.key(), expand, depth, max_states);
    let transitions = l.transitions;
    cx.absorb(l);
    let cs = ctor_cases();
    let l2 = sweep(&cs, judge_ctor);
    cx.absorb(l2);
    cx.acc.states = states;
    cx.acc.transitions = transitions;
    cx.extra.insert("depth_reached".into(), json!(reached));
    if capped {
        cx.acc.cap(format!("state cap {} reached", max_states));
    }
    cx.finish()
}

pub fn replay(case: &Val) -> Local {
    let c: Case = serde_json::from_value(case.clone()).expect("case");
    let mut l = Local::new();
    if c.kind == "ctor" {
        judge_ctor(&c, &mut l);
    } else if let Some(st) = &c.state {
        let mut out = Vec::new();
        expand(st, 0, &mut l, &mut out);
    }
    l
}
