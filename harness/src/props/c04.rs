//! C04 — curve portions, splits, trims and reversal conserve length and endpoints.
//! Explicit-state search: states are curves, transitions call the real portioning methods.
use crate::engine::*;
use crate::gen;
use crate::refmodel::{cum_lengths2, d2, point_at2, poly_dist2};
use engeom::{Curve2, Point2};
use serde::{Deserialize, Serialize};
use serde_json::json;

#[derive(Clone, Serialize, Deserialize, Debug)]
pub struct State {
    pub pts: Vec<[f64; 2]>,
    pub tol: f64,
}

impl State {
    fn curve(&self) -> Option<Curve2> {
        let p: Vec<Point2> = self.pts.iter().map(|c| Point2::new(c[0], c[1])).collect();
        Curve2::from_points(&p, self.tol, false).ok()
    }
    fn of(c: &Curve2) -> State {
        State { pts: c.points().iter().map(|p| [p.x, p.y]).collect(), tol: c.tol() }
    }
    fn key(&self) -> (Vec<(i64, i64)>, u64) {
        (
            self.pts.iter().map(|p| ((p[0] * 1e9).round() as i64, (p[1] * 1e9).round() as i64)).collect(),
            self.tol.to_bits(),
        )
    }
}

/// A replayable transition: the state and the action applied to it
#[derive(Clone, Serialize, Deserialize, Debug)]
pub struct Case {
    pub state: State,
    pub action: String,
    pub args: Vec<f64>,
}

struct Ref {
    v: Vec<Point2>,
    cum: Vec<f64>,
    big_l: f64,
    closed: bool,
    tol: f64,
}

impl Ref {
    fn of(c: &Curve2) -> Ref {
        let v = c.points().to_vec();
        let cum = cum_lengths2(&v);
        Ref { big_l: *cum.last().unwrap(), cum, v, closed: c.is_closed(), tol: c.tol() }
    }
    fn p(&self, l: f64) -> Point2 {
        point_at2(&self.v, &self.cum, l)
    }
    fn in_range(&self, l: f64) -> bool {
        l >= 0.0 && l <= self.big_l
    }
    /// Travelled length of the request, `None` when it is reversed on an open curve or out of range
    fn travelled(&self, l0: f64, l1: f64) -> Option<f64> {
        if !self.in_range(l0) || !self.in_range(l1) {
            None
        } else if l1 >= l0 {
            Some(l1 - l0)
        } else if self.closed {
            Some(self.big_l - (l0 - l1))
        } else {
            None
        }
    }
    /// The expected piece as a vertex list: P(l0), the source vertices passed on the way, P(l1)
    fn expected(&self, l0: f64, l1: f64) -> Vec<Point2> {
        let n = self.v.len();
        let mut out = vec![self.p(l0)];
        if l1 >= l0 {
            for i in 0..n {
                if self.cum[i] > l0 && self.cum[i] < l1 {
                    out.push(self.v[i]);
                }
            }
        } else {
            for i in 0..n {
                if self.cum[i] > l0 {
                    out.push(self.v[i]);
                }
            }
            for i in 1..n {
                if self.cum[i] < l1 {
                    out.push(self.v[i]);
                }
            }
        }
        out.push(self.p(l1));
        out.dedup_by(|a, b| d2(a, b) <= 1e-12);
        out
    }
}

/// Compares a piece with the expected vertex list as arc-length point functions
fn same_function(piece: &[Point2], expected: &[Point2], tol_pos: f64) -> (bool, f64) {
    if expected.len() < 2 {
        // a zero-length expectation: the piece must be within tolerance of the point
        let w = piece.iter().map(|p| d2(p, &expected[0])).fold(0.0, f64::max);
        return (w <= tol_pos, w);
    }
    let cp = cum_lengths2(piece);
    let ce = cum_lengths2(expected);
    let (lp, le) = (*cp.last().unwrap(), *ce.last().unwrap());
    let mut worst = (lp - le).abs();
    for k in 0..=16 {
        let f = k as f64 / 16.0;
        worst = worst.max(d2(&point_at2(piece, &cp, f * lp), &point_at2(expected, &ce, f * le)));
    }
    (worst <= tol_pos, worst)
}

fn crit(c: &Curve2, full: bool) -> Vec<f64> {
    let lens = c.lengths();
    let tol = c.tol();
    let mut x = Vec::new();
    for i in 0..lens.len() {
        x.push(lens[i]);
        if full {
            x.push(lens[i] + tol / 2.0);
            x.push(lens[i] - tol / 2.0);
            x.push(lens[i] + 2.0 * tol);
            x.push(lens[i] - 2.0 * tol);
            x.push(lens[i] + 100.0 * tol);
            x.push(lens[i] - 100.0 * tol);
        }
        if i + 1 < lens.len() {
            x.push(0.5 * (lens[i] + lens[i + 1]));
            if full {
                x.push(0.25 * lens[i] + 0.75 * lens[i + 1]);
            }
        }
    }
    x.push(c.length() + 1.0);
    x.sort_by(|a, b| a.partial_cmp(b).unwrap());
    x.dedup();
    x
}

/// Judges `between_lengths(l0, l1)` on curve `c`; returns the piece when one was produced
fn do_between(c: &Curve2, r: &Ref, l0: f64, l1: f64, st: &State, l: &mut Local) -> Option<Curve2> {
    let mk = || serde_json::to_value(Case { state: st.clone(), action: "between_lengths".into(), args: vec![l0, l1] }).unwrap();
    l.eval();
    l.transitions += 1;
    let got = match guarded(|| c.between_lengths(l0, l1)) {
        Ok(g) => g,
        Err(msg) => {
            l.check("between_lengths returns", "panic", false, mk, || msg.clone());
            return None;
        }
    };
    let tol = r.tol;
    match r.travelled(l0, l1) {
        None => {
            l.bucket(if r.in_range(l0) && r.in_range(l1) { "reversed on open" } else { "out of range" });
            l.check("ill-posed request yields nothing", "reversed-or-out-of-range", got.is_none(), mk, || {
                format!("between_lengths({:e},{:e}) on L={:e} closed={} returned a piece", l0, l1, r.big_l, r.closed)
            });
            None
        }
        Some(t) => {
            let diff = (l1 - l0).abs();
            let margin = 1e-6 * tol + 1e-12;
            if t < tol - margin && diff < tol - margin {
                l.bucket("shorter than tolerance");
                l.check("ill-posed request yields nothing", "shorter-than-tolerance", got.is_none(), mk, || {
                    format!("between_lengths({:e},{:e}) travelled {:e} < tol {:e} returned a piece", l0, l1, t, tol)
                });
                None
            } else if t < tol + margin || diff < tol + margin {
                // at the tolerance boundary, or a wrap request whose raw difference is below the
                // tolerance: the statement does not say which way it goes
                l.gray("request within the tolerance band");
                got
            } else {
                l.bucket(if l1 < l0 { "through the seam" } else { "forward" });
                if l0 == l1 || r.cum.contains(&l0) || r.cum.contains(&l1) {
                    l.bucket("end exactly on a vertex");
                }
                // the constructor merges consecutive vertices within the tolerance: a piece longer than the
                // tolerance that doubles back on itself within it (a sharp turn at the seam) still collapses
                // to a single vertex, and the statement promises nothing for it
                let survivors = |t: f64| {
                    let e = r.expected(l0, l1);
                    let mut last = e[0];
                    let mut n = 1;
                    for p in e.iter().skip(1) {
                        if d2(p, &last) > t {
                            n += 1;
                            last = *p;
                        }
                    }
                    n
                };
                if got.is_none() && survivors(tol + margin) < 2 {
                    l.gray("piece collapses under the constructor's de-duplication");
                    return None;
                }
                match got {
                    None => {
                        l.check("well-posed request yields a piece", "", false, mk, || {
                            format!("between_lengths({:e},{:e}) on L={:e} closed={} tol={:e} -> None", l0, l1, r.big_l, r.closed, tol)
                        });
                        None
                    }
                    Some(piece) => {
                        let pv = piece.points().to_vec();
                        let e = r.expected(l0, l1);
                        let (ok, worst) = same_function(&pv, &e, 4.0 * tol + 1e-9);
                        l.outcome(hash_of(&(pv.len().min(8), l1 < l0, piece.is_closed())));
                        l.check("piece equals the source between the two lengths", "", ok, mk, || {
                            format!("between_lengths({:e},{:e}): deviates {:e} from the reference piece {:?}; got {:?}", l0, l1, worst, e, pv)
                        });
                        let ends = d2(&pv[0], &r.p(l0)) <= tol + 1e-9 && d2(pv.last().unwrap(), &r.p(l1)) <= tol + 1e-9;
                        l.check("piece starts at P(l0) and ends at P(l1)", "", ends, mk, || {
                            format!("start {:?} vs {:?}, end {:?} vs {:?}", pv[0], r.p(l0), pv.last().unwrap(), r.p(l1))
                        });
                        l.check("piece length equals the travelled length", "", (piece.length() - t).abs() <= 4.0 * tol + 1e-9, mk, || {
                            format!("length {:e} travelled {:e}", piece.length(), t)
                        });
                        let on = pv.iter().all(|p| poly_dist2(&r.v, p) <= 1e-9 * (1.0 + r.big_l));
                        l.check("every piece vertex on the source", "", on, mk, || format!("{:?}", pv));
                        Some(piece)
                    }
                }
            }
        }
    }
}

fn expand(st: &State, depth: usize, l: &mut Local, out: &mut Vec<State>) {
    let c = match st.curve() {
        Some(c) => c,
        None => return,
    };
    let r = Ref::of(&c);
    let big_l = c.length();
    let tol = c.tol();
    // pieces whose geometry is at the scale of the tolerance are judged as transition results but
    // not expanded: every request on them is inside the tolerance band
    let min_edge = (0..c.count() - 1).map(|i| c.lengths()[i + 1] - c.lengths()[i]).fold(f64::MAX, f64::min);
    if min_edge < 4.0 * tol {
        l.bucket("tolerance-scale piece not expanded");
        return;
    }
    l.states += 1;
    l.distinct(hash_of(&st.key()));
    l.sample(|| json!({"state": st, "length": big_l, "closed": c.is_closed(), "depth": depth}));
    l.bucket(if c.is_closed() { "closed state" } else { "open state" });
    if depth > 0 {
        l.bucket("non-initial state");
    }

    // invariant on every state: the cheap station subset (ends, vertices)
    {
        let mk = || serde_json::to_value(Case { state: st.clone(), action: "invariant".into(), args: vec![] }).unwrap();
        let lens = c.lengths();
        let mut ok = lens[0] == 0.0 && (big_l - r.big_l).abs() <= 1e-12 * (1.0 + r.big_l);
        for i in 0..c.count() {
            if let Some(s) = c.at_length(lens[i]) {
                ok &= d2(&s.point(), &c.points()[i]) <= 1e-12 * (1.0 + big_l);
            } else {
                ok = false;
            }
        }
        l.check("state invariant: stations at stored lengths are the vertices", "", ok, mk, || format!("{:?}", st));
    }

    let xs = crit(&c, depth == 0);
    let small: Vec<f64> = {
        let lens = c.lengths();
        let mut v: Vec<f64> = lens.clone();
        for i in 0..lens.len() - 1 {
            v.push(0.5 * (lens[i] + lens[i + 1]));
        }
        v.sort_by(|a, b| a.partial_cmp(b).unwrap());
        v.dedup();
        v
    };

    // 1. between_lengths over all pairs; differential portion-of-portion on produced pieces
    for &l0 in &xs {
        for &l1 in &xs {
            if let Some(piece) = do_between(&c, &r, l0, l1, st, l) {
                // differential: a portion of the portion equals the portion of the source
                let lp = piece.length();
                let t = r.travelled(l0, l1).unwrap_or(0.0);
                if lp > 8.0 * tol && (lp - t).abs() <= 2.0 * tol {
                    let (a, b) = (0.25 * lp, 0.75 * lp);
                    let wrap = |x: f64| if x > r.big_l { x - r.big_l } else { x };
                    l.eval();
                    l.traces += 1;
                    let sub = guarded(|| piece.between_lengths(a, b)).ok().flatten();
                    let direct = guarded(|| c.between_lengths(wrap(l0 + a), wrap(l0 + b))).ok().flatten();
                    let mk = || serde_json::to_value(Case { state: st.clone(), action: "portion_of_portion".into(), args: vec![l0, l1] }).unwrap();
                    match (sub, direct) {
                        (Some(s1), Some(s2)) => {
                            let (ok, worst) = same_function(s1.points(), s2.points(), 8.0 * tol + 1e-9);
                            l.check("portion of a portion equals the direct portion", "", ok, mk, || {
                                format!("between({:e},{:e}) then (L/4,3L/4) deviates {:e} from the direct portion", l0, l1, worst)
                            });
                        }
                        (a1, a2) => {
                            l.check("portion of a portion equals the direct portion", "one-missing", a1.is_none() == a2.is_none(), mk, || {
                                format!("between({:e},{:e}): via piece {} direct {}", l0, l1, a1.is_some(), a2.is_some())
                            });
                        }
                    }
                }
                out.push(State::of(&piece));
            }
        }
    }

    // 2. control variant
    for &a in &small {
        for &b in &small {
            if a == b {
                continue;
            }
            let (lo, hi) = (a.min(b), a.max(b));
            for ctl in [0.5 * (lo + hi), 0.5 * (hi + big_l), 0.5 * lo, a, big_l + 0.5, 0.0, big_l] {
                let mk = || serde_json::to_value(Case { state: st.clone(), action: "between_lengths_by_control".into(), args: vec![a, b, ctl] }).unwrap();
                l.eval();
                l.transitions += 1;
                let got = match guarded(|| c.between_lengths_by_control(a, b, ctl)) {
                    Ok(g) => g,
                    Err(msg) => {
                        l.check("by_control returns", "panic", false, mk, || msg.clone());
                        continue;
                    }
                };
                if ctl > big_l {
                    l.bucket("control beyond the curve");
                    l.check("by_control: control beyond the curve yields nothing", "", got.is_none(), mk, || format!("a {} b {} ctl {}", a, b, ctl));
                    continue;
                }
                if ctl == lo || ctl == hi || (hi - lo) < 4.0 * tol || (r.big_l - (hi - lo)) < 4.0 * tol {
                    l.gray("control on an end / degenerate span");
                    continue;
                }
                let inside = ctl > lo && ctl < hi;
                let (e0, e1) = if inside { (lo, hi) } else { (hi, lo) };
                if !inside && !r.closed {
                    l.bucket("control outside on open curve");
                    l.check("by_control: no piece of an open curve contains an outside control", "", got.is_none(), mk, || format!("a {} b {} ctl {}", a, b, ctl));
                    continue;
                }
                l.bucket(if inside { "control inside" } else { "control through the seam" });
                match got {
                    None => {
                        l.check("by_control yields the piece containing the control", "none", false, mk, || format!("a {} b {} ctl {} L {} -> None", a, b, ctl, big_l));
                    }
                    Some(piece) => {
                        let e = r.expected(e0, e1);
                        let (ok, worst) = same_function(piece.points(), &e, 4.0 * tol + 1e-9);
                        let contains = poly_dist2(piece.points(), &r.p(ctl)) <= tol + 1e-9;
                        l.check("by_control yields the piece containing the control", "", ok && contains, mk, || {
                            format!("a {} b {} ctl {}: deviates {:e}, contains control: {}", a, b, ctl, worst, contains)
                        });
                    }
                }
            }
        }
    }

    // 3. splits
    for &x in &xs {
        let mk = || serde_json::to_value(Case { state: st.clone(), action: "split_open_at_length".into(), args: vec![x] }).unwrap();
        l.eval();
        l.transitions += 1;
        let got = match guarded(|| c.split_open_at_length(x).ok()) {
            Ok(g) => g,
            Err(msg) => {
                l.check("split_open returns", "panic", false, mk, || msg.clone());
                continue;
            }
        };
        if r.closed {
            l.check("split_open rejects a closed curve", "", got.is_none(), mk, String::new);
            continue;
        }
        let margin = 1e-6 * tol + 1e-12;
        let well = r.in_range(x) && x >= tol + margin && big_l - x >= tol + margin;
        let ill = !r.in_range(x) || x < tol - margin || big_l - x < tol - margin;
        if well {
            l.bucket("split open");
            match got {
                None => {
                    l.check("split_open yields two pieces", "", false, mk, || format!("x {} L {}", x, big_l));
                }
                Some((a, b)) => {
                    let ok = (a.length() + b.length() - big_l).abs() <= 4.0 * tol + 1e-9
                        && d2(&a.at_back().point(), &r.p(x)) <= tol + 1e-9
                        && d2(&b.at_front().point(), &r.p(x)) <= tol + 1e-9
                        && d2(&a.at_front().point(), &r.p(0.0)) <= tol + 1e-9
                        && d2(&b.at_back().point(), &r.p(big_l)) <= tol + 1e-9
                        && (a.length() - x).abs() <= 2.0 * tol + 1e-9;
                    l.check("split pieces sum to the whole and meet at the split point", "", ok, mk, || {
                        format!("x {}: lengths {} + {} vs {}; a.back {:?} b.front {:?} P(x) {:?}", x, a.length(), b.length(), big_l, a.at_back().point(), b.at_front().point(), r.p(x))
                    });
                }
            }
        } else if ill {
            l.check("ill-posed split is rejected", "", got.is_none(), mk, || format!("x {} L {} tol {}", x, big_l, tol));
        } else {
            l.gray("split within the tolerance band");
        }
    }
    if r.closed {
        for &x in &small {
            for &y in &small {
                let mk = || serde_json::to_value(Case { state: st.clone(), action: "split_closed_at_lengths".into(), args: vec![x, y] }).unwrap();
                l.eval();
                l.transitions += 1;
                let got = match guarded(|| c.split_closed_at_lengths(x, y).ok()) {
                    Ok(g) => g,
                    Err(msg) => {
                        l.check("split_closed returns", "panic", false, mk, || msg.clone());
                        continue;
                    }
                };
                let d = (x - y).abs();
                if d < 4.0 * tol || (big_l - d) < 4.0 * tol {
                    l.gray("closed split with a degenerate piece");
                    continue;
                }
                l.bucket("split closed");
                match got {
                    None => {
                        l.check("split_closed yields two pieces", "", false, mk, || format!("x {} y {} L {}", x, y, big_l));
                    }
                    Some((a, b)) => {
                        let ok = (a.length() + b.length() - big_l).abs() <= 4.0 * tol + 1e-9
                            && d2(&a.at_front().point(), &r.p(x)) <= tol + 1e-9
                            && d2(&a.at_back().point(), &r.p(y)) <= tol + 1e-9
                            && d2(&b.at_front().point(), &r.p(y)) <= tol + 1e-9
                            && d2(&b.at_back().point(), &r.p(x)) <= tol + 1e-9;
                        l.check("split pieces sum to the whole and meet at the split point", "closed", ok, mk, || {
                            format!("x {} y {}: lengths {} + {} vs {}", x, y, a.length(), b.length(), big_l)
                        });
                    }
                }
            }
        }
    }

    // 4. trims
    for &x in &xs {
        for front in [true, false] {
            let name = if front { "trim_front" } else { "trim_back" };
            let mk = || serde_json::to_value(Case { state: st.clone(), action: name.into(), args: vec![x] }).unwrap();
            l.eval();
            l.transitions += 1;
            let got = match guarded(|| if front { c.trim_front(x) } else { c.trim_back(x) }) {
                Ok(g) => g,
                Err(msg) => {
                    l.check("trim returns", "panic", false, mk, || msg.clone());
                    continue;
                }
            };
            let margin = 1e-6 * tol + 1e-12;
            if !(0.0..=big_l).contains(&x) || big_l - x < tol - margin {
                l.check("ill-posed trim yields nothing", "", got.is_none(), mk, || format!("{}({}) on L {}", name, x, big_l));
                continue;
            }
            if big_l - x < tol + margin {
                l.gray("trim leaving about one tolerance");
                continue;
            }
            l.bucket("trim");
            match got {
                None => {
                    l.check("trim yields the remainder", "none", false, mk, || format!("{}({}) on L {} -> None", name, x, big_l));
                }
                Some(piece) => {
                    let (e0, e1) = if front { (x, big_l) } else { (0.0, big_l - x) };
                    let e = r.expected(e0, e1);
                    let (ok, worst) = same_function(piece.points(), &e, 4.0 * tol + 1e-9);
                    l.check("trim removes exactly the requested length from the requested end", "", ok && (piece.length() - (big_l - x)).abs() <= 4.0 * tol + 1e-9, mk, || {
                        format!("{}({}) on L {}: length {} deviates {:e}", name, x, big_l, piece.length(), worst)
                    });
                    out.push(State::of(&piece));
                }
            }
        }
    }

    // 5. reversal
    {
        let mk = || serde_json::to_value(Case { state: st.clone(), action: "reversed".into(), args: vec![] }).unwrap();
        l.eval();
        l.transitions += 1;
        match guarded(|| c.reversed()) {
            Err(msg) => {
                l.check("reversed returns", "panic", false, mk, || msg.clone());
            }
            Ok(rv) => {
                let rr = Ref::of(&rv);
                let mut worst = (rv.length() - big_l).abs();
                for &x in &xs {
                    if r.in_range(x) {
                        if let Some(s) = rv.at_length((big_l - x).clamp(0.0, rv.length())) {
                            worst = worst.max(d2(&s.point(), &r.p(x)));
                        } else {
                            worst = f64::MAX;
                        }
                    }
                }
                let _ = rr;
                l.bucket("reversal");
                l.check("reversal keeps length and maps P(l) to P(L-l)", "", worst <= 1e-9 * (1.0 + big_l) && rv.is_closed() == c.is_closed(), mk, || {
                    format!("worst deviation {:e}, closed {} -> {}", worst, c.is_closed(), rv.is_closed())
                });
                out.push(State::of(&rv));
            }
        }
    }
}

pub fn roots(tier: Tier) -> Vec<State> {
    let lat = gen::lattice2(3);
    let mut out = Vec::new();
    for s in gen::seqs(lat.len(), 2, tier.pick(3, 4)) {
        for fc in [false, true] {
            for tol in [1e-6, 0.05] {
                let p: Vec<Point2> = s.iter().map(|i| gen::p2(lat[*i], 1.0)).collect();
                if let Ok(c) = Curve2::from_points(&p, tol, fc) {
                    out.push(State::of(&c));
                }
            }
        }
    }
    out
}


/// Closed curves whose tolerance is exactly zero (closedness and merging decided by exact equality), built by the
/// constructor's closing option or with the first point repeated: they are closed, and the seam behaves like any
/// other place (requests are kept away from vertices, so nothing here depends on a tolerance band).
fn judge_zero_tol(item: &(Vec<usize>, bool), l: &mut Local) {
    let lat = gen::lattice2(3);
    let (seq, repeat_first) = item;
    let mut pts: Vec<Point2> = seq.iter().map(|i| gen::p2(lat[*i], 1.0)).collect();
    if pts.len() < 3 || pts[0] == pts[pts.len() - 1] {
        return;
    }
    if *repeat_first {
        pts.push(pts[0]);
    }
    let c = match Curve2::from_points(&pts, 0.0, !*repeat_first) {
        Ok(c) => c,
        Err(_) => return,
    };
    let args: Vec<f64> = std::iter::once(if *repeat_first { 1.0 } else { 0.0 }).chain(seq.iter().map(|i| *i as f64)).collect();
    let mk = || { let args = args.clone(); json!({"state": {"pts": [[0.0, 0.0]], "tol": 0.0}, "action": "zero_tol", "args": args}) };
    l.eval();
    l.bucket("closed curve with a tolerance of exactly zero");
    let big_l = c.length();
    let per: f64 = (0..pts.len()).map(|i| d2(&pts[i], &pts[(i + 1) % pts.len()])).sum::<f64>() - if *repeat_first { 0.0 } else { 0.0 };
    let expect_l = if *repeat_first { per - 0.0 } else { per };
    let closed_ok = c.is_closed() && (big_l - expect_l).abs() <= 1e-12 * (1.0 + expect_l) && c.reversed().is_closed();
    l.check("a curve closed with a tolerance of exactly zero is closed, and so is its reverse", "", closed_ok, mk, || format!("{:?} repeated first point {}: closed {} length {} (expected {})", seq, repeat_first, c.is_closed(), big_l, expect_l));
    if !c.is_closed() {
        return;
    }
    // through the seam, split and control, at positions well inside edges
    let (a, b) = (0.83 * big_l, 0.21 * big_l);
    let through = guarded(|| c.between_lengths(a, b)).ok().flatten();
    let want = big_l - a + b;
    l.check("between_lengths returns", "zero tolerance", through.as_ref().map(|p| (p.length() - want).abs() <= 1e-9 * (1.0 + big_l)).unwrap_or(false), mk, || format!("{:?}: through the seam from {} to {}: {:?} (expected length {})", seq, a, b, through.as_ref().map(|p| p.length()), want));
    let split = guarded(|| c.split_closed_at_lengths(b, a).map_err(|e| e.to_string()));
    l.check("split_closed yields two pieces", "zero tolerance", matches!(&split, Ok(Ok((x, y))) if (x.length() + y.length() - big_l).abs() <= 1e-9 * (1.0 + big_l)), mk, || format!("{:?}: {:?}", seq, split.map(|r| r.map(|(x, y)| (x.length(), y.length())))));
    let ctl = guarded(|| c.between_lengths_by_control(b, a, 0.95 * big_l)).ok().flatten();
    l.check("by_control yields the piece containing the control", "zero tolerance", ctl.as_ref().map(|p| (p.length() - want).abs() <= 1e-9 * (1.0 + big_l)).unwrap_or(false), mk, || format!("{:?}: control outside [{}, {}]: {:?}", seq, b, a, ctl.as_ref().map(|p| p.length())));
}

/// The same curve and the same requests in another length unit (microns, tens of kilometres): portions, splits
/// and trims must be the unit-1 results multiplied by the unit. Requests are taken away from vertices and from
/// the tolerance boundaries (where a comparison may legitimately fall the other way after rounding).
fn judge_units(item: &(Vec<usize>, bool), l: &mut Local) {
    let lat = gen::lattice2(3);
    let (seq, fc) = item;
    let base: Vec<Point2> = seq.iter().map(|i| gen::p2(lat[*i], 1.0)).collect();
    let c1 = match Curve2::from_points(&base, 1e-6, *fc) {
        Ok(c) => c,
        Err(_) => return,
    };
    let big_l = c1.length();
    let args: Vec<f64> = std::iter::once(if *fc { 1.0 } else { 0.0 }).chain(seq.iter().map(|i| *i as f64)).collect();
    let mk = |what: String| { let args = args.clone(); move || json!({"state": {"pts": [[0.0, 0.0]], "tol": 1e-6}, "action": "units", "args": args, "note": what}) };
    for u in [1e-6, 1e4] {
        let pu: Vec<Point2> = base.iter().map(|p| Point2::from(p.coords * u)).collect();
        let cu = match Curve2::from_points(&pu, 1e-6 * u, *fc) {
            Ok(c) => c,
            Err(_) => {
                l.check("the same curve in another length unit can be built", "", false, mk(format!("{:?} closed {} unit {:e}", seq, fc, u)), String::new);
                continue;
            }
        };
        let same = |a: Option<Curve2>, b: Option<Curve2>| -> Result<(), String> {
            match (a, b) {
                (None, None) => Ok(()),
                (Some(x), Some(y)) => {
                    if x.count() != y.count() {
                        return Err(format!("{} vertices against {}", y.count(), x.count()));
                    }
                    let worst = x.points().iter().zip(y.points().iter()).map(|(p, q)| d2(&Point2::from(p.coords * u), q)).fold(0.0, f64::max);
                    if worst <= 1e-9 * u * (1.0 + big_l) { Ok(()) } else { Err(format!("vertices differ by {:e} of the unit", worst / u)) }
                }
                (a, b) => Err(format!("unit 1 gives {:?}, unit {:e} gives {:?}", a.map(|c| c.length()), u, b.map(|c| c.length() / u))),
            }
        };
        let grid: Vec<f64> = (0..8).map(|k| (k as f64 + 0.37) / 8.0 * big_l).collect();
        for a in grid.iter() {
            for b in grid.iter() {
                if (a - b).abs() < 1e-3 * big_l {
                    continue;
                }
                l.eval();
                l.bucket("portion in another length unit");
                let r = same(guarded(|| c1.between_lengths(*a, *b)).ok().flatten(), guarded(|| cu.between_lengths(*a * u, *b * u)).ok().flatten());
                l.check("a portion taken in another length unit is the same portion", "", r.is_ok(), mk(format!("{:?} closed {} unit {:e} lengths {} {}", seq, fc, u, a, b)), || r.clone().err().unwrap_or_default());
            }
            l.eval();
            let rf = same(guarded(|| c1.trim_front(*a)).ok().flatten(), guarded(|| cu.trim_front(*a * u)).ok().flatten());
            let rb = same(guarded(|| c1.trim_back(*a)).ok().flatten(), guarded(|| cu.trim_back(*a * u)).ok().flatten());
            l.check("a trim taken in another length unit is the same trim", "", rf.is_ok() && rb.is_ok(), mk(format!("{:?} closed {} unit {:e} length {}", seq, fc, u, a)), || format!("{:?} {:?}", rf, rb));
        }
    }
}

/// The airfoil helper that cuts a closed section at the two ends of a station's spanning ray and returns
/// the piece shorter than the requested fraction of the perimeter (first candidate: from the ray's origin
/// forward to its end; second: the complement). Swept over rectangles x every pair of cut positions on a
/// grid of arc lengths x fractions; the reference is plain arithmetic on the two arc lengths.
fn judge_edge_sub_curve(case: &(usize, usize, usize, usize), l: &mut Local) {
    use engeom::airfoil::helpers::extract_edge_sub_curve;
    use engeom::airfoil::InscribedCircle;
    use engeom::geom2::polyline2::SpanningRay;
    let (shape, i, j, fi) = *case;
    let (w, h) = [(10.0, 2.0), (3.0, 3.0), (1.0, 6.0)][shape];
    let pts = vec![Point2::new(0.0, 0.0), Point2::new(w, 0.0), Point2::new(w, h), Point2::new(0.0, h)];
    let sec = Curve2::from_points(&pts, 1e-6, true).unwrap();
    let per = sec.length();
    let n = 24;
    let (la, lb) = (per * (i as f64 + 0.37) / n as f64, per * (j as f64 + 0.37) / n as f64);
    let mk = || json!({"state": {"pts": [[0.0, 0.0], [w, 0.0], [w, h], [0.0, h]], "tol": 1e-6}, "action": "edge_sub_curve", "args": [la, lb, fi as f64]});
    let (a, b) = (sec.at_length(la).unwrap().point(), sec.at_length(lb).unwrap().point());
    if d2(&a, &b) < 1e-9 {
        return;
    }
    let frac = [None, Some(0.1), Some(0.4), Some(0.6)][fi];
    let f = frac.unwrap_or(0.25);
    let centre = Point2::new(0.5 * (a.x + b.x), 0.5 * (a.y + b.y));
    let st = InscribedCircle::new(SpanningRay::new(a, b), b, a, engeom::Circle2::from_point(centre, 0.5 * d2(&a, &b)));
    l.eval();
    let got = match guarded(|| extract_edge_sub_curve(&sec, &st, frac)) {
        Ok(g) => g,
        Err(e) => {
            l.check("edge sub-curve returns", "panic", false, mk, || e.clone());
            return;
        }
    };
    // a and b may be closest to more than one place on the outline only at corners, which the 0.37 offset avoids
    let len0 = (lb - la).rem_euclid(per);
    let len1 = per - len0;
    if (len0 - f * per).abs() < 1e-9 || (len1 - f * per).abs() < 1e-9 {
        l.gray("piece exactly at the requested fraction");
        return;
    }
    let want = if len0 < f * per { Some((len0, a, b)) } else if len1 < f * per { Some((len1, b, a)) } else { None };
    l.bucket(match (want.is_some(), len0 < f * per) { (false, _) => "no piece short enough", (true, true) => "first candidate piece", (true, false) => "second candidate piece" });
    l.outcome(hash_of(&(want.is_some(), len0 < f * per, fi)));
    let ok = match (&got, &want) {
        (None, None) => true,
        (Some(c), Some((len, p, q))) => (c.length() - len).abs() <= 1e-5 && d2(&c.at_front().point(), p) <= 1e-5 && d2(&c.at_back().point(), q) <= 1e-5,
        _ => false,
    };
    l.check("the edge sub-curve is the piece between the ray's ends that is shorter than the requested fraction of the perimeter", "", ok, mk, || {
        format!("cuts at {} and {} of perimeter {}, fraction {:?}: got {:?}, pieces {} and {}", la, lb, per, frac, got.as_ref().map(|c| (c.length(), c.at_front().point(), c.at_back().point())), len0, len1)
    });
}

/// The sibling helper that returns the piece of a section lying BEYOND a station: the section is cut at the
/// station's two contact points, and of the two pieces (closed section) the one whose length-weighted mean
/// projection on the given direction, measured from the station's centre, is larger is returned; on an open
/// section only one piece exists and it is returned only if it lies ahead. Swept over closed and open outlines
/// (convex, L-shaped, the flat quadrilateral with a reflex corner) x every pair of cut positions on a grid of arc
/// lengths x 8 directions; the reference computes both pieces and their mean projections from the vertex list.
const BEYOND_SHAPES: [(&[(f64, f64)], bool); 6] = [
    (&[(0.0, 0.0), (10.0, 0.0), (10.0, 2.0), (0.0, 2.0)], true),
    (&[(0.0, 0.0), (6.0, 0.0), (6.0, 2.0), (2.0, 2.0), (2.0, 5.0), (0.0, 5.0)], true),
    (&[(-0.5, 0.9), (-1.0, 0.0), (-1.0, 1.0), (10.0, 0.0)], true),
    (&[(0.0, 0.0), (4.0, 0.0), (4.0, 3.0), (3.0, 3.0), (3.0, 1.0), (1.0, 1.0), (1.0, 3.0), (0.0, 3.0)], true),
    (&[(0.0, 1.0), (2.0, 0.0), (5.0, 0.0), (8.0, 1.0), (9.0, 3.0)], false),
    (&[(9.0, 3.0), (8.0, 1.0), (5.0, 0.0), (2.0, 0.0), (0.0, 1.0)], false),
];

fn judge_beyond_station(case: &(usize, usize, usize, usize), l: &mut Local) {
    use engeom::airfoil::helpers::extract_curve_beyond_station;
    use engeom::airfoil::InscribedCircle;
    use engeom::geom2::polyline2::SpanningRay;
    let (shape, i, j, di) = *case;
    let (verts, closed) = BEYOND_SHAPES[shape];
    let pts: Vec<Point2> = verts.iter().map(|p| Point2::new(p.0, p.1)).collect();
    let sec = match Curve2::from_points(&pts, 1e-6, closed) {
        Ok(c) => c,
        Err(_) => return,
    };
    let v = sec.points().to_vec();
    let per = sec.length();
    let n = 16;
    let (la, lb) = (per * (i as f64 + 0.37) / n as f64, per * (j as f64 + 0.61) / n as f64);
    if (la - lb).abs() < 1e-3 * per {
        return;
    }
    let mk = || json!({"state": {"pts": verts.iter().map(|p| vec![p.0, p.1]).collect::<Vec<_>>(), "tol": 1e-6}, "action": "beyond_station", "args": [shape as f64, i as f64, j as f64, di as f64]});
    let (a, b) = (sec.at_length(la).unwrap().point(), sec.at_length(lb).unwrap().point());
    // a cut position must be the unique closest place of the outline to its own point (true except where the
    // outline touches itself, which these shapes do not)
    let ang = std::f64::consts::TAU * di as f64 / 8.0 + 0.1;
    let dir = engeom::UnitVec2::new_normalize(engeom::Vector2::new(ang.cos(), ang.sin()));
    let centre = Point2::new(0.5 * (a.x + b.x), 0.5 * (a.y + b.y));
    // contact_pos = a (at la), contact_neg = b (at lb)
    let st = InscribedCircle::new(SpanningRay::new(b, a), a, b, engeom::Circle2::from_point(centre, 0.5 * d2(&a, &b)));
    l.eval();
    let got = match guarded(|| extract_curve_beyond_station(&sec, &st, &dir)) {
        Ok(g) => g,
        Err(e) => {
            l.check("curve beyond a station returns", "panic", false, mk, || e.clone());
            return;
        }
    };
    // reference pieces from the vertex list: from arc length x to arc length y going forward (through the seam
    // on a closed outline)
    let cum: Vec<f64> = { let mut c = vec![0.0]; for w in v.windows(2) { let t = c[c.len() - 1] + d2(&w[0], &w[1]); c.push(t); } c };
    let at = |x: f64| -> Point2 { let k = (0..v.len() - 1).find(|k| x <= cum[*k + 1]).unwrap_or(v.len() - 2); let f = (x - cum[k]) / (cum[k + 1] - cum[k]); v[k] + (v[k + 1] - v[k]) * f };
    let piece = |x: f64, y: f64| -> Option<Vec<Point2>> {
        let mut out = vec![at(x)];
        if x < y {
            out.extend((0..v.len()).filter(|k| cum[*k] > x + 1e-9 && cum[*k] < y - 1e-9).map(|k| v[k]));
        } else if closed {
            out.extend((0..v.len()).filter(|k| cum[*k] > x + 1e-9).map(|k| v[k]));
            out.extend((1..v.len()).filter(|k| cum[*k] < y - 1e-9).map(|k| v[k]));
        } else {
            return None;
        }
        out.push(at(y));
        Some(out)
    };
    let weight = |p: &Vec<Point2>| -> f64 {
        let mut tot = 0.0;
        let mut len = 0.0;
        for w in p.windows(2) {
            let e = d2(&w[0], &w[1]);
            tot += 0.5 * ((w[0] - centre).dot(&dir) + (w[1] - centre).dot(&dir)) * e;
            len += e;
        }
        tot / len
    };
    let (p0, p1) = (piece(la, lb), piece(lb, la));
    let want: Option<Vec<Point2>> = match (&p0, &p1) {
        (Some(x), Some(y)) => {
            let (w0, w1) = (weight(x), weight(y));
            if (w0 - w1).abs() < 1e-6 {
                l.gray("two pieces equally far ahead of the station");
                return;
            }
            Some(if w0 > w1 { x.clone() } else { y.clone() })
        }
        (Some(x), None) | (None, Some(x)) => {
            let w = weight(x);
            if w.abs() < 1e-6 {
                l.gray("single piece neither ahead of nor behind the station");
                return;
            }
            if w > 0.0 { Some(x.clone()) } else { None }
        }
        (None, None) => None,
    };
    l.bucket(match (closed, want.is_some()) { (true, _) => "beyond a station on a closed outline", (false, true) => "beyond a station on an open outline, piece ahead", (false, false) => "beyond a station on an open outline, piece behind" });
    l.outcome(hash_of(&(closed, want.is_some(), want.as_ref().map(|w| w.len()))));
    let plen = |p: &Vec<Point2>| p.windows(2).map(|w| d2(&w[0], &w[1])).sum::<f64>();
    let ok = match (&got, &want) {
        (None, None) => true,
        (Some(c), Some(w)) => (c.length() - plen(w)).abs() <= 1e-5 && d2(&c.at_front().point(), &w[0]) <= 1e-5 && d2(&c.at_back().point(), &w[w.len() - 1]) <= 1e-5,
        _ => false,
    };
    l.check("the curve beyond a station is the piece between its contacts that lies farther along the given direction", "", ok, mk, || {
        format!("cuts at {} and {} of {}, direction {:?}: got {:?}, expected {:?}", la, lb, per, dir.into_inner(), got.as_ref().map(|c| (c.length(), c.at_front().point(), c.at_back().point())), want.as_ref().map(|w| (plen(w), w[0], w[w.len() - 1])))
    });
}

pub fn run(tier: Tier) -> i32 {
    let mut cx = Ctx::new("C04", tier, "model_checking");
    cx.rule = "explicit-state search: initial states = every vertex sequence over the 3x3 lattice up to the length bound x {open, force-closed} x tol {1e-6, 0.05}; actions = between_lengths over all pairs of critical lengths (0, L, vertex lengths, edge mid/quarter points, vertex +-tol/2, +-2tol, +-100tol, beyond L), the control variant, both splits, both trims, reversal; every produced piece is a successor state (canonical key: vertices rounded to 1e-9, tolerance); reference model = arc-length point function by linear scan; plus the airfoil helper that selects the shorter piece between two cut positions (3 rectangles x 24 x 24 cut positions x 4 fractions) and the one that selects the piece lying beyond a station (4 closed and 2 open outlines x 16 x 16 cut positions x 8 directions). distinct = distinct canonical states expanded".into();
    let depth = 3;
    let max_states = tier.pick(6_000_000, 30_000_000);
    cx.bounds = json!({"root_seq_len": tier.pick(3, 4), "depth": depth, "max_states": max_states, "tols": [1e-6, 0.05]});
    cx.require(&["closed state", "open state", "non-initial state", "forward", "through the seam", "end exactly on a vertex", "reversed on open", "out of range", "shorter than tolerance", "control inside", "control through the seam", "split open", "split closed", "trim", "reversal", "no piece short enough", "first candidate piece", "second candidate piece", "beyond a station on a closed outline", "beyond a station on an open outline, piece ahead", "beyond a station on an open outline, piece behind", "portion in another length unit", "closed curve with a tolerance of exactly zero"]);
    cx.assume("well-posed = in range, not reversed on an open curve, travelled length and |l1-l0| both >= tol; requests within 1e-6*tol of the tolerance boundary, and wrap requests whose raw difference is below tol, are gray");
    cx.assume("pieces are compared with the reference piece as arc-length point functions at 17 abscissae within 4*tol (the curve constructor merges vertices within tol at either end); pieces with an edge shorter than 4*tol are judged but not expanded");
    let (l, states, _emitted, reached, capped) = bfs_par(roots(tier), |s| s.key(), expand, depth, max_states);
    let transitions = l.transitions;
    cx.absorb(l);
    cx.acc.states = states;
    cx.acc.transitions = transitions;
    cx.extra.insert("depth_reached".into(), json!(reached));
    cx.extra.insert("states_discovered".into(), json!(states));
    if capped {
        cx.acc.cap(format!("state cap {} reached at depth {}: states beyond it were discovered but not expanded", max_states, reached));
    }
    // the portion-selecting helper of the airfoil code
    let mut sub = Vec::new();
    for shape in 0..3 {
        for i in 0..24 {
            for j in 0..24 {
                for fi in 0..4 {
                    sub.push((shape, i, j, fi));
                }
            }
        }
    }
    let ls = sweep(&sub, judge_edge_sub_curve);
    cx.absorb(ls);
    // the same portions in microns and in tens of kilometres
    let lat = gen::lattice2(3);
    let mut un: Vec<(Vec<usize>, bool)> = Vec::new();
    for sq in gen::seqs(lat.len(), 2, 3) {
        for fc in [false, true] {
            un.push((sq.clone(), fc));
        }
    }
    let lu = sweep(&un, judge_units);
    cx.absorb(lu);
    let mut zt: Vec<(Vec<usize>, bool)> = Vec::new();
    for sq in gen::seqs(lat.len(), 3, 4) {
        for rf in [false, true] {
            zt.push((sq.clone(), rf));
        }
    }
    let lz = sweep(&zt, judge_zero_tol);
    cx.absorb(lz);
    let mut bey = Vec::new();
    for shape in 0..BEYOND_SHAPES.len() {
        for i in 0..16 {
            for j in 0..16 {
                for di in 0..8 {
                    bey.push((shape, i, j, di));
                }
            }
        }
    }
    let lb = sweep(&bey, judge_beyond_station);
    cx.absorb(lb);
    cx.finish()
}

pub fn replay(case: &Val) -> Local {
    let c: Case = serde_json::from_value(case.clone()).expect("case");
    let mut l = Local::new();
    if c.action == "zero_tol" {
        judge_zero_tol(&(c.args[1..].iter().map(|x| *x as usize).collect(), c.args[0] != 0.0), &mut l);
        return l;
    }
    if c.action == "units" {
        judge_units(&(c.args[1..].iter().map(|x| *x as usize).collect(), c.args[0] != 0.0), &mut l);
        return l;
    }
    if c.action == "beyond_station" {
        judge_beyond_station(&(c.args[0] as usize, c.args[1] as usize, c.args[2] as usize, c.args[3] as usize), &mut l);
        return l;
    }
    if c.action == "edge_sub_curve" {
        // the sweep item is recovered from the recorded rectangle, cut positions and fraction index
        let (w, h) = (c.state.pts[1][0], c.state.pts[2][1]);
        let shape = [(10.0, 2.0), (3.0, 3.0), (1.0, 6.0)].iter().position(|x| *x == (w, h)).unwrap_or(0);
        let per = 2.0 * (w + h);
        let idx = |x: f64| ((x / per * 24.0) - 0.37).round() as usize;
        judge_edge_sub_curve(&(shape, idx(c.args[0]), idx(c.args[1]), c.args[2] as usize), &mut l);
        return l;
    }
    let mut out = Vec::new();
    // re-expanding the state re-executes the recorded action among all others
    expand(&c.state, 0, &mut l, &mut out);
    expand(&c.state, 1, &mut l, &mut out);
    l
}
