//! C16 — deviations equal signed distance and aggregates track their contents.
//! EX: deviations on lattice curves / meshes, directed distances, tolerance maps.
//! MC: push histories of the deviation set, append/merge/select histories of the point cloud.
use crate::engine::*;
use crate::gen;
use crate::props::c02;
use crate::refmodel::*;
use engeom::common::{DiscreteDomain, DistMode, Interval};
use engeom::metrology::line_profiles::{line_surface_deviations, point_curve2_deviation};
use engeom::metrology::{DiscreteDomainTolMap, Distance2, Distance3, Measurement, SurfaceDeviation2, SurfaceDeviationSet2, Tolerance, ToleranceMap};
use engeom::{Curve2, Mesh, Point2, Point3, PointCloud, PointCloudFeatures, SurfacePoint2, UnitVec2, UnitVec3, Vector2, Vector3};
use serde::{Deserialize, Serialize};
use serde_json::json;

#[derive(Serialize, Deserialize, Clone, Debug)]
pub struct Case {
    /// curve | mesh | distance | tolmap | devset | cloud
    pub kind: String,
    pub verts: Vec<Vec<i32>>,
    pub force_closed: bool,
    pub which: usize,
    /// devset: initial contents then pushes; cloud: encoded op history
    pub init: Vec<f64>,
    pub history: Vec<f64>,
}

fn blank(kind: &str) -> Case {
    Case { kind: kind.into(), verts: vec![], force_closed: false, which: 0, init: vec![], history: vec![] }
}

fn judge_curve(case: &Case, l: &mut Local) {
    // the nominal and the measured points in metres, and (for the shorter nominals) in microns and tens of kilometres
    judge_curve_unit(case, 1.0, l);
    if case.verts.len() <= 3 {
        for u in [1e-6, 1e4] {
            judge_curve_unit(case, u, l);
        }
    }
}

fn judge_curve_unit(case: &Case, u: f64, l: &mut Local) {
    let mk = || serde_json::to_value(case).unwrap();
    let pts: Vec<Point2> = case.verts.iter().map(|c| gen::p2([c[0], c[1]], u)).collect();
    let c = match Curve2::from_points(&pts, 1e-9 * u, case.force_closed) {
        Ok(c) => c,
        Err(_) => return,
    };
    if u != 1.0 {
        l.bucket("curve deviations at another length unit");
    }
    let v = c.points().to_vec();
    l.distinct(hash_of(&(&case.verts, case.force_closed)));
    l.sample(mk);
    let mut queries = Vec::new();
    for x in -2..=6 {
        for y in -2..=6 {
            queries.push(Point2::new(x as f64 * 0.5 * u, y as f64 * 0.5 * u));
        }
    }
    // measured points a hair off every vertex, not along an edge normal
    for a in v.iter() {
        for eps in [1e-7, 1e-4] {
            queries.push(a + engeom::Vector2::new(0.6, 0.8) * (eps * u));
            queries.push(a + engeom::Vector2::new(-0.8, 0.6) * (eps * u));
        }
    }
    for q in &queries {
        l.eval();
        let best = poly_dist2(&v, q);
        let st = c.at_closest_to_point(q);
        let d = match guarded(|| point_curve2_deviation(&st, q)) {
            Ok(d) => d,
            Err(m) => {
                l.check("curve deviation returns", "panic", false, mk, || m.clone());
                continue;
            }
        };
        let n_edge = st.normal().into_inner();
        let off = q - st.point();
        let side = off.dot(&n_edge);
        l.bucket(if best < 1e-9 * u { "measured point on the nominal" } else if side > 0.0 { "outward side" } else if side < 0.0 { "inward side" } else { "in line with the edge, beyond its end" });
        l.outcome(hash_of(&(d.deviation > 0.0, d.deviation == 0.0)));
        l.check("curve deviation magnitude equals the closest distance", "", (d.deviation.abs() - best).abs() <= 1e-9 * u, mk, || format!("unit {:e} q {:?}: deviation {} distance {}", u, q, d.deviation, best));
        if best > 1e-6 * u && side.abs() > 1e-9 * u {
            l.check("curve deviation is positive on the outward-normal side", "", (d.deviation > 0.0) == (side > 0.0), mk, || format!("q {:?}: deviation {} side {}", q, d.deviation, side));
        }
        let rec = d.surface.point + d.surface.normal.into_inner() * d.deviation;
        l.check("reference point + normal * deviation reconstructs the measured point", "", d2(&rec, q) <= 1e-9 * u && d2(&d.actual_point(), q) <= 1e-9 * u, mk, || format!("q {:?}: reconstructed {:?}", q, rec));
    }
    // whole-set variant with and without an arc-length interval
    let big_l = c.length();
    // (intervals that end exactly on stations which measured points project to: the whole curve, from the first
    // interior vertex to the second; membership is decided here by plain comparisons with both ends included)
    let lens = c.lengths().clone();
    let mut ivs = vec![None, Some(Interval::new(0.25 * big_l, 0.75 * big_l)), Some(Interval::new(0.0, 0.0)), Some(Interval::new(0.0, big_l))];
    if lens.len() >= 3 {
        ivs.push(Some(Interval::new(lens[1], lens[lens.len() - 1])));
        ivs.push(Some(Interval::new(0.0, lens[1])));
    }
    for iv in ivs {
        l.eval();
        let set = line_surface_deviations(&c, &queries, iv);
        let keep: Vec<&Point2> = queries.iter().filter(|q| iv.map(|i| { let x = c.at_closest_to_point(q).length_along(); x >= i.min && x <= i.max }).unwrap_or(true)).collect();
        let mut ok = set.len() == keep.len();
        if ok {
            for (d, q) in set.iter().zip(keep.iter()) {
                ok &= (d.deviation.abs() - poly_dist2(&v, q)).abs() <= 1e-9 * u;
            }
            let mx = set.iter().map(|d| d.deviation).fold(f64::NEG_INFINITY, f64::max);
            let mn = set.iter().map(|d| d.deviation).fold(f64::INFINITY, f64::min);
            if !set.is_empty() {
                ok &= set.max().map(|d| d.deviation) == Some(mx) && set.min().map(|d| d.deviation) == Some(mn);
            }
        }
        l.check("deviation set over a point list applies the interval filter and tracks its extremes", "", ok, mk, || format!("interval {:?}: {} of {} kept", iv, set.len(), keep.len()));
    }
}

fn judge_mesh(case: &Case, l: &mut Local) {
    judge_mesh_unit(case, 1.0, l);
    if case.which < 6 {
        for u in [1e-6, 1e4] {
            judge_mesh_unit(case, u, l);
        }
    }
}

fn judge_mesh_unit(case: &Case, u: f64, l: &mut Local) {
    let mk = || serde_json::to_value(case).unwrap();
    let (v, f) = if case.which < 4 {
        c02::solid(["tetrahedron", "octahedron", "prism", "box"][case.which])
    } else {
        c02::height_field((case.which as u32 - 4) * 37 % 512, case.which as u32 % 2)
    };
    let v: Vec<Point3> = v.iter().map(|p| Point3::from(p.coords * u)).collect();
    if u != 1.0 {
        l.bucket("mesh deviations at another length unit");
    }
    let m = Mesh::new(v.clone(), f.clone(), false);
    l.distinct(hash_of(&("mesh", case.which)));
    let normals: Vec<Option<Vector3>> = f.iter().map(|t| tri_normal(&v[t[0] as usize], &v[t[1] as usize], &v[t[2] as usize])).collect();
    let g = [-1.5, -0.5, 0.3, 0.5, 1.0, 1.7, 2.5];
    let mut queries = Vec::new();
    for x in g {
        for y in g {
            for z in g {
                queries.push(Point3::new(x * u, y * u, z * u));
            }
        }
    }
    // measured points very close to the nominal: off every vertex along a few directions
    for a in v.iter() {
        for d in [Vector3::new(1.0, 0.0, 0.0), Vector3::new(0.0, 0.0, -1.0), Vector3::new(1.0, 1.0, 1.0).normalize(), Vector3::new(-1.0, 0.5, -0.25).normalize()] {
            for eps in [1e-7, 1e-4, 5e-4, 1e-2] {
                queries.push(a + d * (eps * u));
            }
        }
    }
    {
        {
            for q in queries {
                l.eval();
                let mut best = f64::MAX;
                let mut cps = Vec::new();
                for (fi, t) in f.iter().enumerate() {
                    let cp = tri_closest(&v[t[0] as usize], &v[t[1] as usize], &v[t[2] as usize], &q);
                    let d = d3(&cp, &q);
                    cps.push((fi, cp, d));
                    best = best.min(d);
                }
                let mins: Vec<&(usize, Point3, f64)> = cps.iter().filter(|c| (c.2 - best).abs() <= 1e-9 * u).collect();
                let one_normal = mins.iter().all(|c| match (normals[c.0], normals[mins[0].0]) {
                    (Some(a), Some(b)) => (a - b).norm() < 1e-9,
                    _ => false,
                });
                let dp = m.measure_point_deviation(&q, DistMode::ToPoint);
                let dl = m.measure_point_deviation(&q, DistMode::ToPlane);
                l.outcome(hash_of(&(dp.value() > 0.0, one_normal)));
                l.bucket(if one_normal { "nearest face unique up to normal" } else { "nearest point on an edge or vertex" });
                l.check("mesh point-mode deviation magnitude equals the distance", "", (dp.value().abs() - best).abs() <= 1e-9 * u, mk, || format!("unit {:e} q {:?}: {} vs {}", u, q, dp.value(), best));
                if best > 1e-12 * u {
                    let rec = dp.a + dp.direction.into_inner() * dp.value();
                    l.check("mesh point mode: a + direction * value reconstructs the measured point", "", d3(&rec, &q) <= 1e-9 * u && d3(&dp.b, &q) <= 1e-12 * u, mk, || format!("q {:?}: {:?}", q, rec));
                }
                if one_normal {
                    let n = normals[mins[0].0].unwrap();
                    let nv = n.dot(&(q - mins[0].1));
                    l.check("mesh plane-mode deviation is the normal component", "", (dl.value() - nv).abs() <= 1e-9 * u, mk, || format!("q {:?}: {} vs n.v {}", q, dl.value(), nv));
                    if nv.abs() > 1e-9 * u && best > 1e-9 * u {
                        l.check("mesh deviation is positive on the outward side", "", (dp.value() > 0.0) == (nv > 0.0) && (dl.value() > 0.0) == (nv > 0.0), mk, || format!("q {:?}: point {} plane {} n.v {}", q, dp.value(), dl.value(), nv));
                    }
                } else {
                    // any adjacent face's normal component is acceptable
                    let ok = mins.iter().any(|c| normals[c.0].map(|n| (n.dot(&(q - c.1)) - dl.value()).abs() <= 1e-9 * u).unwrap_or(false));
                    l.check("mesh plane-mode deviation is the normal component of an adjacent face", "", ok, mk, || format!("q {:?}: {}", q, dl.value()));
                }
            }
        }
    }
}

fn judge_distance(case: &Case, l: &mut Local) {
    let mk = || serde_json::to_value(case).unwrap();
    let lat = gen::lattice2(3);
    let a = gen::p2(lat[case.which % 9], 1.0);
    let b = gen::p2(lat[(case.which / 9) % 9], 1.5);
    l.distinct(hash_of(&("distance", case.which)));
    for dir in [None, Some(Vector2::new(1.0, 0.5)), Some(Vector2::new(0.0, -2.0)), Some(Vector2::new(-1.0, 1.0))] {
        if dir.is_none() && a == b {
            continue;
        }
        l.eval();
        let u = dir.map(UnitVec2::new_normalize);
        let d = Distance2::new(a, b, u);
        let want_dir = u.map(|x| x.into_inner()).unwrap_or((b - a).normalize());
        let want = want_dir.dot(&(b - a));
        l.outcome(hash_of(&(want > 0.0, dir.is_some())));
        let r = d.reversed();
        let c = d.center();
        let ok = (d.value() - want).abs() <= 1e-12
            && (d.direction.into_inner() - want_dir).norm() <= 1e-12
            && (r.value() - d.value()).abs() <= 1e-12
            && r.a == d.b
            && r.b == d.a
            && d2(&c.point, &Point2::new(0.5 * (a.x + b.x), 0.5 * (a.y + b.y))) <= 1e-12
            && (dir.is_some() || (d.value() - d2(&a, &b)).abs() <= 1e-12);
        l.check("directed distance: projection value, reversal, centre, default direction", "", ok, mk, || format!("a {:?} b {:?} dir {:?}: value {} expected {}", a, b, dir, d.value(), want));
        let d3d = Distance3::new(Point3::new(a.x, a.y, 1.0), Point3::new(b.x, b.y, -0.5), None);
        if a != b {
            l.check("directed distance 3D default direction gives the full length", "", (d3d.value() - d3(&d3d.a, &d3d.b)).abs() <= 1e-12 && (d3d.reversed().value() - d3d.value()).abs() <= 1e-12, mk, String::new);
        }
    }
}

fn judge_tolmap(case: &Case, l: &mut Local) {
    let mk = || serde_json::to_value(case).unwrap();
    let vals = [0.0, 1.0, 1.0, 2.5, 4.0];
    let mask = case.which as u32;
    let bps: Vec<f64> = (0..5).filter(|i| mask & (1 << i) != 0).map(|i| vals[i]).collect();
    if bps.is_empty() || bps.len() > 4 {
        return;
    }
    l.distinct(hash_of(&("tolmap", mask)));
    let zones: Vec<Tolerance> = (0..bps.len()).map(|i| Tolerance::symmetrical(0.0, 1.0 + i as f64)).collect();
    let dom = DiscreteDomain::try_from(bps.clone()).unwrap();
    let map = DiscreteDomainTolMap::try_new(dom.clone(), zones.clone()).unwrap();
    l.check("tolerance map rejects mismatched lengths", "", DiscreteDomainTolMap::try_new(dom.clone(), zones[..zones.len() - 1].to_vec()).is_err(), mk, String::new);
    let mut qs: Vec<f64> = vec![-1.0, 5.0, -0.0, 0.0];
    for b in bps.iter() {
        qs.push(*b);
        qs.push(b.next_up());
        qs.push(b.next_down());
    }
    for w in bps.windows(2) {
        qs.push(0.5 * (w[0] + w[1]));
    }
    // a table whose breakpoints come from the evenly spaced constructors, with the ends given in either order
    if bps.len() >= 2 {
        let (lo, hi, n) = (bps[0], bps[bps.len() - 1] + 1.0, bps.len() + 1);
        let zs: Vec<Tolerance> = (0..n).map(|i| Tolerance::symmetrical(0.0, 1.0 + i as f64)).collect();
        for (what, d) in [("linear, ascending ends", DiscreteDomain::linear(lo, hi, n)), ("linear, descending ends", DiscreteDomain::linear(hi, lo, n)), ("linear_space, descending ends", engeom::common::linear_space(hi, lo, n))] {
            l.eval();
            let vals = d.values().to_vec();
            let step = (hi - lo) / (n - 1) as f64;
            let mut ok = vals.len() == n && vals.windows(2).all(|w| w[0] < w[1]) && (vals[0] - lo).abs() <= 1e-12 && (vals[n - 1] - hi).abs() <= 1e-12;
            if ok {
                match guarded(|| DiscreteDomainTolMap::try_new(d.clone(), zs.clone()).map_err(|e| e.to_string())) {
                    Ok(Ok(m)) => {
                        for k in 0..n {
                            let x = lo + (k as f64 + 0.4) * step;
                            let want = (k).min(n - 1);
                            ok &= guarded(|| m.get(x)).ok().flatten().map(|t| t.upper == zs[want].upper).unwrap_or(false);
                        }
                    }
                    _ => ok = false,
                }
            }
            l.check("a table built from evenly spaced breakpoints returns the zone of the greatest breakpoint not above x", "", ok, mk, || format!("{}: breakpoints {:?}", what, vals));
        }
    }
    // the constant map is the table with a single zone: the same zone everywhere, also below any start
    {
        let cm = engeom::metrology::ConstantTolMap::new(zones[0]);
        let ok = qs.iter().chain([f64::MIN, f64::MAX, -1e300].iter()).all(|x| cm.get(*x).map(|t| t.upper == zones[0].upper && t.lower == zones[0].lower).unwrap_or(false));
        l.check("a constant tolerance map returns its zone for every x", "", ok, mk, String::new);
    }
    for x in qs {
        l.eval();
        let got = map.get(x).map(|t| t.upper);
        l.outcome(hash_of(&(x < bps[0], x > bps[bps.len() - 1], got.map(|g| g.to_bits()))));
        if x >= bps[0] {
            l.bucket(if x > bps[bps.len() - 1] { "query beyond the end" } else { "query inside the table" });
            let want = bps.iter().rposition(|b| *b <= x).unwrap();
            let ok = got.map(|g| (0..bps.len()).any(|i| bps[i] == bps[want] && zones[i].upper == g)).unwrap_or(false);
            l.check("tolerance map returns the zone of the greatest breakpoint not above x", "", ok, mk, || format!("breakpoints {:?} x {}: got zone with upper {:?}, expected zone {}", bps, x, got, want));
            let idx = dom.index_of(x);
            if x <= bps[bps.len() - 1] {
                l.check("index_of returns the greatest breakpoint not above x", "", idx.map(|i| bps[i] == bps[want]).unwrap_or(false), mk, || format!("{:?}.index_of({}) = {:?}", bps, x, idx));
            } else {
                l.check("index_of is None beyond the end", "", idx.is_none(), mk, || format!("{:?}.index_of({}) = {:?}", bps, x, idx));
            }
        } else {
            l.bucket("query below the start");
            if zones[0].upper != zones[zones.len() - 1].upper {
                l.check("the first zone is never returned below the start", "", got != Some(zones[0].upper), mk, || format!("breakpoints {:?} x {}: got {:?}", bps, x, got));
            }
            l.check("index_of is None below the start", "", dom.index_of(x).is_none(), mk, String::new);
        }
    }
}

fn dev(id: usize, d: f64) -> SurfaceDeviation2 {
    SurfaceDeviation2::new(SurfacePoint2::new_normalize(Point2::new(id as f64, 0.0), Vector2::new(0.0, 1.0)), d)
}

const DEV_ALPHABET: [f64; 5] = [-2.0, -1.0, 0.0, 0.5, 3.0];

/// State of the deviation-set machine: how the set was constructed and what was pushed since
#[derive(Clone, Serialize, Deserialize, Debug)]
pub struct DevState {
    pub init: Vec<f64>,
    pub via_new: bool,
    pub pushes: Vec<f64>,
}

impl DevState {
    /// `None` when construction or a push panicked
    fn try_build(&self) -> Option<SurfaceDeviationSet2> {
        guarded(|| self.build()).ok()
    }
    fn build(&self) -> SurfaceDeviationSet2 {
        let mut s = if self.via_new {
            SurfaceDeviationSet2::new(self.init.iter().enumerate().map(|(i, d)| dev(i, *d)).collect())
        } else {
            SurfaceDeviationSet2::default()
        };
        for (k, d) in self.pushes.iter().enumerate() {
            // both spellings of a push, alternating
            if k % 2 == 0 {
                s.push(dev(self.init.len() + k, *d));
            } else {
                let x = dev(self.init.len() + k, *d);
                s.push_new(x.surface, x.deviation);
            }
        }
        s
    }
    fn contents(&self) -> Vec<f64> {
        self.init.iter().chain(self.pushes.iter()).cloned().collect()
    }
    /// contents plus the identity of the elements reported as extremes (their futures coincide)
    fn key(&self) -> (Vec<i64>, i64, i64) {
        let s = match self.try_build() {
            Some(s) => s,
            None => return (self.contents().iter().map(|v| (v * 10.0) as i64).collect(), -2, -2),
        };
        (
            self.contents().iter().map(|v| (v * 10.0) as i64).collect(),
            s.max().map(|d| d.surface.point.x as i64).unwrap_or(-1),
            s.min().map(|d| d.surface.point.x as i64).unwrap_or(-1),
        )
    }
}

fn expand_dev(st: &DevState, depth: usize, l: &mut Local, out: &mut Vec<DevState>) {
    let mk = || {
        let mut c = blank("devset");
        c.init = st.init.clone();
        c.history = st.pushes.clone();
        c.force_closed = st.via_new;
        serde_json::to_value(&c).unwrap()
    };
    l.states += 1;
    l.eval();
    let vals = st.contents();
    l.distinct(hash_of(&st.key()));
    if depth > 0 {
        l.bucket("deviation set: non-initial state");
    }
    let built = guarded(|| (st.build(), SurfaceDeviationSet2::new(vals.iter().enumerate().map(|(i, d)| dev(i, *d)).collect())));
    let (s, fresh) = match built {
        Ok(x) => x,
        Err(e) => {
            // a state the implementation cannot even reach without panicking: reported, not expanded
            l.check("deviation set construction and push return", "", false, mk, || format!("{:?}: {}", st, e));
            return;
        }
    };
    l.check("deviation set construction and push return", "", true, mk, String::new);
    l.traces += 1;
    let mx = vals.iter().cloned().fold(f64::NEG_INFINITY, f64::max);
    let mn = vals.iter().cloned().fold(f64::INFINITY, f64::min);
    let ties = vals.iter().filter(|v| **v == mx).count() > 1 || vals.iter().filter(|v| **v == mn).count() > 1;
    if ties {
        l.bucket("deviation set: ties among the extremes");
    }
    l.outcome(hash_of(&(vals.len(), mx.to_bits(), mn.to_bits())));
    if vals.is_empty() {
        l.bucket("deviation set: empty");
        let ok = s.max().is_none() && s.min().is_none() && s.symmetrical_zone_size() == 0.0 && s.len() == 0 && fresh.max().is_none();
        l.check("empty deviation set reports no extremes and a zero zone", "", ok, mk, String::new);
    } else {
        let mut ok = s.len() == vals.len();
        for (i, v) in vals.iter().enumerate() {
            ok &= s[i].deviation == *v && s[i].surface.point.x == i as f64;
        }
        ok &= s.iter().count() == vals.len();
        l.check("deviation set holds exactly what was constructed and pushed, in order", "", ok, mk, || format!("{:?}", st));
        let ext = s.max().map(|d| d.deviation) == Some(mx) && s.min().map(|d| d.deviation) == Some(mn) && s.symmetrical_zone_size() == 2.0 * mx.abs().max(mn.abs());
        l.check("deviation set reports the true maximum, minimum and symmetric zone", "", ext, mk, || {
            format!("{:?}: max {:?} min {:?} zone {} (contents {:?})", st, s.max().map(|d| d.deviation), s.min().map(|d| d.deviation), s.symmetrical_zone_size(), vals)
        });
        // a set that went through serialisation and back is the same set: same contents, same extremes, and a
        // further push updates them correctly
        match serde_json::to_string(&s).ok().and_then(|t| serde_json::from_str::<SurfaceDeviationSet2>(&t).ok()) {
            Some(mut back) => {
                let mut ok = back.len() == s.len() && back.max().map(|d| d.deviation) == Some(mx) && back.min().map(|d| d.deviation) == Some(mn) && back.symmetrical_zone_size() == s.symmetrical_zone_size();
                back.push(dev(vals.len(), 0.25));
                ok &= back.max().map(|d| d.deviation) == Some(mx.max(0.25)) && back.min().map(|d| d.deviation) == Some(mn.min(0.25));
                l.check("a deviation set restored from its serialised form reports the same extremes", "", ok, mk, || format!("{:?}", st));
            }
            None => {
                l.check("a deviation set restored from its serialised form reports the same extremes", "round trip failed", false, mk, || format!("{:?}", st));
            }
        }
        let same = fresh.max().map(|d| d.deviation) == s.max().map(|d| d.deviation) && fresh.min().map(|d| d.deviation) == s.min().map(|d| d.deviation);
        l.check("a set built from scratch with the same contents reports the same extremes", "", same, mk, String::new);
    }
    for d in DEV_ALPHABET {
        l.transitions += 1;
        let mut n = st.clone();
        n.pushes.push(d);
        out.push(n);
    }
}

/// Point-cloud model: small integer ids for points, normals, colours
#[derive(Clone, Debug, PartialEq, Eq, PartialOrd, Ord, Hash, Serialize, Deserialize)]
pub struct CloudModel {
    pub pts: Vec<i32>,
    pub normals: Option<Vec<i32>>,
    pub colors: Option<Vec<u8>>,
}

fn cloud_of(m: &CloudModel) -> PointCloud {
    PointCloud::try_new(
        m.pts.iter().map(|i| Point3::new(*i as f64, 0.0, 0.0)).collect(),
        m.normals.as_ref().map(|n| n.iter().map(|i| UnitVec3::new_normalize(Vector3::new(1.0, *i as f64, 0.0))).collect()),
        m.colors.as_ref().map(|c| c.iter().map(|b| [*b, 0, 0]).collect()),
    )
    .unwrap()
}

fn cloud_same(pc: &PointCloud, m: &CloudModel) -> bool {
    pc.points().len() == m.pts.len()
        && pc.len() == m.pts.len()
        && pc.points().iter().zip(m.pts.iter()).all(|(p, i)| p.x == *i as f64)
        && pc.normals().map(|n| n.len()) == m.normals.as_ref().map(|n| n.len())
        && pc.colors().map(|c| c.len()) == m.colors.as_ref().map(|c| c.len())
        && pc.normals().map(|n| n.iter().zip(m.normals.as_ref().unwrap().iter()).all(|(u, i)| (u.into_inner() - Vector3::new(1.0, *i as f64, 0.0).normalize()).norm() < 1e-12)).unwrap_or(true)
        && pc.colors().map(|c| c.iter().zip(m.colors.as_ref().unwrap().iter()).all(|(u, b)| u[0] == *b)).unwrap_or(true)
}

fn expand_cloud(m: &CloudModel, depth: usize, l: &mut Local, out: &mut Vec<CloudModel>) {
    let mk = |what: String| {
        let mut c = blank("cloud");
        c.init = m.pts.iter().map(|x| *x as f64).collect();
        c.which = (m.normals.is_some() as usize) * 2 + m.colors.is_some() as usize;
        move || json!({"case": serde_json::to_value(&c).unwrap(), "op": what})
    };
    l.states += 1;
    l.distinct(hash_of(m));
    if depth > 0 {
        l.bucket("point cloud: non-initial state");
    }
    l.eval();
    l.check("point cloud invariant: contents equal the model, parallel arrays the same length", "", cloud_same(&cloud_of(m), m), mk("invariant".into()), || format!("{:?}", m));
    // the constructor refuses parallel arrays of another length, whichever of them are present
    {
        let n = m.pts.len();
        let pts = || m.pts.iter().map(|i| Point3::new(*i as f64, 0.0, 0.0)).collect::<Vec<_>>();
        let normals = |k: usize| (0..k).map(|i| UnitVec3::new_normalize(Vector3::new(1.0, i as f64, 0.0))).collect::<Vec<_>>();
        let colors = |k: usize| (0..k).map(|i| [i as u8, 0, 0]).collect::<Vec<_>>();
        let mut ok = true;
        for off in [1usize, 2] {
            ok &= PointCloud::try_new(pts(), None, Some(colors(n + off))).is_err();
            ok &= PointCloud::try_new(pts(), Some(normals(n + off)), None).is_err();
            ok &= PointCloud::try_new(pts(), Some(normals(n)), Some(colors(n + off))).is_err();
            ok &= PointCloud::try_new(pts(), Some(normals(n + off)), Some(colors(n))).is_err();
            if n >= off {
                ok &= PointCloud::try_new(pts(), None, Some(colors(n - off))).is_err();
                ok &= PointCloud::try_new(pts(), Some(normals(n - off)), None).is_err();
            }
        }
        ok &= PointCloud::try_new(pts(), Some(normals(n)), Some(colors(n))).is_ok() && PointCloud::try_new(pts(), None, Some(colors(n))).is_ok();
        l.check("construction: parallel arrays of another length are refused, matching ones accepted", "", ok, mk("try_new".into()), || format!("{:?}", m));
    }
    // the same contents obtained through the other constructors and conversions, then used further
    {
        l.eval();
        let pts_v: Vec<Point3> = m.pts.iter().map(|i| Point3::new(*i as f64, 0.0, 0.0)).collect();
        let nrm = |i: i32| UnitVec3::new_normalize(Vector3::new(1.0, i as f64, 0.0));
        let mut alts: Vec<(&str, PointCloud)> = Vec::new();
        let mut ok = true;
        if m.pts.is_empty() {
            alts.push(("empty", PointCloud::empty(m.normals.is_some(), m.colors.is_some())));
        }
        match (&m.normals, &m.colors) {
            (None, None) => alts.push(("from points", PointCloud::from(&pts_v[..]))),
            (Some(nv), None) => {
                let nrm_v: Vec<UnitVec3> = nv.iter().map(|i| nrm(*i)).collect();
                match PointCloud::try_from((&pts_v[..], &nrm_v[..])) {
                    Ok(c) => alts.push(("try_from points and normals", c)),
                    Err(_) => ok = false,
                }
                let mut longer = nrm_v.clone();
                longer.push(nrm(99));
                ok &= PointCloud::try_from((&pts_v[..], &longer[..])).is_err();
                if !nrm_v.is_empty() {
                    ok &= PointCloud::try_from((&pts_v[..], &nrm_v[1..])).is_err();
                }
                let sp: Vec<engeom::SurfacePoint3> = pts_v.iter().zip(nrm_v.iter()).map(|(p, n)| engeom::SurfacePoint3::new(*p, *n)).collect();
                alts.push(("from surface points", PointCloud::from(&sp[..])));
            }
            _ => {}
        }
        let direct = cloud_of(m);
        ok &= direct.is_empty() == m.pts.is_empty();
        if !m.pts.is_empty() {
            let bb = direct.aabb();
            let (lo, hi) = (m.pts.iter().min().unwrap(), m.pts.iter().max().unwrap());
            ok &= bb.mins.x == *lo as f64 && bb.maxs.x == *hi as f64 && bb.mins.y == 0.0 && bb.maxs.z == 0.0;
        }
        let mut which = String::new();
        for (name, mut c) in alts {
            l.bucket("point cloud: built through another constructor or conversion");
            let mut fine = cloud_same(&c, m) && c.is_empty() == m.pts.is_empty();
            // and it behaves like the model afterwards: a matching append is taken, a mismatching merge refused
            let id = m.pts.len() as i32 + 1;
            let r = c.append(Point3::new(id as f64, 0.0, 0.0), m.normals.as_ref().map(|_| nrm(id)), m.colors.as_ref().map(|_| [id as u8, 0, 0]));
            let mut m2 = m.clone();
            m2.pts.push(id);
            if let Some(n) = m2.normals.as_mut() {
                n.push(id);
            }
            if let Some(cc) = m2.colors.as_mut() {
                cc.push(id as u8);
            }
            fine &= r.is_ok() && cloud_same(&c, &m2);
            let wrong = CloudModel { pts: vec![70], normals: if m.normals.is_some() { None } else { Some(vec![70]) }, colors: m.colors.clone().map(|_| vec![70]) };
            fine &= c.merge(cloud_of(&wrong)).is_err() && cloud_same(&c, &m2);
            if !fine {
                which = name.to_string();
            }
            ok &= fine;
        }
        l.check("a cloud obtained through empty, From or TryFrom has the contents of the model and behaves like it", "", ok, mk("alternate constructors".into()), || format!("{:?} ({})", m, which));
        // moving a cloud moves points and normals and leaves lengths and colours alone
        let iso = engeom::Iso3::new(Vector3::new(1.5, -2.0, 0.25), Vector3::new(0.3, -0.2, 0.9));
        let mut moved = cloud_of(m);
        moved.transform(&iso);
        let mut okm = moved.len() == m.pts.len() && moved.normals().map(|n| n.len()) == m.normals.as_ref().map(|n| n.len()) && moved.colors().map(|c| c.to_vec()) == direct.colors().map(|c| c.to_vec());
        okm &= moved.points().iter().zip(direct.points().iter()).all(|(a, b)| (a - iso * b).norm() <= 1e-12);
        if let (Some(a), Some(b)) = (moved.normals(), direct.normals()) {
            okm &= a.iter().zip(b.iter()).all(|(x, y)| (x.into_inner() - iso * y.into_inner()).norm() <= 1e-12);
        }
        l.check("transforming a cloud moves points, turns normals and keeps the parallel arrays", "", okm, mk("transform".into()), || format!("{:?}", m));
    }
    let next_id = m.pts.len() as i32 + 1;
    for wn in [false, true] {
        for wc in [false, true] {
            l.eval();
            l.transitions += 1;
            let mut pc = cloud_of(m);
            let r = pc.append(
                Point3::new(next_id as f64, 0.0, 0.0),
                if wn { Some(UnitVec3::new_normalize(Vector3::new(1.0, next_id as f64, 0.0))) } else { None },
                if wc { Some([next_id as u8, 0, 0]) } else { None },
            );
            let accept = wn == m.normals.is_some() && wc == m.colors.is_some();
            let mut m2 = m.clone();
            if accept {
                m2.pts.push(next_id);
                if let Some(n) = m2.normals.as_mut() {
                    n.push(next_id);
                }
                if let Some(c) = m2.colors.as_mut() {
                    c.push(next_id as u8);
                }
            }
            l.outcome(hash_of(&(accept, wn, wc)));
            l.bucket(if accept { "point cloud: accepted operation" } else { "point cloud: rejected operation" });
            l.check("append: accepted exactly when presence matches; rejected appends change nothing", "", r.is_ok() == accept && cloud_same(&pc, &m2), mk(format!("append normal={} color={}", wn, wc)), || format!("{:?}", m));
            {
                // the same object keeps working after an accepted or a rejected call
                let id = m2.pts.len() as i32 + 1;
                let r2 = pc.append(
                    Point3::new(id as f64, 0.0, 0.0),
                    m.normals.as_ref().map(|_| UnitVec3::new_normalize(Vector3::new(1.0, id as f64, 0.0))),
                    m.colors.as_ref().map(|_| [id as u8, 0, 0]),
                );
                let mut m3 = m2.clone();
                m3.pts.push(id);
                if let Some(n) = m3.normals.as_mut() {
                    n.push(id);
                }
                if let Some(c) = m3.colors.as_mut() {
                    c.push(id as u8);
                }
                let sub = pc.create_from_indices(&[m3.pts.len() - 1, 0]);
                let msub = CloudModel { pts: vec![m3.pts[m3.pts.len() - 1], m3.pts[0]], normals: m3.normals.as_ref().map(|n| vec![n[n.len() - 1], n[0]]), colors: m3.colors.as_ref().map(|c| vec![c[c.len() - 1], c[0]]) };
                l.check("the same cloud object keeps following the model after an accepted or rejected append", "", r2.is_ok() && cloud_same(&pc, &m3) && cloud_same(&sub, &msub), mk(format!("append normal={} color={} then a matching append", wn, wc)), || format!("{:?}", m));
            }
            if accept {
                out.push(m2);
            }
        }
    }
    for on in [false, true] {
        for oc in [false, true] {
            for sz in 0..3usize {
                l.eval();
                l.transitions += 1;
                let other = CloudModel {
                    pts: (0..sz as i32).map(|i| 50 + i).collect(),
                    normals: if on { Some((0..sz as i32).map(|i| 50 + i).collect()) } else { None },
                    colors: if oc { Some((0..sz as u8).map(|i| 50 + i).collect()) } else { None },
                };
                let mut pc = cloud_of(m);
                let r = pc.merge(cloud_of(&other));
                let accept = on == m.normals.is_some() && oc == m.colors.is_some();
                let mut m2 = m.clone();
                if accept {
                    m2.pts.extend(other.pts.iter());
                    if let Some(n) = m2.normals.as_mut() {
                        n.extend(other.normals.as_ref().unwrap().iter());
                    }
                    if let Some(c) = m2.colors.as_mut() {
                        c.extend(other.colors.as_ref().unwrap().iter());
                    }
                }
                l.bucket(if accept { "point cloud: accepted operation" } else { "point cloud: rejected operation" });
                l.check("merge: accepted exactly when presence matches; rejected merges change nothing", "", r.is_ok() == accept && cloud_same(&pc, &m2), mk(format!("merge normals={} colors={} size={}", on, oc, sz)), || format!("{:?} + {:?}", m, other));
                if accept && sz > 0 {
                    out.push(m2);
                }
            }
        }
    }
    if !m.pts.is_empty() {
        let n = m.pts.len();
        let mut lists: Vec<Vec<usize>> = vec![vec![]];
        for a in 0..n.min(3) {
            lists.push(vec![a]);
            for b in 0..n.min(3) {
                lists.push(vec![a, b]);
            }
        }
        for idx in lists {
            l.eval();
            l.transitions += 1;
            let pc = cloud_of(m);
            let sub = pc.create_from_indices(&idx);
            let m2 = CloudModel {
                pts: idx.iter().map(|i| m.pts[*i]).collect(),
                normals: m.normals.as_ref().map(|n| idx.iter().map(|i| n[*i]).collect()),
                colors: m.colors.as_ref().map(|c| idx.iter().map(|i| c[*i]).collect()),
            };
            l.check("index selection keeps points, normals and colours of the selected indices", "", cloud_same(&sub, &m2) && cloud_same(&pc, m), mk(format!("create_from_indices {:?}", idx)), || format!("{:?}", m));
        }
    }
    for (np, nn, nc) in [(2usize, 1usize, 2usize), (2, 2, 3), (0, 1, 0), (2, 2, 2)] {
        let r = PointCloud::try_new(vec![Point3::origin(); np], Some(vec![UnitVec3::new_normalize(Vector3::x()); nn]), Some(vec![[0, 0, 0]; nc]));
        l.check("try_new rejects mismatched lengths", "", r.is_ok() == (np == nn && np == nc), mk(format!("try_new {} {} {}", np, nn, nc)), String::new);
    }
}

pub fn judge(case: &Case, l: &mut Local) {
    match case.kind.as_str() {
        "curve" => judge_curve(case, l),
        "mesh" => judge_mesh(case, l),
        "distance" => judge_distance(case, l),
        "tolmap" => judge_tolmap(case, l),
        "devset" => {
            let st = DevState { init: case.init.clone(), via_new: case.force_closed, pushes: case.history.clone() };
            let mut out = Vec::new();
            expand_dev(&st, 0, l, &mut out);
        }
        "cloud" => {
            let n = case.init.len();
            let m = CloudModel {
                pts: case.init.iter().map(|x| *x as i32).collect(),
                normals: if case.which & 2 != 0 { Some(case.init.iter().map(|x| *x as i32).collect()) } else { None },
                colors: if case.which & 1 != 0 { Some(case.init.iter().map(|x| *x as u8).collect()) } else { None },
            };
            let _ = n;
            let mut out = Vec::new();
            expand_cloud(&m, 0, l, &mut out);
        }
        _ => {}
    }
}

/// A long push history (values on a coarse grid, so ties with the current extremes are frequent): the extremes
/// after every single push
fn judge_long(item: &(usize, u64), l: &mut Local) {
            let (n, mult) = *item;
            let mut set = SurfaceDeviationSet2::default();
            let (mut mx, mut mn) = (f64::NEG_INFINITY, f64::INFINITY);
            let mut ok = true;
            let mut at = 0usize;
            for i in 0..n {
                // values on a coarse grid so that ties with the current extremes are frequent
                let v = (((i as u64 * mult * 2654435761) >> 7) % 41) as f64 * 0.25 - 5.0 + if i % 97 == 0 { 0.125 * (i / 97) as f64 } else { 0.0 };
                if i % 2 == 0 { set.push(dev(i, v)); } else { let x = dev(i, v); set.push_new(x.surface, x.deviation); }
                mx = mx.max(v);
                mn = mn.min(v);
                let good = set.len() == i + 1 && set.max().map(|d| d.deviation) == Some(mx) && set.min().map(|d| d.deviation) == Some(mn) && set.symmetrical_zone_size() == 2.0 * mx.abs().max(mn.abs());
                if !good && ok {
                    ok = false;
                    at = i;
                }
            }
            l.eval();
            l.transitions += n as u64;
            l.bucket("deviation set: long push history");
            l.check("deviation set reports the true maximum, minimum and symmetric zone", "long history", ok, || json!({"kind": "devset", "long": [n, mult]}), || format!("{} pushes (multiplier {}): first wrong after push {}", n, mult, at));
        }

pub fn run(tier: Tier) -> i32 {
    let mut cx = Ctx::new("C16", tier, "model_checking");
    cx.rule = "MC: deviation set = every push history of length <= 5 (thorough: 6) over {-2,-1,0,0.5,3} (repeats give ties) from default() and from new(v) for every v of length <= 2, state key = contents + identity of the reported extremes; point cloud = every history of append (4 presence combinations), merge (4 flavours x sizes 0..2), index selection (all lists of <= 2 indices) up to depth 3 (thorough: 5) against a Vec model, rejected operations must change nothing. EX: deviations of a 9x9 half-integer query grid, and of points 1e-7 and 1e-4 off every vertex, from every lattice curve with <= 4 vertices (with/without arc-length interval) and from 12 meshes (7^3 grid, both modes), the shorter curves and six of the meshes also in microns and tens of kilometres; directed distances over lattice pairs x 4 directions; every tolerance table of 1..4 breakpoints from {0,1,1,2.5,4} x queries at, one ulp around, between, below and beyond the breakpoints. distinct = distinct canonical states + distinct entities".into();
    let dev_depth = tier.pick(5, 6);
    let cloud_depth = tier.pick(3, 5);
    cx.bounds = json!({"devset_history": dev_depth, "devset_init_len": 2, "cloud_depth": cloud_depth, "curve_seq_len": tier.pick(3, 4)});
    cx.require(&["deviation set: long push history", "deviation set: non-initial state", "deviation set: ties among the extremes", "deviation set: empty", "point cloud: non-initial state", "point cloud: accepted operation", "point cloud: rejected operation", "outward side", "inward side", "measured point on the nominal", "nearest face unique up to normal", "nearest point on an edge or vertex", "query below the start", "query beyond the end", "query inside the table"]);
    cx.assume("sign clauses are judged only where the offset has a non-zero normal component; at mesh edges/vertices the plane-mode value may be the normal component of any adjacent face (see the C03 finding)");

    // MC 1: deviation set
    let mut init = vec![DevState { init: vec![], via_new: false, pushes: vec![] }, DevState { init: vec![], via_new: true, pushes: vec![] }];
    for a in DEV_ALPHABET {
        init.push(DevState { init: vec![a], via_new: true, pushes: vec![] });
        for b in DEV_ALPHABET {
            init.push(DevState { init: vec![a, b], via_new: true, pushes: vec![] });
        }
    }
    let (l, s1, _e, _d, c1) = bfs_par(init, |s| s.key(), expand_dev, dev_depth + 1, 5_000_000);
    let mut transitions = l.transitions;
    let dev_expanded = l.states;
    cx.absorb(l);
    // engine cross-validation: the same machine explored by stateright (an independent explicit-state
    // checker driving the same real code) must find the same number of unique states and no violation
    let bfs_clean = cx.acc.viol.is_empty();
    let (mut sr_states, mut sr_depth, mut sr_ok) = crate::sr::devset_model_check(dev_depth, n_threads().min(8));
    // stateright's parallel search has been seen to stop a few hundred states short on a heavily loaded machine
    // (its workers give up when the shared queue is momentarily empty); a count that disagrees is therefore
    // taken again with a single worker, which is deterministic, before anything is concluded from it
    let mut sr_mode = "parallel";
    if bfs_clean && sr_ok && sr_states as u64 != dev_expanded {
        let again = crate::sr::devset_model_check(dev_depth, 1);
        sr_states = again.0;
        sr_depth = again.1;
        sr_ok = again.2;
        sr_mode = "single worker after a parallel run that disagreed";
    }
    cx.extra.insert("stateright_search".into(), json!(sr_mode));
    cx.extra.insert("stateright_unique_states".into(), json!(sr_states));
    cx.extra.insert("stateright_max_depth".into(), json!(sr_depth));
    cx.extra.insert("stateright_properties_hold".into(), json!(sr_ok));
    // stateright explores states with up to `dev_depth` pushes: exactly the states the BFS expanded
    cx.extra.insert("devset_states_expanded".into(), json!(dev_expanded));
    // (stateright stops at its first discovery, so the counts are comparable only on a clean exploration)
    if bfs_clean && sr_ok && sr_states as u64 != dev_expanded {
        cx.acc.machinery.push(format!("engine cross-validation failed: stateright found {} unique deviation-set states, the harness BFS expanded {}", sr_states, dev_expanded));
    }
    {
        let mut lx = Local::new();
        lx.eval();
        lx.check("deviation set invariant under the stateright exploration", "", sr_ok, || json!({"kind": "devset", "engine": "stateright"}), || "stateright reported a property discovery".to_string());
        cx.absorb(lx);
    }
    // long push histories (a thousand and more values, many ties): the extremes after every single push
    {
        let seqs: Vec<(usize, u64)> = vec![(1000, 3), (1025, 7), (4100, 11), (257, 13)];
        let ll = sweep(&seqs, judge_long);
        cx.absorb(ll);
    }
    // MC 2: point cloud
    let mut cinit = Vec::new();
    for hn in [false, true] {
        for hc in [false, true] {
            cinit.push(CloudModel { pts: vec![], normals: if hn { Some(vec![]) } else { None }, colors: if hc { Some(vec![]) } else { None } });
        }
    }
    let (l, s2, _e, _d, c2) = bfs_par(cinit, |m| m.clone(), expand_cloud, cloud_depth + 1, 5_000_000);
    transitions += l.transitions;
    cx.absorb(l);
    // EX
    let mut cs = Vec::new();
    let lat2 = gen::lattice2(3);
    for s in gen::seqs(lat2.len(), 2, tier.pick(3, 4)) {
        for fc in [false, true] {
            let mut c = blank("curve");
            c.verts = s.iter().map(|i| lat2[*i].to_vec()).collect();
            c.force_closed = fc;
            cs.push(c);
        }
    }
    for which in 0..12 {
        let mut c = blank("mesh");
        c.which = which;
        cs.push(c);
    }
    for which in 0..81 {
        let mut c = blank("distance");
        c.which = which;
        cs.push(c);
    }
    for which in 1..32 {
        let mut c = blank("tolmap");
        c.which = which;
        cs.push(c);
    }
    let l = sweep(&cs, judge);
    cx.absorb(l);
    cx.acc.states = s1 + s2;
    cx.acc.transitions = transitions;
    cx.extra.insert("devset_states".into(), json!(s1));
    cx.extra.insert("cloud_states".into(), json!(s2));
    if c1 || c2 {
        cx.acc.cap("state cap reached".into());
    }
    cx.finish()
}

pub fn replay(case: &Val) -> Local {
    let case = if case.get("case").is_some() { &case["case"] } else { case };
    if let Some(lg) = case.get("long") {
        let mut l = Local::new();
        judge_long(&(lg[0].as_u64().unwrap_or(257) as usize, lg[1].as_u64().unwrap_or(13)), &mut l);
        return l;
    }
    if case.get("engine").is_some() {
        // the stateright exploration as a whole
        let mut l = Local::new();
        let (_, _, ok) = crate::sr::devset_model_check(5, 1);
        l.eval();
        l.check("deviation set invariant under the stateright exploration", "", ok, || case.clone(), || "stateright reported a property discovery".to_string());
        return l;
    }
    let c: Case = serde_json::from_value(case.clone()).expect("case");
    let mut l = Local::new();
    judge(&c, &mut l);
    l
}
