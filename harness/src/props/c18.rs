//! C18 — angle normalisation and interval arithmetic are consistent.
use crate::engine::*;
use engeom::common::{angle_in_direction, angle_signed_pi, angle_to_2pi, signed_compliment_2pi, Interval};
use engeom::common::{AngleDir, AngleInterval};
use engeom::geom2::{directed_angle, signed_angle};
use engeom::Vector2;
use serde::{Deserialize, Serialize};
use serde_json::json;
use std::f64::consts::{PI, TAU};

#[derive(Serialize, Deserialize, Clone, Debug)]
pub struct Case {
    /// norm | dir | vec | ivl | ivl2 | scalar
    pub kind: String,
    pub i: usize,
    pub j: usize,
}

pub fn angles() -> Vec<f64> {
    let mut v = Vec::new();
    for k in -16..=16 {
        let a = k as f64 * PI / 4.0;
        v.push(a);
        v.push(a.next_up());
        v.push(a.next_down());
    }
    for a in [1e-20, 1e-13, 1e6, 1e6 + PI / 3.0, 0.3, 2.5] {
        v.push(a);
        v.push(-a);
    }
    // large odd multiples of pi (the seam of the signed range) and their neighbours within two ulps
    for k in [10.0, 28.0, 57.0, 159.0, 1000.0, 31831.0] {
        let a = (2.0 * k + 1.0) * PI;
        for x in [a, a.next_up(), a.next_up().next_up(), a.next_down(), a.next_down().next_down()] {
            v.push(x);
            v.push(-x);
        }
    }
    v
}

pub fn extents() -> Vec<f64> {
    vec![0.0, 0.1, -0.1, 1.0, -1.0, PI, -PI, 4.0, -4.0, TAU, -TAU, 7.0, -7.0]
}

pub fn vectors() -> Vec<Vector2> {
    let mut v = Vec::new();
    for k in 0..16 {
        let a = k as f64 * PI / 8.0;
        for len in [1.0, 1e-3, 1e3] {
            v.push(Vector2::new(a.cos() * len, a.sin() * len));
        }
    }
    // exact axis and diagonal directions
    for (x, y) in [(1.0, 0.0), (0.0, 1.0), (-1.0, 0.0), (0.0, -1.0), (1.0, 1.0), (-2.0, 2.0), (-3.0, -3.0), (1.0, -1.0)] {
        v.push(Vector2::new(x, y));
    }
    v
}

pub fn bounds() -> Vec<f64> {
    vec![f64::NEG_INFINITY, -2.0, -1.0, 0.0, 0.0, 1.0, 3.0, f64::INFINITY]
}

fn same_direction(a: f64, b: f64, tol: f64) -> bool {
    (a.sin() - b.sin()).abs() <= tol && (a.cos() - b.cos()).abs() <= tol
}

/// Reference circular membership: (contained, gray)
fn ref_contains(start: f64, extent: f64, a: f64) -> (bool, bool) {
    if extent.abs() >= TAU {
        return (true, false);
    }
    let s0 = if extent >= 0.0 { start } else { start + extent };
    let e = extent.abs();
    let delta = (a - s0).rem_euclid(TAU);
    let g = 1e-9 * (1.0 + a.abs() + start.abs());
    let gray = (delta - e).abs() < g || delta < g || TAU - delta < g;
    (delta <= e, gray)
}

pub fn judge(case: &Case, l: &mut Local) {
    let mk = || serde_json::to_value(case).unwrap();
    let b = angles();
    match case.kind.as_str() {
        "norm" => {
            let a = b[case.i];
            let tol = 8.0 * f64::EPSILON * (1.0 + a.abs()) + 1e-15;
            l.eval();
            let s = angle_signed_pi(a);
            l.outcome(hash_of(&(s > 0.0, s == PI || s == -PI)));
            l.bucket(if a.abs() > 1e5 { "huge angle" } else if a.abs() < 1e-12 && a != 0.0 { "tiny angle" } else { "ordinary or boundary angle" });
            l.check("signed normalisation stays in [-pi, pi] and keeps the direction", "", (-PI..=PI).contains(&s) && same_direction(a, s, tol), mk, || format!("a {:e} -> {:e}", a, s));
            l.eval();
            let u = angle_to_2pi(a);
            l.check("unsigned normalisation stays in [0, 2pi] and keeps the direction", "", (0.0..=TAU).contains(&u) && same_direction(a, u, tol), mk, || format!("a {:e} -> {:e}", a, u));
            l.eval();
            let c = signed_compliment_2pi(a);
            if a.abs() <= TAU {
                l.check("signed complement denotes the same direction with the opposite sign", "", same_direction(a, c, tol) && (a == 0.0 || c == 0.0 || (a > 0.0) != (c > 0.0) || a.abs() == TAU) && c.abs() <= TAU, mk, || format!("a {:e} -> {:e}", a, c));
            }
        }
        "dir" => {
            let (r0, r1) = (b[case.i], b[case.j]);
            let tol = 8.0 * f64::EPSILON * (1.0 + r0.abs() + r1.abs()) + 1e-14;
            l.eval();
            let cw = angle_in_direction(r0, r1, AngleDir::Cw);
            let ccw = angle_in_direction(r0, r1, AngleDir::Ccw);
            l.outcome(hash_of(&(cw == 0.0, ccw == 0.0, cw > PI)));
            let in_range = (0.0..=TAU).contains(&cw) && (0.0..=TAU).contains(&ccw);
            l.check("directed angle between angles lies in [0, 2pi]", "", in_range, mk, || format!("{:e} -> {:e}: cw {:e} ccw {:e}", r0, r1, cw, ccw));
            l.check("rotating the first angle by the directed angle gives the second", "", same_direction(r0 + ccw, r1, tol) && same_direction(r0 - cw, r1, tol), mk, || {
                format!("{:e} -> {:e}: cw {:e} ccw {:e}", r0, r1, cw, ccw)
            });
            let sum = cw + ccw;
            let same = same_direction(r0, r1, tol);
            // when the two angles denote the same direction up to rounding, either answer is acceptable
            let _ = same;
            let ok = (sum - TAU).abs() <= 1e-9 || (sum.abs() <= 1e-9);
            l.check("clockwise and counter-clockwise directed angles sum to a full turn or are both zero", "", ok, mk, || format!("{:e} -> {:e}: cw {:e} + ccw {:e}", r0, r1, cw, ccw));
        }
        "vec" => {
            let vs = vectors();
            let (v1, v2) = (vs[case.i], vs[case.j]);
            l.eval();
            let s = signed_angle(&v1, &v2);
            let cw = directed_angle(&v1, &v2, AngleDir::Cw);
            let ccw = directed_angle(&v1, &v2, AngleDir::Ccw);
            l.outcome(hash_of(&(s > 0.0, s == 0.0, s.abs() == PI)));
            let cross = (v1.x * v2.y - v1.y * v2.x) / (v1.norm() * v2.norm());
            l.bucket(if case.i == case.j { "equal vectors" } else if cross.abs() < 1e-12 && v1.dot(&v2) < 0.0 { "opposite vectors" } else { "general vector pair" });
            let rot = |a: f64| Vector2::new(v1.x * a.cos() - v1.y * a.sin(), v1.x * a.sin() + v1.y * a.cos()).normalize();
            let t = v2.normalize();
            let ok = (-PI..=PI).contains(&s) && (rot(s) - t).norm() <= 1e-12 && (0.0..=TAU).contains(&cw) && (0.0..=TAU).contains(&ccw) && (rot(ccw) - t).norm() <= 1e-12 && (rot(-cw) - t).norm() <= 1e-12;
            l.check("vector angles are in range and rotate the first vector onto the second", "", ok, mk, || format!("{:?} {:?}: signed {:e} cw {:e} ccw {:e}", v1, v2, s, cw, ccw));
            let sum = cw + ccw;
            l.check("vector cw and ccw directed angles sum to a full turn or are both zero", "", (sum - TAU).abs() <= 1e-12 || sum.abs() <= 1e-12, mk, || {
                format!("{:?} {:?}: cw {:e} ccw {:e}", v1, v2, cw, ccw)
            });
            // angles do not depend on the lengths of the vectors: the same pair, very short and very long
            for (s1, s2) in [(1e-7, 1e-7), (1e-9, 1e3), (1e6, 1e-6), (1e5, 1e5)] {
                l.eval();
                let (w1, w2) = (v1 * s1, v2 * s2);
                let (ss, scw, sccw) = (signed_angle(&w1, &w2), directed_angle(&w1, &w2, AngleDir::Cw), directed_angle(&w1, &w2, AngleDir::Ccw));
                let close = |a: f64, b: f64| (a - b).abs() <= 1e-9 || ((a - b).abs() - TAU).abs() <= 1e-9;
                l.bucket("vector pair at another length");
                l.check("vector angles do not depend on the lengths of the vectors", "", close(ss, s) && close(scw, cw) && close(sccw, ccw), mk, || format!("{:?} {:?} scaled by {:e}, {:e}: signed {:e} vs {:e}, cw {:e} vs {:e}, ccw {:e} vs {:e}", v1, v2, s1, s2, ss, s, scw, cw, sccw, ccw));
            }
        }
        "ivl" => {
            let ex = extents();
            let (start, extent) = (b[case.i], ex[case.j]);
            let iv = AngleInterval::new(start, extent);
            l.eval();
            l.bucket(if extent < 0.0 { "negative extent" } else if extent == 0.0 { "zero extent" } else { "positive extent" });
            // the stored ends are contained
            l.check("interval contains its own two ends", "", iv.contains(iv.start()) && iv.contains(iv.start() + iv.angle()) && iv.contains(iv.at_fraction(0.5)), mk, || {
                format!("new({:e},{:e}) -> start {:e} angle {:e}", start, extent, iv.start(), iv.angle())
            });
            // negative extent = the same set swept backwards
            let twin = AngleInterval::new(start + extent, -extent);
            for a in b.iter() {
                l.eval();
                let (want, gray) = ref_contains(start, extent, *a);
                let got = iv.contains(*a);
                l.outcome(hash_of(&(got, extent < 0.0)));
                if gray {
                    l.gray("test angle within 1e-9 of an interval end");
                    continue;
                }
                l.check("interval contains exactly the swept angles", "", got == want, mk, || format!("new({:e},{:e}).contains({:e}) = {} expected {}", start, extent, a, got, want));
                l.check("negative extent means the same set swept backwards", "", twin.contains(*a) == want, mk, || format!("new({:e},{:e}).contains({:e})", start + extent, -extent, a));
            }
        }
        "ivl2" => {
            let ex = extents();
            let nb = b.len();
            let (s0, e0) = (b[case.i % nb], ex[case.i / nb]);
            let (s1, e1) = (b[case.j % nb], ex[case.j / nb]);
            let (i0, i1) = (AngleInterval::new(s0, e0), AngleInterval::new(s1, e1));
            l.eval();
            let got = i0.intersects(&i1);
            let (c0, g0) = ref_contains(s0, e0, if e1 >= 0.0 { s1 } else { s1 + e1 });
            let (c1, g1) = ref_contains(s1, e1, if e0 >= 0.0 { s0 } else { s0 + e0 });
            l.outcome(hash_of(&got));
            if (g0 && !c1) || (g1 && !c0) || (g0 && g1) {
                l.gray("intervals that only touch");
                return;
            }
            l.check("intervals intersect exactly when they share an angle", "", got == (c0 || c1), mk, || format!("({:e},{:e}) vs ({:e},{:e}): {} expected {}", s0, e0, s1, e1, got, c0 || c1));
            l.check("intersects is symmetric", "", i1.intersects(&i0) == got, mk, String::new);
        }
        "scalar" => {
            let bs = bounds();
            let nb = bs.len();
            let (a0, a1) = (bs[case.i % nb], bs[case.i / nb]);
            let (b0, b1) = (bs[case.j % nb], bs[case.j / nb]);
            let ia = Interval::new(a0, a1);
            let ib = Interval::new(b0, b1);
            l.eval();
            l.bucket(if a0 == a1 { "degenerate interval" } else if a0.is_infinite() || a1.is_infinite() { "infinite bound" } else { "finite interval" });
            l.check("construction orders the bounds", "", ia.min == a0.min(a1) && ia.max == a0.max(a1) && ia.min <= ia.max, mk, || format!("{:?}", ia));
            let try_ok = Interval::try_new(a0, a1).map(|x| x == ia).unwrap_or(false) && Interval::try_new(f64::NAN, a1).is_err() && Interval::try_new(a0, f64::NAN).is_err();
            l.check("try_new agrees and rejects NaN", "", try_ok, mk, String::new);
            for x0 in bs.iter() {
                for x in [*x0, x0.next_up(), x0.next_down()] {
                    if x.is_nan() {
                        continue;
                    }
                    l.eval();
                    let want = x >= ia.min && x <= ia.max;
                    let c = ia.clamp(x);
                    l.outcome(hash_of(&(want, c == x)));
                    l.check("contains and clamp follow the set definition", "", ia.contains(x) == want && c >= ia.min && c <= ia.max && (want == (c == x)) && (want || c == if x < ia.min { ia.min } else { ia.max }), mk, || {
                        format!("{:?}: contains({:e}) = {}, clamp = {:e}", ia, x, ia.contains(x), c)
                    });
                }
            }
            l.eval();
            let share = ia.min.max(ib.min) <= ia.max.min(ib.max);
            l.check("overlaps follows the set definition and is symmetric", "", ia.overlaps(&ib) == share && ib.overlaps(&ia) == share, mk, || format!("{:?} {:?}: {} expected {}", ia, ib, ia.overlaps(&ib), share));
            let (x, y) = (ia.intersection(&ib), ib.intersection(&ia));
            let ok = match (x, y) {
                (Some(p), Some(q)) => share && p == q && p.min == ia.min.max(ib.min) && p.max == ia.max.min(ib.max) && ia.contains_interval(&p) && ib.contains_interval(&p),
                (None, None) => !share,
                _ => false,
            };
            l.check("intersection is commutative, exact and inside both operands", "", ok, mk, || format!("{:?} {:?}: {:?} / {:?}", ia, ib, x, y));
            let cont = ib.min >= ia.min && ib.max <= ia.max;
            l.check("contains_interval follows the set definition", "", ia.contains_interval(&ib) == cont, mk, String::new);
        }
        _ => {}
    }
}

pub fn cases(_tier: Tier) -> Vec<Case> {
    let mut out = Vec::new();
    let nb = angles().len();
    let ne = extents().len();
    for i in 0..nb {
        out.push(Case { kind: "norm".into(), i, j: 0 });
        for j in 0..nb {
            out.push(Case { kind: "dir".into(), i, j });
        }
        for j in 0..ne {
            out.push(Case { kind: "ivl".into(), i, j });
        }
    }
    let nv = vectors().len();
    for i in 0..nv {
        for j in 0..nv {
            out.push(Case { kind: "vec".into(), i, j });
        }
    }
    let ni = nb * ne;
    for i in 0..ni {
        for j in 0..ni {
            out.push(Case { kind: "ivl2".into(), i, j });
        }
    }
    let ns = bounds().len().pow(2);
    for i in 0..ns {
        for j in 0..ns {
            out.push(Case { kind: "scalar".into(), i, j });
        }
    }
    out
}

pub fn run(tier: Tier) -> i32 {
    let mut cx = Ctx::new("C18", tier, "exploration");
    cx.rule = "angle alphabet {k*pi/4, k=-16..16} with +-1 ulp neighbours plus tiny (1e-20, 1e-13), ordinary and huge (1e6) values: every angle, every ordered pair x both directions, every (start, extent) interval x every test angle, every pair of intervals; 56 vectors (16 directions x 3 lengths + exact axes/diagonals): every ordered pair; scalar bounds {-inf,-2,-1,0,0,1,3,+inf}: every interval, every pair of intervals, every bound +-1 ulp as test value. distinct = distinct (kind, i, j) cases; both tiers enumerate the same complete space".into();
    cx.bounds = json!({"angles": angles().len(), "extents": extents().len(), "vectors": vectors().len(), "scalar_bounds": bounds().len()});
    cx.require(&["huge angle", "tiny angle", "ordinary or boundary angle", "equal vectors", "opposite vectors", "general vector pair", "vector pair at another length", "negative extent", "zero extent", "positive extent", "degenerate interval", "infinite bound", "finite interval"]);
    cx.assume("direction equality judged on sin/cos within 8 ulp * (1+|a|); interval membership gray within 1e-9*(1+|a|+|start|) of an end, except that the stored ends themselves must be contained");
    let cs = cases(tier);
    let l = sweep(&cs, |c, l| {
        l.distinct(hash_of(&(c.kind.as_str(), c.i, c.j)));
        if c.i == 3 && c.j == 5 {
            l.sample(|| serde_json::to_value(c).unwrap());
        }
        judge(c, l)
    });
    cx.absorb(l);
    cx.finish()
}

pub fn replay(case: &Val) -> Local {
    let c: Case = serde_json::from_value(case.clone()).expect("case");
    let mut l = Local::new();
    judge(&c, &mut l);
    l
}
