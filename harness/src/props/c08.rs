//! C08 — alignment parameters round-trip and Jacobians are true derivatives.
use crate::engine::*;
use crate::refmodel::{d2, d3};
use engeom::geom2::align2::{iso2_from_param, param_from_iso2, point_surface_jacobian, RcParams2};
use engeom::geom3::align3::jacobian::{point_plane_jacobian, point_plane_jacobian_rev, point_point_jacobian};
use engeom::geom3::align3::multi_param::ParamHandler;
use engeom::geom3::align3::{iso3_from_param, param_from_iso3, RcParams3, RotationMatrices};
use engeom::{Iso2, Iso3, Point2, Point3, SurfacePoint2, SurfacePoint3, Vector2, Vector3};
use parry3d_f64::na::{DMatrix, DVector, Matrix3, Translation3, Vector6};
use serde::{Deserialize, Serialize};
use serde_json::json;
use std::f64::consts::{FRAC_PI_2, PI};

#[derive(Serialize, Deserialize, Clone, Debug)]
pub struct Case {
    /// rc3 | rm | rc2 | jac3 | jac2 | handler | probjac
    pub kind: String,
    pub i: usize,
    pub j: usize,
    pub k: usize,
    pub t: usize,
    pub rc: usize,
}

pub fn euler_alphabet() -> Vec<f64> {
    let mut a = vec![0.0, 0.3, -0.3, 1.1, -1.1, 2.5, -2.5, PI];
    for d in [0.0, 1e-9, 1e-5, 1e-4, 1e-3] {
        a.push(FRAC_PI_2 - d);
        a.push(-(FRAC_PI_2 - d));
    }
    a
}

fn translations() -> [Vector3; 3] {
    [Vector3::new(0.0, 0.0, 0.0), Vector3::new(1.0, 2.0, 3.0), Vector3::new(1e3, -5e2, 7e2)]
}
fn centres() -> [Point3; 3] {
    [Point3::new(0.0, 0.0, 0.0), Point3::new(1.0, -2.0, 3.0), Point3::new(1e3, 1e3, -1e3)]
}

fn rmat(rx: f64, ry: f64, rz: f64) -> Matrix3<f64> {
    let (sx, cx) = rx.sin_cos();
    let (sy, cy) = ry.sin_cos();
    let (sz, cz) = rz.sin_cos();
    let mx = Matrix3::new(1.0, 0.0, 0.0, 0.0, cx, -sx, 0.0, sx, cx);
    let my = Matrix3::new(cy, 0.0, sy, 0.0, 1.0, 0.0, -sy, 0.0, cy);
    let mz = Matrix3::new(cz, -sz, 0.0, sz, cz, 0.0, 0.0, 0.0, 1.0);
    mx * my * mz
}

fn judge_rm(case: &Case, l: &mut Local) {
    let mk = || serde_json::to_value(case).unwrap();
    let al = euler_alphabet();
    let (rx, ry, rz) = (al[case.i], al[case.j], al[case.k]);
    l.eval();
    let rm = match guarded(|| RotationMatrices::from_euler(rx, ry, rz)) {
        Ok(r) => r,
        Err(e) => {
            l.check("rotation matrices return", "panic", false, mk, || e.clone());
            return;
        }
    };
    let gimbal = (ry.abs() - FRAC_PI_2).abs() < 2e-3;
    l.bucket(if gimbal { "pitch at or near gimbal lock" } else { "pitch away from gimbal lock" });
    let m = *rm.q.to_rotation_matrix().matrix();
    let want = rmat(rx, ry, rz);
    l.check("rotation equals Rx*Ry*Rz", "", (m - want).abs().max() <= 1e-12, mk, || format!("({},{},{}): {:e}", rx, ry, rz, (m - want).abs().max()));
    let h = 1e-6;
    let dx = (rmat(rx + h, ry, rz) - rmat(rx - h, ry, rz)) / (2.0 * h);
    let dy = (rmat(rx, ry + h, rz) - rmat(rx, ry - h, rz)) / (2.0 * h);
    let dz = (rmat(rx, ry, rz + h) - rmat(rx, ry, rz - h)) / (2.0 * h);
    let e = (rm.d.x - dx).abs().max().max((rm.d.y - dy).abs().max()).max((rm.d.z - dz).abs().max());
    l.outcome(hash_of(&(gimbal, e <= 1e-7)));
    l.check("Euler derivative matrices equal the derivatives of the rotation matrix", "", e <= 1e-7, mk, || format!("({},{},{}): worst entry error {:e}", rx, ry, rz, e));
    let minv = m.transpose();
    let erd = (rm.rd.x - rm.d.x * minv).abs().max().max((rm.rd.y - rm.d.y * minv).abs().max()).max((rm.rd.z - rm.d.z * minv).abs().max());
    l.check("rd equals d times the inverse rotation", "", erd <= 1e-10, mk, || format!("{:e}", erd));
    l.eval();
    let back = RotationMatrices::from_rotation(&rm.q);
    let mb = *back.q.to_rotation_matrix().matrix();
    let mr = rmat(back.r.x, back.r.y, back.r.z);
    l.check("Euler extraction reproduces the rotation (also at and near gimbal lock)", if gimbal { "gimbal" } else { "" }, (mb - m).abs().max() <= 1e-9 && (mr - m).abs().max() <= 1e-9, mk, || {
        format!("({},{},{}): extracted ({},{},{}), matrix error {:e}", rx, ry, rz, back.r.x, back.r.y, back.r.z, (mr - m).abs().max())
    });
}

fn judge_rc3(case: &Case, l: &mut Local) {
    let mk = || serde_json::to_value(case).unwrap();
    let al = euler_alphabet();
    let (rx, ry, rz) = (al[case.i], al[case.j], al[case.k]);
    let t = translations()[case.t];
    let rc = centres()[case.rc];
    let probes = [Point3::new(0.3, -1.2, 2.0), Point3::new(-4.0, 0.5, 1.5)];
    let q = RotationMatrices::from_euler(rx, ry, rz).q;
    let initial = Iso3::from_parts(Translation3::from(t), q);
    let scale = 1.0 + t.norm() + rc.coords.norm();
    let gimbal = (ry.abs() - FRAC_PI_2).abs() < 2e-3;
    l.eval();
    l.bucket(if rc.coords.norm() > 100.0 { "rotation centre far from the origin" } else { "rotation centre near the origin" });
    let p = match guarded(|| RcParams3::from_initial(&initial, &rc)) {
        Ok(p) => p,
        Err(e) => {
            l.check("parameter object builds", "panic", false, mk, || e.clone());
            return;
        }
    };
    let mut e: f64 = 0.0;
    for qq in probes.iter() {
        e = e.max(d3(&(p.transform() * qq), &(initial * qq)));
        e = e.max(d3(&(p.inverse() * (p.transform() * qq)), qq));
    }
    e = e.max(d3(p.current_rc(), &(initial * rc)));
    l.outcome(hash_of(&(gimbal, case.t, case.rc)));
    l.check("parameter object reproduces the initial isometry, its inverse and the moved centre", if gimbal { "gimbal" } else { "" }, e <= 1e-9 * scale, mk, || {
        format!("euler ({},{},{}) t {:?} rc {:?}: error {:e} (allowed {:e})", rx, ry, rz, t, rc, e, 1e-9 * scale)
    });
    // rotations far below any angular resolution of interest are still rotations: the turn itself is reproduced
    // (once per translation and centre)
    if case.i == 0 && case.j == 0 && case.k == 0 {
        for ang in [2e-9, 3e-7, 4e-5] {
            for axis in [Vector3::x(), Vector3::y(), Vector3::z(), Vector3::new(1.0, -1.0, 1.0).normalize()] {
                l.eval();
                let ini = Iso3::new(t, axis * ang);
                match guarded(|| RcParams3::from_initial(&ini, &rc)) {
                    Ok(pp) => {
                        let dm = (pp.transform().rotation.to_rotation_matrix().matrix() - ini.rotation.to_rotation_matrix().matrix()).abs().max();
                        let dt = d3(&(pp.transform() * rc), &(ini * rc));
                        l.bucket("initial rotation of a few nanoradians");
                        l.check("parameter object reproduces the initial isometry, its inverse and the moved centre", "tiny rotation", dm <= 1e-13 && dt <= 1e-9 * scale, mk, || format!("rotation of {:e} about {:?}: rotation matrix differs by {:e}", ang, axis, dm));
                    }
                    Err(e) => {
                        l.check("parameter object builds", "panic", false, mk, || e.clone());
                    }
                }
            }
        }
    }
    // updates: pure translation, and a general update against the independent formula
    for (dx, dr) in [(Vector3::new(0.5, 0.0, -0.25), Vector3::zeros()), (Vector3::new(1e-3, 2e-3, 0.0), Vector3::new(1e-3, 0.0, 0.5)), (Vector3::zeros(), Vector3::new(0.0, 0.5, 0.0))] {
        l.eval();
        let mut x = *p.x();
        for a in 0..3 {
            x[a] += dx[a];
            x[a + 3] += dr[a];
        }
        let mut p2 = p.clone();
        p2.set(&x);
        let r_new = rmat(x[3], x[4], x[5]);
        let rc_d = initial * rc;
        let mut worst: f64 = 0.0;
        for qq in probes.iter() {
            let want = rc_d + Vector3::new(x[0], x[1], x[2]) + r_new * (qq - rc);
            worst = worst.max(d3(&(p2.transform() * qq), &want));
            worst = worst.max(d3(&(p2.inverse() * (p2.transform() * qq)), qq));
        }
        worst = worst.max(d3(p2.current_rc(), &(p2.transform() * rc)));
        l.check("after an update transform, inverse and moved centre follow p -> rc_d + t + R(e)(p - rc)", "", worst <= 1e-9 * scale, mk, || format!("update {:?} {:?}: error {:e}", dx, dr, worst));
        if dr.norm() == 0.0 {
            let mut wt: f64 = 0.0;
            for qq in probes.iter() {
                wt = wt.max(d3(&(p2.transform() * qq), &((p.transform() * qq) + dx)));
            }
            l.check("a pure-translation parameter change translates by that vector wherever the centre is", "", wt <= 1e-9 * scale, mk, || format!("{:e}", wt));
        }
    }
    // parameter <-> isometry round trip
    l.eval();
    let p6 = param_from_iso3(&initial);
    let b = iso3_from_param(&p6);
    let ep6 = (b.to_matrix() - initial.to_matrix()).abs().max();
    l.check("isometry -> parameters -> isometry is the identity", "", ep6 <= 1e-9 * (1.0 + t.norm()), mk, || format!("euler ({},{},{}): {:e}", rx, ry, rz, ep6));
}

fn judge_rc2(case: &Case, l: &mut Local) {
    let mk = || serde_json::to_value(case).unwrap();
    let angles = [0.0, 1e-9, -1e-9, 0.3, -0.3, FRAC_PI_2, -FRAC_PI_2, 3.0, -3.0, PI, -PI, 2.0];
    let a = angles[case.i % angles.len()];
    let t3 = translations()[case.t];
    let c3 = centres()[case.rc];
    let (t, rc) = (Vector2::new(t3.x, t3.y), Point2::new(c3.x, c3.y));
    let initial = Iso2::new(t, a);
    let scale = 1.0 + t.norm() + rc.coords.norm();
    let probes = [Point2::new(0.3, -1.2), Point2::new(-4.0, 0.5)];
    l.eval();
    l.bucket("2D parameter object");
    let p = RcParams2::from_initial(&initial, &rc);
    let mut e: f64 = 0.0;
    for q in probes.iter() {
        e = e.max(d2(&(p.transform() * q), &(initial * q)));
        e = e.max(d2(&(p.inverse() * (p.transform() * q)), q));
    }
    e = e.max(d2(p.current_rc(), &(initial * rc)));
    l.outcome(hash_of(&(case.i, 2u8)));
    l.check("2D parameter object reproduces the initial isometry, its inverse and the moved centre", "", e <= 1e-9 * scale, mk, || format!("angle {} t {:?} rc {:?}: {:e}", a, t, rc, e));
    for (dx, da) in [(Vector2::new(0.5, -0.25), 0.0), (Vector2::new(1e-3, 0.0), 0.5), (Vector2::zeros(), -1e-3)] {
        l.eval();
        let mut x = *p.x();
        x[0] += dx.x;
        x[1] += dx.y;
        x[2] += da;
        let mut p2 = p.clone();
        p2.set(&x);
        let mut worst: f64 = 0.0;
        for q in probes.iter() {
            let (s, c) = x[2].sin_cos();
            let v = q - rc;
            let want = rc + Vector2::new(x[0], x[1]) + Vector2::new(c * v.x - s * v.y, s * v.x + c * v.y);
            worst = worst.max(d2(&(p2.transform() * q), &want));
            worst = worst.max(d2(&(p2.inverse() * (p2.transform() * q)), q));
            if da == 0.0 {
                worst = worst.max(d2(&(p2.transform() * q), &((p.transform() * q) + dx)));
            }
        }
        worst = worst.max(d2(p2.current_rc(), &(p2.transform() * rc)));
        l.check("2D: after an update transform, inverse and moved centre stay consistent", "", worst <= 1e-9 * scale, mk, || format!("update {:?} {}: {:e}", dx, da, worst));
    }
    let back = iso2_from_param(&param_from_iso2(&initial));
    l.check("2D isometry -> parameters -> isometry is the identity", "", (back.to_homogeneous() - initial.to_homogeneous()).abs().max() <= 1e-9 * (1.0 + t.norm()), mk, String::new);
}

const EULERS_JAC3: usize = 7;

fn judge_jac3(case: &Case, l: &mut Local) {
    let mk = || serde_json::to_value(case).unwrap();
    let eulers = [(0.0, 0.0, 0.0), (0.2, -0.3, 0.5), (1.1, 0.9, -2.0), (-0.4, FRAC_PI_2 - 1e-3, 0.7), (2.5, -1.1, 0.3)];
    let (rx, ry, rz) = eulers[(case.i % EULERS_JAC3).min(eulers.len() - 1)];
    let t = translations()[case.t];
    let rc = centres()[case.rc];
    let lat = [-1.0, 0.5, 2.0];
    let mut pts: Vec<Point3> = Vec::new();
    for x in lat {
        for y in lat {
            for z in lat {
                pts.push(Point3::new(x, y, z));
            }
        }
    }
    let normals = [Vector3::new(0.0, 0.0, 1.0), Vector3::new(1.0, 1.0, 1.0), Vector3::new(1.0, -0.5, 0.2), Vector3::new(-1.0, 0.0, 0.3)];
    let initial = Iso3::from_parts(Translation3::from(t), RotationMatrices::from_euler(rx, ry, rz).q);
    let mut params = RcParams3::from_initial(&initial, &rc);
    if case.i % EULERS_JAC3 >= 5 {
        // poses reached by an update rather than from an initial isometry: the parameter vector then keeps
        // the angles it was given, including a pitch beyond a quarter turn, and the Jacobians must be the
        // derivatives with respect to *those* parameters
        let (ux, uy, uz) = [(0.3, 2.0, -0.4), (-1.0, -2.6, 0.5)][case.i % EULERS_JAC3 - 5];
        let mut x = *params.x();
        x[3] = ux;
        x[4] = uy;
        x[5] = uz;
        params.set(&x);
        l.bucket("pose set with a pitch beyond a quarter turn");
    }
    let t0i = params.transform().inverse();
    let p = pts[case.j % pts.len()];
    let cpt = pts[case.k % pts.len()];
    for nn in normals.iter() {
        let c = SurfacePoint3::new_normalize(cpt, *nn);
        let d = c.scalar_projection(&p);
        if d.abs() < 1e-3 || d3(&p, &cpt) < 1e-3 {
            l.gray("residual kink (zero offset)");
            continue;
        }
        l.eval();
        let parallel = (p - cpt).normalize().cross(&c.normal.into_inner()).norm() < 1e-9;
        l.bucket(if parallel { "offset parallel to the normal" } else { "offset not parallel to the normal" });
        let h = 1e-6;
        let fd = |f: &dyn Fn(&RcParams3) -> f64, i: usize| {
            let mut a = params.clone();
            let mut b = params.clone();
            let mut xa = *params.x();
            let mut xb = *params.x();
            xa[i] += h;
            xb[i] -= h;
            a.set(&xa);
            b.set(&xb);
            (f(&a) - f(&b)) / (2.0 * h)
        };
        let fwd = |q: &RcParams3| {
            let t = q.transform() * t0i;
            c.scalar_projection(&(t * p)).abs()
        };
        let rev = |q: &RcParams3| {
            let t = q.transform() * t0i;
            c.transformed(&t).scalar_projection(&p).abs()
        };
        let pp = |q: &RcParams3| {
            let t = q.transform() * t0i;
            ((t * p) - c.point).norm()
        };
        let jf = point_plane_jacobian(&p, &c, &params);
        let jr = point_plane_jacobian_rev(&p, &c, &params);
        let jp = point_point_jacobian(&p, &c.point, &params);
        let lever = 1.0 + (p - params.current_rc()).norm() + (cpt - params.current_rc()).norm();
        // finite differences lose digits with the magnitude of the coordinates involved
        let tol = 1e-5 * lever * (1.0 + 1e-3 * (t.norm() + rc.coords.norm()));
        let mut worst = [0.0f64; 3];
        for i in 0..6 {
            let e = [(jf[i] - fd(&fwd, i)).abs(), (jr[i] - fd(&rev, i)).abs(), (jp[i] - fd(&pp, i)).abs()];
            for k in 0..3 {
                worst[k] = worst[k].max(e[k]);
            }
        }
        l.outcome(hash_of(&(parallel, worst[1] <= tol)));
        l.check("point-to-plane Jacobian equals the finite-difference derivative", "", worst[0] <= tol, mk, || format!("p {:?} c {:?} n {:?}: worst entry error {:e}", p, cpt, nn, worst[0]));
        l.check("reference-side point-to-plane Jacobian equals the finite-difference derivative", "", worst[1] <= tol, mk, || {
            format!("p {:?} c {:?} n {:?}: analytic {:?}, worst entry error {:e}", p, cpt, nn, jr.as_slice(), worst[1])
        });
        l.check("point-to-point Jacobian equals the finite-difference derivative", "", worst[2] <= tol, mk, || format!("p {:?} c {:?}: worst entry error {:e}", p, cpt, worst[2]));
    }
    // a reference point a few microns from the test point: far above the coincidence guard of the
    // point-to-point row (1e-8), so the row is still the derivative of the distance
    if case.k % 9 == 0 {
        for sep in [3e-6, 2e-5] {
            l.eval();
            let near = p + Vector3::new(1.0, -2.0, 2.0) / 3.0 * sep;
            let jp = point_point_jacobian(&p, &near, &params);
            let lever = 1.0 + (p - params.current_rc()).norm();
            // the step keeps the induced displacement three orders below the separation
            let mut worst = 0.0f64;
            for i in 0..6 {
                let h = if i < 3 { sep * 1e-3 } else { sep * 1e-3 / lever };
                let dist_at = |dx: f64| {
                    let mut q = params.clone();
                    let mut x = *params.x();
                    x[i] += dx;
                    q.set(&x);
                    (((q.transform() * t0i) * p) - near).norm()
                };
                worst = worst.max((jp[i] - (dist_at(h) - dist_at(-h)) / (2.0 * h)).abs() / (1.0 + jp[i].abs()));
            }
            l.bucket("point-to-point row for points microns apart");
            l.check("point-to-point Jacobian equals the finite-difference derivative", "close pair", worst <= 2e-2, mk, || format!("p {:?}, reference {:e} away: analytic {:?}, worst entry error {:e}", p, sep, jp.as_slice(), worst));
        }
    }
}

fn judge_jac2(case: &Case, l: &mut Local) {
    let mk = || serde_json::to_value(case).unwrap();
    let angles = [0.0, 0.3, -1.2, FRAC_PI_2, 3.0];
    let a = angles[case.i % angles.len()];
    let t3 = translations()[case.t];
    let c3 = centres()[case.rc];
    let (t, rc) = (Vector2::new(t3.x, t3.y), Point2::new(c3.x, c3.y));
    let params = RcParams2::from_initial(&Iso2::new(t, a), &rc);
    let t0i = params.transform().inverse();
    let lat = [-1.0, 0.5, 2.0];
    let mut pts: Vec<Point2> = Vec::new();
    for x in lat {
        for y in lat {
            pts.push(Point2::new(x, y));
        }
    }
    let p = pts[case.j % pts.len()];
    let spt = pts[case.k % pts.len()];
    for nn in [Vector2::new(0.0, 1.0), Vector2::new(1.0, 1.0), Vector2::new(1.0, -0.5), Vector2::new(-1.0, 0.3)] {
        l.eval();
        l.bucket("2D Jacobian probe");
        let s = SurfacePoint2::new_normalize(spt, nn);
        let h = 1e-6;
        let j = point_surface_jacobian(&p, &s, &params);
        let mut worst = 0.0f64;
        for i in 0..3 {
            let mut pa = params.clone();
            let mut pb = params.clone();
            let mut xa = *params.x();
            let mut xb = *params.x();
            xa[i] += h;
            xb[i] -= h;
            pa.set(&xa);
            pb.set(&xb);
            let fa = s.scalar_projection(&((pa.transform() * t0i) * p));
            let fb = s.scalar_projection(&((pb.transform() * t0i) * p));
            worst = worst.max((j[i] - (fa - fb) / (2.0 * h)).abs());
        }
        let lever = 1.0 + (p - params.current_rc()).norm();
        let tol = 1e-5 * lever * (1.0 + 1e-3 * (t.norm() + rc.coords.norm()));
        l.outcome(hash_of(&(case.i, worst <= tol, 2u8)));
        l.check("2D point-to-surface Jacobian equals the finite-difference derivative", "", worst <= tol, mk, || format!("p {:?} s {:?} n {:?}: {:?}, worst error {:e}", p, spt, nn, j.as_slice(), worst));
    }
}

fn judge_handler(case: &Case, l: &mut Local) {
    let mk = || serde_json::to_value(case).unwrap();
    let count = 2 + case.i % 3;
    let static_i = case.j % count;
    let means: Vec<Point3> = (0..count).map(|i| Point3::new(i as f64, -2.0 * i as f64, 0.5)).collect();
    let initials: Vec<Iso3> = (0..count).map(|i| Iso3::new(Vector3::new(0.1 * i as f64, 0.0, -0.2), Vector3::new(0.0, 0.1 * i as f64, 0.05))).collect();
    l.eval();
    l.bucket("parameter handler layout");
    let mut h = match guarded(|| ParamHandler::new(static_i, means.clone(), if case.k % 2 == 0 { Some(&initials[..]) } else { None })) {
        Ok(h) => h,
        Err(e) => {
            l.check("handler builds", "panic", false, mk, || e.clone());
            return;
        }
    };
    let before: Vec<Iso3> = (0..count).map(|i| h.get_transform(i)).collect();
    // a freshly built handler holds every body at the isometry it was given (the identity when none is given),
    // and its parameter vector describes that state: setting it again changes nothing
    {
        let ident = Iso3::identity();
        let mut ok = true;
        for i in 0..count {
            let want = if case.k % 2 == 0 { &initials[i] } else { &ident };
            ok &= (before[i].to_matrix() - want.to_matrix()).abs().max() <= 1e-12;
        }
        let same = h.params().clone();
        let mut again = ParamHandler::new(static_i, means.clone(), if case.k % 2 == 0 { Some(&initials[..]) } else { None });
        again.set_param(&same);
        for i in 0..count {
            ok &= (again.get_transform(i).to_matrix() - before[i].to_matrix()).abs().max() <= 1e-12;
        }
        l.check("handler: every body starts at its initial isometry, and the initial parameter vector reproduces it", "", ok, mk, || format!("count {} static {}: body transforms {:?}", count, static_i, before.iter().map(|t| (t.translation.vector, t.rotation.euler_angles())).collect::<Vec<_>>()));
    }
    // indices
    let mut ok = true;
    let mut next = 0;
    for i in 0..count {
        if i != static_i {
            ok &= h.p_index(i) == next;
            next += 1;
        }
    }
    l.check("handler: moving bodies occupy consecutive parameter blocks", "", ok && h.params().len() == (count - 1) * 6, mk, String::new);
    let x = DVector::from_fn((count - 1) * 6, |r, _| 0.01 * (r as f64 + 1.0) * if r % 2 == 0 { 1.0 } else { -1.0 });
    h.set_param(&x);
    let mut ok = h.params() == &x;
    for i in 0..count {
        if i == static_i {
            ok &= (h.get_transform(i).to_matrix() - before[i].to_matrix()).abs().max() == 0.0;
        } else {
            let b = h.p_index(i) * 6;
            let ident = Iso3::identity();
            let mut own = RcParams3::from_initial(if case.k % 2 == 0 { &initials[i] } else { &ident }, &means[i]);
            let _ = own.x();
            own.set(&Vector6::new(x[b], x[b + 1], x[b + 2], x[b + 3], x[b + 4], x[b + 5]));
            ok &= (h.get_transform(i).to_matrix() - own.transform().to_matrix()).abs().max() <= 1e-12;
        }
    }
    l.outcome(hash_of(&(count, static_i)));
    l.check("handler: each parameter block drives its own body, the static body is untouched", "", ok, mk, || format!("count {} static {}", count, static_i));
    let mut ok = true;
    for a in 0..count {
        for b in 0..count {
            let want = h.get_transform(b).inverse() * h.get_transform(a);
            ok &= (h.relative_transform(a, b).to_matrix() - want.to_matrix()).abs().max() <= 1e-12;
        }
    }
    l.check("handler: relative transform is inverse(reference) * test", "", ok, mk, String::new);
    let mut m = DMatrix::<f64>::zeros(2, (count - 1) * 6);
    let vals = Vector6::new(1.0, 2.0, 3.0, 4.0, 5.0, 6.0);
    for i in 0..count {
        h.set_jacobian(&mut m, 1, i, &vals);
    }
    let mut ok = m.row(0).iter().all(|v| *v == 0.0);
    for c in 0..(count - 1) * 6 {
        ok &= m[(1, c)] == (c % 6 + 1) as f64;
    }
    l.check("handler: Jacobian values land in the body's own columns, none for the static body", "", ok, mk, || format!("{:?}", m));
    // the same buffer filled again (a later iteration of the solver, with other values): the entries are the new
    // values, nothing of the first fill is left
    let vals2 = Vector6::new(-0.5, 0.25, 8.0, -3.0, 0.0, 1.5);
    for i in 0..count {
        h.set_jacobian(&mut m, 1, i, &vals2);
        h.set_jacobian(&mut m, 0, i, &vals);
    }
    let mut ok2 = true;
    for c in 0..(count - 1) * 6 {
        ok2 &= m[(1, c)] == vals2[c % 6] && m[(0, c)] == vals[c % 6];
    }
    l.check("handler: filling a Jacobian buffer again overwrites it", "", ok2, mk, || format!("{:?}", m));
}


/// The Jacobian assembled by the private alignment problems (observed through hook H4) must be the
/// derivative of the residuals they report, at any pose including large rotations.
fn judge_probjac(case: &Case, l: &mut Local) {
    use crate::props::c07;
    use engeom::common::DistMode;
    use engeom::geom2::align2::verif_observe_points_to_curve;
    use engeom::geom3::align3::verif_observe_points_to_mesh;
    let mk = || serde_json::to_value(case).unwrap();
    let h = 1e-6;
    let dx = [[0.0; 6], [0.01, -0.02, 0.005, 0.002, -0.003, 0.001], [-0.03, 0.01, 0.02, -0.01, 0.02, 0.015]][case.rc % 3];
    // (n rows, parameter count, closure evaluating (params, residuals, jacobian) after the history)
    let (np, obs): (usize, Box<dyn Fn(&[Vec<f64>]) -> (Vec<f64>, Vec<f64>, Vec<f64>)>) = if case.k == 2 {
        let curve = c07::curve_ref(case.i);
        let initial = [Iso2::identity(), Iso2::new(Vector2::new(1.0, -2.0), 2.0), Iso2::new(Vector2::new(-3.0, 0.5), -2.8), Iso2::new(Vector2::new(0.2, 0.1), FRAC_PI_2)][case.t % 4];
        let on = c07::curve_samples(&curve, 14);
        let pts: Vec<Point2> = on.iter().enumerate().map(|(i, p)| initial.inverse() * (p + Vector2::new([0.04, -0.03, 0.02][i % 3], [0.03, 0.05, -0.04, 0.02][i % 4]))).collect();
        (3, Box::new(move |hist: &[Vec<f64>]| {
            let hs: Vec<[f64; 3]> = hist.iter().map(|x| [x[0], x[1], x[2]]).collect();
            let o = verif_observe_points_to_curve(&pts, &curve, &initial, &hs);
            (o.0, o.1, o.2)
        }))
    } else {
        let mesh = c07::mesh_ref(case.i);
        let initial = [Iso3::identity(), Iso3::new(Vector3::new(1.0, -2.0, 3.0), Vector3::z() * 2.5), Iso3::new(Vector3::new(-3.0, 0.5, 1.0), Vector3::new(1.0, 1.0, 1.0).normalize() * -2.2), Iso3::new(Vector3::new(0.2, 0.1, -0.4), Vector3::x() * 1.3)][case.t % 4];
        let on = c07::mesh_samples(&mesh);
        let pts: Vec<Point3> = on.iter().take(24).enumerate().map(|(i, p)| initial.inverse() * (p + Vector3::new([0.04, -0.03, 0.02][i % 3], [0.03, 0.05, -0.04, 0.02][i % 4], [0.05, -0.06][i % 2]))).collect();
        let mode_i = case.j;
        (6, Box::new(move |hist: &[Vec<f64>]| {
            let hs: Vec<[f64; 6]> = hist.iter().map(|x| [x[0], x[1], x[2], x[3], x[4], x[5]]).collect();
            let o = verif_observe_points_to_mesh(&pts, &mesh, &initial, if mode_i == 0 { DistMode::ToPlane } else { DistMode::ToPoint }, &hs);
            (o.0, o.1, o.2)
        }))
    };
    l.eval();
    let base = match guarded(|| obs(&[])) {
        Ok(b) => b,
        Err(e) => {
            l.check("problem observers return", "panic", false, mk, || e.clone());
            return;
        }
    };
    let x: Vec<f64> = (0..np).map(|i| base.0[i] + dx[i]).collect();
    let at = obs(&[x.clone()]);
    let n = at.1.len();
    l.bucket(if case.t % 4 == 0 { "assembled Jacobian at the identity pose" } else { "assembled Jacobian at a large rotation" });
    let mut worst = 0.0f64;
    let mut judged = 0;
    for i in 0..np {
        let mut xp = x.clone();
        let mut xm = x.clone();
        xp[i] += h;
        xm[i] -= h;
        let (rp, rm) = (obs(&[xp]).1, obs(&[xm]).1);
        for row in 0..n {
            // skip residual kinks (the closest element changes, or an absolute value crosses zero)
            if (rp[row] - 2.0 * at.1[row] + rm[row]).abs() > 1e-9 || at.1[row].abs() < 1e-3 {
                l.gray("residual kink in the assembled Jacobian check");
                continue;
            }
            let fd = (rp[row] - rm[row]) / (2.0 * h);
            let an = at.2[i * n + row];
            worst = worst.max((fd - an).abs());
            judged += 1;
        }
    }
    l.outcome(hash_of(&(case.k, case.t % 4, worst <= 1e-4)));
    l.check("the Jacobian assembled by the alignment problem is the derivative of its residuals", if case.k == 2 { "2D" } else if case.j == 0 { "3D plane" } else { "3D point" }, judged > 0 && worst <= 1e-4, mk, || format!("{} entries judged, worst |analytic - finite difference| = {:e}", judged, worst));
}

pub fn judge(case: &Case, l: &mut Local) {
    l.distinct(hash_of(&serde_json::to_string(case).unwrap()));
    if case.i == 3 && case.j == 9 && case.k == 1 {
        l.sample(|| serde_json::to_value(case).unwrap());
    }
    match case.kind.as_str() {
        "rm" => judge_rm(case, l),
        "rc3" => judge_rc3(case, l),
        "rc2" => judge_rc2(case, l),
        "jac3" => judge_jac3(case, l),
        "jac2" => judge_jac2(case, l),
        "handler" => judge_handler(case, l),
        "probjac" => judge_probjac(case, l),
        _ => {}
    }
}

pub fn cases(tier: Tier) -> Vec<Case> {
    let mut out = Vec::new();
    let n = euler_alphabet().len();
    let c = |kind: &str, i, j, k, t, rc| Case { kind: kind.into(), i, j, k, t, rc };
    for i in 0..n {
        for j in 0..n {
            for k in 0..n {
                out.push(c("rm", i, j, k, 0, 0));
                for t in 0..3 {
                    for rc in 0..3 {
                        out.push(c("rc3", i, j, k, t, rc));
                    }
                }
            }
        }
    }
    for i in 0..12 {
        for t in 0..3 {
            for rc in 0..3 {
                out.push(c("rc2", i, 0, 0, t, rc));
            }
        }
    }
    for i in 0..7 {
        for t in 0..3 {
            for rc in 0..3 {
                for j in (0..27).step_by(tier.pick(2, 1)) {
                    for k in (0..27).step_by(tier.pick(5, 2)) {
                        out.push(c("jac3", i, j, k, t, rc));
                    }
                }
                if i >= 5 {
                    continue;
                }
                for j in 0..9 {
                    for k in 0..9 {
                        out.push(c("jac2", i, j, k, t, rc));
                    }
                }
            }
        }
    }
    for shape in 0..3 {
        for t in 0..4 {
            for rc in 0..3 {
                out.push(c("probjac", shape, 0, 2, t, rc));
                if shape < 2 {
                    for mode in 0..2 {
                        out.push(c("probjac", shape, mode, 3, t, rc));
                    }
                }
            }
        }
    }
    for i in 0..3 {
        for j in 0..4 {
            for k in 0..2 {
                out.push(c("handler", i, j, k, 0, 0));
            }
        }
    }
    out
}

pub fn run(tier: Tier) -> i32 {
    let mut cx = Ctx::new("C08", tier, "exploration");
    cx.rule = "Euler alphabet {0, +-0.3, +-1.1, +-2.5, pi, +-pi/2, +-(pi/2 - 1e-9 / 1e-5 / 1e-4 / 1e-3)}: every triple for the rotation matrices, their derivatives and the Euler extraction; every triple x 3 translations (up to 1e3) x 3 rotation centres (up to 1e3 from the origin) for the parameter object , each followed by 3 parameter updates compared with the independent formula p -> rc_d + t + R(e)(p - rc); 2D: 12 angles x translations x centres; Jacobians: 5 poses x translations x centres x lattice test points x lattice surface points x 4 normals, every parameter index against central finite differences; ParamHandler: 2..4 bodies x every static index x with/without initial transforms. distinct = distinct cases".into();
    cx.bounds = json!({"euler_alphabet": euler_alphabet().len(), "translations": 3, "centres": 3, "fd_step": 1e-6});
    cx.require(&["pitch at or near gimbal lock", "pitch away from gimbal lock", "rotation centre far from the origin", "rotation centre near the origin", "2D parameter object", "offset parallel to the normal", "offset not parallel to the normal", "2D Jacobian probe", "parameter handler layout", "assembled Jacobian at the identity pose", "assembled Jacobian at a large rotation", "pose set with a pitch beyond a quarter turn", "point-to-point row for points microns apart"]);
    cx.assume("reproduction tolerance 1e-9*(1+|t|+|rc|); isometry<->parameter round trip judged at 1e-9*(1+|t|); Jacobian tolerance 1e-5*lever with central differences h=1e-6, residual kinks (|d| < 1e-3) skipped");
    let cs = cases(tier);
    let l = sweep(&cs, judge);
    cx.absorb(l);
    cx.finish()
}

pub fn replay(case: &Val) -> Local {
    let c: Case = serde_json::from_value(case.clone()).expect("case");
    let mut l = Local::new();
    judge(&c, &mut l);
    l
}
