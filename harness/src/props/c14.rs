//! C14 — mesh face selection is set algebra over a per-face predicate.
//! Explicit-state search over selections; every transition executed under the explored hash
//! iteration orders (deviation-bounded).
use crate::engine::*;
use crate::refmodel::*;
use engeom::common::{SelectOp, Selection};
use engeom::{Mesh, Point3, Vector3};
use serde::{Deserialize, Serialize};
use serde_json::json;
use std::collections::BTreeSet;

const MAX_DEV: usize = 2;
const N_MESHES: usize = 8;
const EXEC_CAP: usize = 50_000;

pub fn subject(which: usize) -> Mesh {
    match which {
        0 => {
            // tetrahedron
            let v = vec![Point3::new(0.0, 0.0, 0.0), Point3::new(2.0, 0.0, 0.0), Point3::new(0.0, 2.0, 0.0), Point3::new(0.0, 0.0, 2.0)];
            Mesh::new(v, vec![[0, 2, 1], [0, 1, 3], [0, 3, 2], [1, 2, 3]], false)
        }
        1 => {
            // "roof": two normals sharing vertices
            let v = vec![Point3::new(0.0, 0.0, 0.0), Point3::new(0.0, 1.0, 0.0), Point3::new(1.0, 0.0, 0.0), Point3::new(1.0, 1.0, 0.0), Point3::new(-1.0, 0.0, 1.0), Point3::new(-1.0, 1.0, 1.0)];
            Mesh::new(v, vec![[0, 2, 3], [0, 3, 1], [4, 0, 1], [4, 1, 5]], false)
        }
        6 => {
            // a 3x3-cell sheet lying 0.3 above the tilted reference plane and exactly parallel to it: every
            // face normal equals the reference normal up to the last bit
            let (c, s) = (TILT.cos(), TILT.sin());
            let n = Vector3::new(0.0, -s, c);
            let mut v = Vec::new();
            for i in 0..4 {
                for j in 0..4 {
                    let (u, w) = (-0.7 + 0.45 * i as f64, -0.4 + 0.37 * j as f64);
                    v.push(Point3::new(u, w * c, w * s) + n * 0.3);
                }
            }
            let mut f: Vec<[u32; 3]> = Vec::new();
            for i in 0..3u32 {
                for j in 0..3u32 {
                    let a = i * 4 + j;
                    f.push([a, a + 4, a + 5]);
                    f.push([a, a + 5, a + 1]);
                }
            }
            Mesh::new(v, f, false)
        }
        5 => {
            // unwelded (every face owns its vertices, as read from an STL file) and two-sided: faces 0 and 1 share
            // an edge geometrically but not by index, face 2 is the back of face 0 on coincident vertices
            let v = vec![
                Point3::new(0.0, 0.0, 0.0), Point3::new(1.0, 0.0, 0.0), Point3::new(1.0, 1.0, 0.0),
                Point3::new(0.0, 0.0, 0.0), Point3::new(1.0, 1.0, 0.0), Point3::new(0.0, 1.0, 0.5),
                Point3::new(0.0, 0.0, 0.0), Point3::new(1.0, 1.0, 0.0), Point3::new(1.0, 0.0, 0.0),
            ];
            Mesh::new(v, vec![[0, 1, 2], [3, 4, 5], [6, 7, 8]], false)
        }
        4 => {
            // the roof with every index triple rotated, so that the vertices near the references come last
            let v = vec![Point3::new(0.0, 0.0, 0.0), Point3::new(0.0, 1.0, 0.0), Point3::new(1.0, 0.0, 0.0), Point3::new(1.0, 1.0, 0.0), Point3::new(-1.0, 0.0, 1.0), Point3::new(-1.0, 1.0, 1.0)];
            Mesh::new(v, vec![[2, 3, 0], [3, 1, 0], [0, 1, 4], [5, 4, 1]], false)
        }
        7 => {
            // the same with the zero-area face listed FIRST: every other face comes after a face without a normal
            let v = vec![Point3::new(0.0, 0.0, 0.0), Point3::new(0.0, 1.0, 0.0), Point3::new(1.0, 0.0, 0.0), Point3::new(1.0, 1.0, 0.0), Point3::new(-1.0, 0.0, 1.0), Point3::new(-1.0, 1.0, 1.0), Point3::new(2.0, 0.0, 0.0)];
            Mesh::new(v, vec![[0, 2, 6], [0, 2, 3], [0, 3, 1], [4, 0, 1], [4, 1, 5]], false)
        }
        3 => {
            // the roof plus a zero-area face (three collinear vertices): it has no normal, so only the
            // distance part of a criterion can apply to it
            let v = vec![Point3::new(0.0, 0.0, 0.0), Point3::new(0.0, 1.0, 0.0), Point3::new(1.0, 0.0, 0.0), Point3::new(1.0, 1.0, 0.0), Point3::new(-1.0, 0.0, 1.0), Point3::new(-1.0, 1.0, 1.0), Point3::new(2.0, 0.0, 0.0)];
            Mesh::new(v, vec![[0, 2, 3], [0, 3, 1], [4, 0, 1], [4, 1, 5], [0, 2, 6]], false)
        }
        _ => {
            let v = vec![Point3::new(1.0, 0.0, 0.0), Point3::new(-1.0, 0.0, 0.0), Point3::new(0.0, 1.0, 0.0), Point3::new(0.0, -1.0, 0.0), Point3::new(0.0, 0.0, 1.0), Point3::new(0.0, 0.0, -1.0)];
            Mesh::new(v, vec![[0, 2, 4], [2, 1, 4], [1, 3, 4], [3, 0, 4], [2, 0, 5], [1, 2, 5], [3, 1, 5], [0, 3, 5]], false)
        }
    }
}

fn plane_ref(z: f64) -> Mesh {
    let rv = vec![Point3::new(-5.0, -5.0, z), Point3::new(5.0, -5.0, z), Point3::new(5.0, 5.0, z), Point3::new(-5.0, 5.0, z)];
    Mesh::new(rv, vec![[0, 1, 2], [0, 2, 3]], false)
}

/// A small square in z = 0: subject vertices beyond its border are near it only through its edge, with an
/// in-plane offset (which is what the planar tolerance limits)
const SMALL: [f64; 4] = [-0.25, 0.5, -0.25, 0.85];
fn small_ref() -> Mesh {
    let [x0, x1, y0, y1] = SMALL;
    let rv = vec![Point3::new(x0, y0, 0.0), Point3::new(x1, y0, 0.0), Point3::new(x1, y1, 0.0), Point3::new(x0, y1, 0.0)];
    Mesh::new(rv, vec![[0, 1, 2], [0, 2, 3]], false)
}

/// A large plane through the origin tilted by 0.4 rad about x: its normal is not axis aligned, so nothing about
/// the projection onto it is exact in floating point
const TILT: f64 = 0.4;
fn tilted_ref() -> Mesh {
    let (c, s) = (TILT.cos(), TILT.sin());
    let at = |u: f64, w: f64| Point3::new(u, w * c, w * s);
    Mesh::new(vec![at(-6.0, -6.0), at(6.0, -6.0), at(6.0, 6.0), at(-6.0, 6.0)], vec![[0, 1, 2], [0, 2, 3]], false)
}

/// Reference meshes: two large planes (unambiguous normal) and an offset copy of the subject
fn others(which: usize) -> Vec<Mesh> {
    let m = subject(which);
    let moved: Vec<Point3> = m.vertices().iter().map(|p| p + Vector3::new(0.05, 0.0, 0.1)).collect();
    vec![plane_ref(0.0), plane_ref(-0.6), Mesh::new(moved, m.faces().to_vec(), false), small_ref(), tilted_ref()]
}

#[derive(Clone, Debug, Serialize, Deserialize)]
pub enum Crit {
    Facing([f64; 3], f64),
    Near { other: usize, all: bool, dist: f64, planar: Option<f64>, angle: Option<f64> },
}

pub fn crits() -> Vec<Crit> {
    let mut c = Vec::new();
    // (the last two: a direction need not be a unit vector - the difference of two points 1e-11 apart, a lever of 3e5)
    for d in [[1.0, 0.0, 0.0], [-1.0, 0.0, 0.0], [0.0, 1.0, 0.0], [0.0, -1.0, 0.0], [0.0, 0.0, 1.0], [0.0, 0.0, -1.0], [1.0, 1.0, 1.0], [0.0, 0.0, 1e-11], [3e5, 0.0, 0.0]] {
        for a in [0.3, std::f64::consts::FRAC_PI_2, 2.0] {
            c.push(Crit::Facing(d, a));
        }
    }
    for other in 0..5 {
        for all in [true, false] {
            for dist in [0.1, 1.5] {
                for planar in [None, Some(0.2)] {
                    for angle in [None, Some(0.3), Some(1.0)] {
                        c.push(Crit::Near { other, all, dist, planar, angle });
                    }
                }
            }
        }
    }
    c
}

fn op_of(i: usize) -> SelectOp {
    [SelectOp::Add, SelectOp::Remove, SelectOp::Keep][i]
}

fn apply(mesh: &Mesh, oth: &[Mesh], start: &BTreeSet<usize>, crit: &Crit, op: SelectOp) -> BTreeSet<usize> {
    let sel = mesh.face_select(Selection::Indices(start.iter().cloned().collect()));
    let out = match crit {
        Crit::Facing(d, a) => sel.facing(&Vector3::new(d[0], d[1], d[2]), *a, op),
        Crit::Near { other, all, dist, planar, angle } => sel.near_mesh(&oth[*other], *all, *dist, *planar, *angle, op),
    };
    out.collect().into_iter().collect()
}

/// Several steps on one filter object (whatever the filter carries from one step to the next is carried)
fn apply_chain(mesh: &Mesh, oth: &[Mesh], start: &BTreeSet<usize>, steps: &[(&Crit, SelectOp)]) -> BTreeSet<usize> {
    let mut sel = mesh.face_select(Selection::Indices(start.iter().cloned().collect()));
    for (crit, op) in steps {
        sel = match crit {
            Crit::Facing(d, a) => sel.facing(&Vector3::new(d[0], d[1], d[2]), *a, *op),
            Crit::Near { other, all, dist, planar, angle } => sel.near_mesh(&oth[*other], *all, *dist, *planar, *angle, *op),
        };
    }
    sel.collect().into_iter().collect()
}

fn algebra(s: &BTreeSet<usize>, p: &BTreeSet<usize>, op: SelectOp) -> BTreeSet<usize> {
    match op {
        SelectOp::Add => s.union(p).cloned().collect(),
        SelectOp::Remove => s.difference(p).cloned().collect(),
        SelectOp::Keep => s.intersection(p).cloned().collect(),
    }
}

/// Criteria used for chains on one filter object: steps that share vertices but differ in reference mesh,
/// distance or tolerances, mixed with facing steps
fn chain_menu(cs: &[Crit]) -> Vec<usize> {
    cs.iter()
        .enumerate()
        .filter(|(_, c)| match c {
            Crit::Facing(d, a) => (*d == [0.0, 0.0, 1.0] || *d == [1.0, 1.0, 1.0]) && *a == std::f64::consts::FRAC_PI_2,
            Crit::Near { other, all, dist: _, planar, angle } => [0usize, 1, 4].contains(other) && *all && planar.is_none() && (angle.is_none() || *angle == Some(0.3)),
        })
        .map(|(i, _)| i)
        .collect()
}

/// Independent geometric predicate, `None` where the reference normal is ambiguous
fn geometric(mesh: &Mesh, oth: &[Mesh], f: usize, crit: &Crit) -> Option<bool> {
    let v = mesh.vertices();
    let t = mesh.faces()[f];
    let (a, b, c) = (v[t[0] as usize], v[t[1] as usize], v[t[2] as usize]);
    let n = tri_normal(&a, &b, &c);
    match crit {
        Crit::Facing(d, ang) => {
            // a face without area has no normal and faces nothing
            let n = match n {
                Some(n) => n,
                None => return Some(false),
            };
            let dv = Vector3::new(d[0], d[1], d[2]);
            let x = n.angle(&dv);
            if (x - ang).abs() < 1e-9 {
                None
            } else {
                Some(x < *ang)
            }
        }
        Crit::Near { other, all, dist, planar, angle } => {
            if *other == 2 {
                return None;
            }
            let rn = if *other == 4 { Vector3::new(0.0, -TILT.sin(), TILT.cos()) } else { Vector3::new(0.0, 0.0, 1.0) };
            let mut oks = Vec::new();
            for p in [a, b, c] {
                // closest point of the reference: orthogonal projection onto the large planes, clamped to the
                // border of the small square
                let (cp, inside) = if *other == 4 {
                    (p - rn * rn.dot(&p.coords), true)
                } else if *other == 3 {
                    let [x0, x1, y0, y1] = SMALL;
                    (Point3::new(p.x.clamp(x0, x1), p.y.clamp(y0, y1), 0.0), true)
                } else {
                    let z = if *other == 0 { 0.0 } else { -0.6 };
                    (Point3::new(p.x, p.y, z), p.x.abs() <= 5.0 && p.y.abs() <= 5.0)
                };
                let d = (p - cp).norm();
                if (d - dist).abs() < 1e-9 {
                    return None;
                }
                let mut ok = d <= *dist && inside;
                if let Some(pt) = planar {
                    let off = p - cp;
                    let in_plane = (off - rn * off.dot(&rn)).norm();
                    if (in_plane - pt).abs() < 1e-9 {
                        return None;
                    }
                    ok &= in_plane <= *pt;
                }
                if let Some(at) = angle {
                    // a face without a normal has no angle to judge
                    let x = n?.angle(&rn);
                    if (x - at).abs() < 1e-9 {
                        return None;
                    }
                    ok &= x <= *at;
                }
                oks.push(ok);
            }
            Some(if *all { oks.iter().all(|x| *x) } else { oks.iter().any(|x| *x) })
        }
    }
}

#[derive(Clone, Serialize, Deserialize, Debug)]
pub struct State {
    pub mesh: usize,
    pub sel: Vec<usize>,
}

#[derive(Clone, Serialize, Deserialize, Debug)]
pub struct Case {
    pub state: State,
    pub crit: Option<Crit>,
    pub op: usize,
}

struct Tables {
    meshes: Vec<Mesh>,
    others: Vec<Vec<Mesh>>,
    crits: Vec<Crit>,
    /// pred[mesh][crit] = faces satisfying the criterion, computed by the code itself in the
    /// canonical context (singleton selection, Keep)
    pred: Vec<Vec<BTreeSet<usize>>>,
}

fn tables() -> Tables {
    let meshes: Vec<Mesh> = (0..N_MESHES).map(subject).collect();
    let oth: Vec<Vec<Mesh>> = (0..N_MESHES).map(others).collect();
    let cs = crits();
    let mut pred = Vec::new();
    for (mi, m) in meshes.iter().enumerate() {
        let mut row = Vec::new();
        for c in cs.iter() {
            let mut p = BTreeSet::new();
            for f in 0..m.faces().len() {
                let s: BTreeSet<usize> = [f].into_iter().collect();
                if apply(m, &oth[mi], &s, c, SelectOp::Keep).contains(&f) {
                    p.insert(f);
                }
            }
            row.push(p);
        }
        pred.push(row);
    }
    Tables { meshes, others: oth, crits: cs, pred }
}

fn expand(t: &Tables, st: &State, depth: usize, l: &mut Local, out: &mut Vec<State>) {
    let mesh = &t.meshes[st.mesh];
    let oth = &t.others[st.mesh];
    let nf = mesh.faces().len();
    let s: BTreeSet<usize> = st.sel.iter().cloned().collect();
    l.states += 1;
    l.distinct(hash_of(&(st.mesh, &st.sel)));
    l.sample(|| json!({"state": st, "depth": depth}));
    if depth > 0 {
        l.bucket("non-initial selection");
    }
    l.bucket(if s.is_empty() { "empty selection" } else if s.len() == nf { "full selection" } else { "partial selection" });

    // the mesh built from the selection, under every explored order
    {
        let mk = || serde_json::to_value(Case { state: st.clone(), crit: None, op: 0 }).unwrap();
        let v = mesh.vertices();
        let mut want_tris: Vec<[[u64; 3]; 3]> = s
            .iter()
            .map(|f| {
                let tr = mesh.faces()[*f];
                [0, 1, 2].map(|k| {
                    let p = v[tr[k] as usize];
                    [p.x.to_bits(), p.y.to_bits(), p.z.to_bits()]
                })
            })
            .collect();
        want_tris.sort();
        let used: BTreeSet<u32> = s.iter().flat_map(|f| mesh.faces()[*f]).collect();
        let want = format!("{:?} {}", want_tris, used.len());
        let (runs, outs, capped) = explore_choices(MAX_DEV, EXEC_CAP, || {
            let sel = mesh.face_select(Selection::Indices(st.sel.clone()));
            match guarded(|| sel.create_mesh()) {
                Ok(m) => {
                    let mv = m.vertices();
                    let mut tris: Vec<[[u64; 3]; 3]> = m
                        .faces()
                        .iter()
                        .map(|tr| {
                            [0, 1, 2].map(|k| {
                                let p = mv[tr[k] as usize];
                                [p.x.to_bits(), p.y.to_bits(), p.z.to_bits()]
                            })
                        })
                        .collect();
                    tris.sort();
                    format!("{:?} {}", tris, mv.len())
                }
                Err(e) => format!("PANIC {}", e),
            }
        });
        l.evals_n(runs as u64);
        l.transitions += runs as u64;
        if capped {
            l.cap("create_mesh exploration capped".into());
        }
        if !s.is_empty() {
            for (o, script) in outs.iter() {
                l.check("mesh from a selection has exactly the selected triangles, same coordinates and winding, only used vertices", "", *o == want, mk, || {
                    format!("selection {:?}: got {} (script {:?})", st.sel, &o[..o.len().min(200)], script)
                });
            }
        }
    }

    for (ci, c) in t.crits.iter().enumerate() {
        let p = &t.pred[st.mesh][ci];
        for opi in 0..3 {
            let op = op_of(opi);
            let mk = || serde_json::to_value(Case { state: st.clone(), crit: Some(c.clone()), op: opi }).unwrap();
            let want: BTreeSet<usize> = match op {
                SelectOp::Add => s.union(p).cloned().collect(),
                SelectOp::Remove => s.difference(p).cloned().collect(),
                SelectOp::Keep => s.intersection(p).cloned().collect(),
            };
            let wants = format!("{:?}", want);
            let (runs, outs, capped) = explore_choices(MAX_DEV, EXEC_CAP, || match guarded(|| apply(mesh, oth, &s, c, op)) {
                Ok(r) => format!("{:?}", r),
                Err(e) => format!("PANIC {}", e),
            });
            l.evals_n(runs as u64);
            l.transitions += runs as u64;
            if capped {
                l.cap(format!("exploration capped at {} executions", EXEC_CAP));
            }
            l.bucket(match c {
                Crit::Facing(..) => "facing criterion",
                Crit::Near { angle: Some(_), .. } => "near-mesh criterion with angle tolerance",
                Crit::Near { .. } => "near-mesh criterion without angle tolerance",
            });
            for (o, script) in outs.iter() {
                l.outcome(hash_of(&(o.len().min(30), opi)));
                l.check(
                    ["Add yields the union with the faces satisfying the criterion", "Remove yields the difference", "Keep yields the intersection"][opi],
                    match c {
                        Crit::Facing(..) => "facing",
                        Crit::Near { .. } => "near",
                    },
                    *o == wants,
                    mk,
                    || format!("mesh {} selection {:?} {:?}: got {} expected {} (script {:?})", st.mesh, st.sel, c, o, wants, script),
                );
            }
            l.check("result does not depend on the evaluation order", "", outs.len() == 1, mk, || format!("selection {:?} {:?} op {}: {:?}", st.sel, c, opi, outs.keys().collect::<Vec<_>>()));
            out.push(State { mesh: st.mesh, sel: want.into_iter().collect() });
        }
    }
}

const UNITS: [f64; 2] = [1e-3, 1e3];

/// One face, one near-mesh criterion, everything multiplied by a length unit: the predicate computed by the
/// code must be the one it computes at unit 1. Recorded with `op` = 10 + unit index.
fn judge_unit(t: &Tables, mi: usize, ci: usize, f: usize, ui: usize, l: &mut Local) {
    let u = UNITS[ui];
    let c = &t.crits[ci];
    let cu = match c {
        Crit::Facing(..) => return,
        Crit::Near { other, all, dist, planar, angle } => Crit::Near { other: *other, all: *all, dist: dist * u, planar: planar.map(|x| x * u), angle: *angle },
    };
    let m = &t.meshes[mi];
    l.eval();
    if geometric(m, &t.others[mi], f, c).is_none() {
        l.gray("unit change on a tolerance boundary or with an ambiguous reference normal");
        return;
    }
    let scaled = |m: &Mesh| Mesh::new(m.vertices().iter().map(|p| Point3::from(p.coords * u)).collect(), m.faces().to_vec(), false);
    let mu = scaled(m);
    let ou: Vec<Mesh> = t.others[mi].iter().map(|o| scaled(o)).collect();
    l.bucket("near-mesh criterion at another length unit");
    let s1: BTreeSet<usize> = [f].into_iter().collect();
    let st = State { mesh: mi, sel: vec![f] };
    let mk = || serde_json::to_value(Case { state: st.clone(), crit: Some(c.clone()), op: 10 + ui }).unwrap();
    match guarded(|| apply(&mu, &ou, &s1, &cu, SelectOp::Keep).contains(&f)) {
        Ok(got) => {
            l.check("the near-mesh predicate does not depend on the length unit", "", got == t.pred[mi][ci].contains(&f), mk, || format!("unit {:e}: mesh {} face {} {:?}: {} against {} at unit 1", u, mi, f, c, got, t.pred[mi][ci].contains(&f)));
        }
        Err(e) => {
            l.check("the near-mesh predicate does not depend on the length unit", "panic", false, mk, || e.clone());
        }
    }
}

pub fn run(tier: Tier) -> i32 {
    let mut cx = Ctx::new("C14", tier, "model_checking");
    cx.rule = "explicit-state search over selections (bit sets over the faces of a tetrahedron, a two-normal 'roof', an octahedron, the roof with an extra zero-area face (listed last, and listed first), the roof with rotated index triples, an unwelded two-sided sheet and a sheet exactly parallel to the tilted reference): initial states none, all, every singleton, every pair; actions {Add, Remove, Keep} x {facing: 9 directions (two of them far from unit length) x 3 angles; near_mesh: 5 reference meshes (two large planes, an offset copy, a small square whose border the subject overhangs, a tilted plane) x all/any vertices x 2 distances x planar None/0.2 x angle None/0.3/1.0}; every transition (and the mesh built from every state) is executed under all hash-set iteration orders with at most 2 departures from the default order; the per-face predicate is computed (i) independently from the geometry for the plane references and (ii) by the code itself in the canonical context (singleton selection, Keep); chains of two and three steps on one filter object (12 criteria squared x 9 operation pairs from the empty, full and singleton selections) are compared with the set algebra of those predicates; every near-mesh predicate is recomputed with subject, references, distance and planar tolerance in millimetres and in kilometres and must not change. distinct = distinct (mesh, selection) states".into();
    let t = tables();
    cx.bounds = json!({"max_deviations": MAX_DEV, "criteria": t.crits.len(), "meshes": 3, "depth": "closure", "execution_cap": EXEC_CAP});
    cx.require(&["non-initial selection", "empty selection", "full selection", "partial selection", "facing criterion", "near-mesh criterion with angle tolerance", "near-mesh criterion without angle tolerance", "independent predicate agrees", "two steps on one filter object", "near-mesh criterion at another length unit"]);
    cx.assume("the canonical-context predicate is cross-checked against an independent geometric computation wherever the reference normal is unambiguous (plane references)");

    // (i) independent predicate vs canonical-context predicate
    let mut l0 = Local::new();
    for (mi, m) in t.meshes.iter().enumerate() {
        for (ci, c) in t.crits.iter().enumerate() {
            for f in 0..m.faces().len() {
                l0.eval();
                match geometric(m, &t.others[mi], f, c) {
                    None => l0.gray("predicate on a tolerance boundary or with an ambiguous reference normal"),
                    Some(g) => {
                        l0.bucket("independent predicate agrees");
                        let st = State { mesh: mi, sel: vec![f] };
                        l0.check("per-face predicate equals the independent geometric computation", "", g == t.pred[mi][ci].contains(&f), || serde_json::to_value(Case { state: st.clone(), crit: Some(c.clone()), op: 2 }).unwrap(), || {
                            format!("mesh {} face {} {:?}: code {} geometry {}", mi, f, c, t.pred[mi][ci].contains(&f), g)
                        });
                    }
                }
            }
        }
    }
    cx.absorb(l0);

    // (iii) the same subject, references, distances and planar tolerances in millimetres and in kilometres: the
    // per-face predicate is the same (cases that sit on a tolerance boundary at unit 1 are not judged)
    let mut lu = Local::new();
    for ui in 0..UNITS.len() {
        for mi in 0..t.meshes.len() {
            for ci in 0..t.crits.len() {
                for f in 0..t.meshes[mi].faces().len() {
                    judge_unit(&t, mi, ci, f, ui, &mut lu);
                }
            }
        }
    }
    cx.absorb(lu);

    // (ii) chains of two and three steps on ONE filter object, from the empty, the full and every singleton
    // selection: the result is the set algebra of the per-face predicates, step by step
    let menu = chain_menu(&t.crits);
    let mut chain_items: Vec<(usize, Vec<usize>, usize, usize)> = Vec::new();
    for mi in 0..N_MESHES {
        let nf = t.meshes[mi].faces().len();
        let mut starts: Vec<Vec<usize>> = vec![vec![], (0..nf).collect()];
        if nf <= 8 {
            for a in 0..nf {
                starts.push(vec![a]);
            }
        }
        for st in starts {
            for a in menu.iter() {
                for b in menu.iter() {
                    chain_items.push((mi, st.clone(), *a, *b));
                }
            }
        }
    }
    let lc = sweep(&chain_items, |item: &(usize, Vec<usize>, usize, usize), l: &mut Local| {
        let (mi, st, a, b) = item;
        let (mesh, oth) = (&t.meshes[*mi], &t.others[*mi]);
        let s: BTreeSet<usize> = st.iter().cloned().collect();
        let (ca, cb) = (&t.crits[*a], &t.crits[*b]);
        let (pa, pb) = (&t.pred[*mi][*a], &t.pred[*mi][*b]);
        for oa in 0..3 {
            for ob in 0..3 {
                l.eval();
                l.transitions += 1;
                l.bucket("two steps on one filter object");
                let want = algebra(&algebra(&s, pa, op_of(oa)), pb, op_of(ob));
                let mk = || json!({"chain": {"mesh": mi, "start": st, "steps": [[a, oa], [b, ob]]}});
                match guarded(|| apply_chain(mesh, oth, &s, &[(ca, op_of(oa)), (cb, op_of(ob))])) {
                    Ok(got) => {
                        l.outcome(hash_of(&(got.len(), oa, ob, 5u8)));
                        l.check("steps chained on one filter object give the set algebra of their per-face predicates", "", got == want, mk, || format!("mesh {} start {:?}: {:?} {} then {:?} {}: got {:?} expected {:?}", mi, st, ca, oa, cb, ob, got, want));
                    }
                    Err(e) => {
                        l.check("steps chained on one filter object give the set algebra of their per-face predicates", "panic", false, mk, || e.clone());
                    }
                }
            }
        }
        // a third step returning to the first criterion
        l.eval();
        let want3 = algebra(&algebra(&algebra(&s, pa, SelectOp::Add), pb, SelectOp::Remove), pa, SelectOp::Keep);
        if let Ok(got3) = guarded(|| apply_chain(mesh, oth, &s, &[(ca, SelectOp::Add), (cb, SelectOp::Remove), (ca, SelectOp::Keep)])) {
            let mk = || json!({"chain": {"mesh": mi, "start": st, "steps": [[a, 0], [b, 1], [a, 2]]}});
            l.check("steps chained on one filter object give the set algebra of their per-face predicates", "three", got3 == want3, mk, || format!("mesh {} start {:?}: got {:?} expected {:?}", mi, st, got3, want3));
        }
    });
    cx.absorb(lc);

    let mut init = Vec::new();
    for mi in 0..N_MESHES {
        let nf = t.meshes[mi].faces().len();
        if tier == Tier::Quick && mi == 2 {
            // the octahedron's closure is explored in the thorough tier; quick starts from fewer states
            init.push(State { mesh: mi, sel: vec![] });
            init.push(State { mesh: mi, sel: (0..nf).collect() });
            continue;
        }
        init.push(State { mesh: mi, sel: vec![] });
        init.push(State { mesh: mi, sel: (0..nf).collect() });
        for a in 0..nf {
            init.push(State { mesh: mi, sel: vec![a] });
            if mi == 6 {
                // the 18-face sheet starts from the empty, full and single-face selections only
                continue;
            }
            for b in a + 1..nf {
                init.push(State { mesh: mi, sel: vec![a, b] });
            }
        }
    }
    let depth = tier.pick(2, 64);
    let (l, states, _e, reached, capped) = bfs_par(init, |s| (s.mesh, s.sel.clone()), |s, d, l, o| expand(&t, s, d, l, o), depth, 100_000);
    let tr = l.transitions;
    cx.absorb(l);
    cx.acc.states = states;
    cx.acc.transitions = tr;
    cx.extra.insert("depth_reached".into(), json!(reached));
    cx.extra.insert("closure_reached".into(), json!(reached < depth));
    if capped {
        cx.acc.cap("state cap reached".into());
    }
    cx.finish()
}

pub fn replay(case: &Val) -> Local {
    let t = tables();
    let mut l = Local::new();
    if let Some(ch) = case.get("chain") {
        // a recorded chain on one filter object: mesh, start selection, [criterion index, operation] steps
        let mi = ch["mesh"].as_u64().unwrap_or(0) as usize;
        let st: BTreeSet<usize> = ch["start"].as_array().map(|a| a.iter().filter_map(|x| x.as_u64()).map(|x| x as usize).collect()).unwrap_or_default();
        let steps: Vec<(usize, usize)> = ch["steps"].as_array().map(|a| a.iter().map(|p| (p[0].as_u64().unwrap_or(0) as usize, p[1].as_u64().unwrap_or(0) as usize)).collect()).unwrap_or_default();
        let mut want = st.clone();
        for (ci, oi) in steps.iter() {
            want = algebra(&want, &t.pred[mi][*ci], op_of(*oi));
        }
        let real: Vec<(&Crit, SelectOp)> = steps.iter().map(|(ci, oi)| (&t.crits[*ci], op_of(*oi))).collect();
        let got = guarded(|| apply_chain(&t.meshes[mi], &t.others[mi], &st, &real));
        l.eval();
        l.check("steps chained on one filter object give the set algebra of their per-face predicates", "", got.as_ref().ok() == Some(&want), || case.clone(), || format!("got {:?} expected {:?}", got, want));
        return l;
    }
    let c: Case = serde_json::from_value(case.clone()).expect("case");
    if c.op >= 10 {
        // a recorded unit-change case: one face, one criterion, unit index op - 10
        if let (Some(cr), Some(f)) = (&c.crit, c.state.sel.first()) {
            let key = format!("{:?}", cr);
            if let Some(ci) = t.crits.iter().position(|x| format!("{:?}", x) == key) {
                judge_unit(&t, c.state.mesh, ci, *f, (c.op - 10).min(UNITS.len() - 1), &mut l);
            }
        }
        return l;
    }
    let mut out = Vec::new();
    expand(&t, &c.state, 0, &mut l, &mut out);
    l
}
