//! C01 — curve stations are consistent with arc length.
//! Exhaustive sweep: lattice vertex sequences x closure x scale x tolerance x critical lengths.
use crate::engine::*;
use crate::gen;
use engeom::common::Resample;
use engeom::{Curve2, Curve3, Point2, Point3};
use serde::{Deserialize, Serialize};
use serde_json::json;

type P = [f64; 3];

fn sub(a: &P, b: &P) -> P {
    [a[0] - b[0], a[1] - b[1], a[2] - b[2]]
}
fn add(a: &P, b: &P) -> P {
    [a[0] + b[0], a[1] + b[1], a[2] + b[2]]
}
fn mul(a: &P, s: f64) -> P {
    [a[0] * s, a[1] * s, a[2] * s]
}
fn norm(a: &P) -> f64 {
    (a[0] * a[0] + a[1] * a[1] + a[2] * a[2]).sqrt()
}
fn dist(a: &P, b: &P) -> f64 {
    norm(&sub(a, b))
}
fn unit(a: &P) -> P {
    mul(a, 1.0 / norm(a))
}

pub struct StationObs {
    pub point: P,
    pub dir: P,
    pub index: usize,
    pub fraction: f64,
    pub length_along: f64,
    pub normal: Option<P>,
    /// (point, length-along) of the stations reached by `at_index()` and `at_next_index()`
    pub nav_index: Option<(P, f64)>,
    pub nav_next: Option<(P, f64)>,
}

pub trait CurveLike {
    fn verts(&self) -> Vec<P>;
    fn stored_lengths(&self) -> Vec<f64>;
    fn total(&self) -> f64;
    fn closed(&self) -> bool;
    fn is_2d(&self) -> bool;
    fn st_at_length(&self, l: f64) -> Option<StationObs>;
    fn st_at_fraction(&self, f: f64) -> Option<StationObs>;
    fn st_iter(&self) -> Vec<StationObs>;
    /// the vertex iterator driven in other ways than a plain walk: (label, vertex lengths met, expected indices)
    fn st_iter_walks(&self) -> Vec<(&'static str, Vec<f64>, Vec<usize>)>;
    fn st_front(&self) -> StationObs;
    fn st_back(&self) -> StationObs;
}

fn obs2(s: &engeom::CurveStation2) -> StationObs {
    let p = s.point();
    let d = s.direction();
    let n = s.normal();
    StationObs {
        point: [p.x, p.y, 0.0],
        dir: [d.x, d.y, 0.0],
        index: s.index(),
        fraction: s.fraction(),
        length_along: s.length_along(),
        normal: Some([n.x, n.y, 0.0]),
        nav_index: guarded(|| s.at_index()).ok().map(|t| ([t.point().x, t.point().y, 0.0], t.length_along())),
        nav_next: guarded(|| s.at_next_index()).ok().map(|t| ([t.point().x, t.point().y, 0.0], t.length_along())),
    }
}

fn obs3(s: &engeom::CurveStation3) -> StationObs {
    let p = s.point();
    let d = s.direction();
    StationObs {
        point: [p.x, p.y, p.z],
        dir: [d.x, d.y, d.z],
        index: s.index(),
        fraction: s.fraction(),
        length_along: s.length_along(),
        normal: None,
        nav_index: guarded(|| s.at_index()).ok().map(|t| ([t.point().x, t.point().y, t.point().z], t.length_along())),
        nav_next: None,
    }
}

impl CurveLike for Curve2 {
    fn verts(&self) -> Vec<P> {
        self.points().iter().map(|p| [p.x, p.y, 0.0]).collect()
    }
    fn stored_lengths(&self) -> Vec<f64> {
        self.lengths().clone()
    }
    fn total(&self) -> f64 {
        self.length()
    }
    fn closed(&self) -> bool {
        self.is_closed()
    }
    fn is_2d(&self) -> bool {
        true
    }
    fn st_at_length(&self, l: f64) -> Option<StationObs> {
        self.at_length(l).map(|s| obs2(&s))
    }
    fn st_at_fraction(&self, f: f64) -> Option<StationObs> {
        self.at_fraction(f).map(|s| obs2(&s))
    }
    fn st_iter(&self) -> Vec<StationObs> {
        self.iter().map(|s| obs2(&s)).collect()
    }
    fn st_iter_walks(&self) -> Vec<(&'static str, Vec<f64>, Vec<usize>)> {
        let n = self.count();
        let cap = n + 4;
        let mut out = Vec::new();
        // two steps, then a jump, then the rest
        let mut it = self.iter();
        let mut a: Vec<f64> = Vec::new();
        a.extend(it.next().map(|s| s.length_along()));
        a.extend(it.next().map(|s| s.length_along()));
        a.extend(it.nth(1).map(|s| s.length_along()));
        a.extend(it.take(cap).map(|s| s.length_along()));
        out.push(("two steps, nth(1), rest", a, (0..n).filter(|i| *i != 2).collect()));
        out.push(("every second vertex", self.iter().step_by(2).take(cap).map(|s| s.length_along()).collect(), (0..n).step_by(2).collect()));
        out.push(("skipping two", self.iter().skip(2).take(cap).map(|s| s.length_along()).collect(), (2..n).collect()));
        out.push(("last only", self.iter().last().map(|s| s.length_along()).into_iter().collect(), vec![n - 1]));
        out
    }

    fn st_front(&self) -> StationObs {
        obs2(&self.at_front())
    }
    fn st_back(&self) -> StationObs {
        obs2(&self.at_back())
    }
}

impl CurveLike for Curve3 {
    fn verts(&self) -> Vec<P> {
        self.points().iter().map(|p| [p.x, p.y, p.z]).collect()
    }
    fn stored_lengths(&self) -> Vec<f64> {
        self.lengths().to_vec()
    }
    fn total(&self) -> f64 {
        self.length()
    }
    fn closed(&self) -> bool {
        false
    }
    fn is_2d(&self) -> bool {
        false
    }
    fn st_at_length(&self, l: f64) -> Option<StationObs> {
        self.at_length(l).map(|s| obs3(&s))
    }
    fn st_at_fraction(&self, f: f64) -> Option<StationObs> {
        self.at_fraction(f).map(|s| obs3(&s))
    }
    fn st_iter(&self) -> Vec<StationObs> {
        self.iter().map(|s| obs3(&s)).collect()
    }
    fn st_iter_walks(&self) -> Vec<(&'static str, Vec<f64>, Vec<usize>)> {
        let n = self.count();
        let cap = n + 4;
        let mut out = Vec::new();
        // two steps, then a jump, then the rest
        let mut it = self.iter();
        let mut a: Vec<f64> = Vec::new();
        a.extend(it.next().map(|s| s.length_along()));
        a.extend(it.next().map(|s| s.length_along()));
        a.extend(it.nth(1).map(|s| s.length_along()));
        a.extend(it.take(cap).map(|s| s.length_along()));
        out.push(("two steps, nth(1), rest", a, (0..n).filter(|i| *i != 2).collect()));
        out.push(("every second vertex", self.iter().step_by(2).take(cap).map(|s| s.length_along()).collect(), (0..n).step_by(2).collect()));
        out.push(("skipping two", self.iter().skip(2).take(cap).map(|s| s.length_along()).collect(), (2..n).collect()));
        out.push(("last only", self.iter().last().map(|s| s.length_along()).into_iter().collect(), vec![n - 1]));
        out
    }

    fn st_front(&self) -> StationObs {
        obs3(&self.at_front())
    }
    fn st_back(&self) -> StationObs {
        obs3(&self.at_back())
    }
}

#[derive(Serialize, Deserialize, Clone, Debug)]
pub struct Case {
    pub dim: u8,
    pub verts: Vec<Vec<i32>>,
    pub force_closed: bool,
    pub scale: f64,
    pub tol: f64,
    /// "root" or the operation that derives the judged curve from the root
    pub derived: String,
}

fn brute_dist(v: &[P], p: &P) -> f64 {
    let mut best = f64::MAX;
    for i in 0..v.len() - 1 {
        let ab = sub(&v[i + 1], &v[i]);
        let l2 = ab[0] * ab[0] + ab[1] * ab[1] + ab[2] * ab[2];
        let ap = sub(p, &v[i]);
        let t = if l2 > 0.0 {
            ((ap[0] * ab[0] + ap[1] * ab[1] + ap[2] * ab[2]) / l2).clamp(0.0, 1.0)
        } else {
            0.0
        };
        best = best.min(dist(&add(&v[i], &mul(&ab, t)), p));
    }
    best
}

/// The direction the statement prescribes at vertex i, `None` where it is undefined (the two
/// adjacent directions cancel)
fn vertex_dir(v: &[P], i: usize, closed: bool, is_2d: bool) -> Option<P> {
    let n = v.len();
    let e = |k: usize| unit(&sub(&v[k + 1], &v[k]));
    if is_2d {
        if closed && (i == 0 || i == n - 1) {
            let s = add(&e(0), &e(n - 2));
            if norm(&s) < 1e-9 {
                None
            } else {
                Some(unit(&s))
            }
        } else if i == 0 {
            Some(e(0))
        } else if i == n - 1 {
            Some(e(n - 2))
        } else {
            let s = add(&e(i - 1), &e(i));
            if norm(&s) < 1e-9 {
                None
            } else {
                Some(unit(&s))
            }
        }
    } else if i == n - 1 {
        Some(e(n - 2))
    } else {
        Some(e(i))
    }
}

/// The station oracle applied to one curve. `ext` is the coordinate extent used to scale tolerances.
pub fn judge_curve(c: &dyn CurveLike, ext: f64, tol: f64, case: &dyn Fn() -> Val, l: &mut Local) {
    let v = c.verts();
    let n = v.len();
    let lens = c.stored_lengths();
    let big_l = c.total();
    let closed = c.closed();
    let is_2d = c.is_2d();
    let eps_p = 1e-9 * ext;
    let eps_l = 16.0 * f64::EPSILON * big_l.abs() + 1e-300;

    // --- cumulative lengths
    let mut sum = 0.0;
    let mut ok = lens.len() == n && lens[0] == 0.0;
    if ok {
        for i in 0..n - 1 {
            sum += dist(&v[i], &v[i + 1]);
            ok &= lens[i + 1] >= lens[i];
            ok &= (lens[i + 1] - sum).abs() <= 1e-12 * sum;
        }
        ok &= big_l == lens[n - 1];
    }
    l.eval();
    l.check("cumulative lengths", "", ok, case, || {
        format!("lengths {:?} vs edge sum {} length() {}", lens, sum, big_l)
    });
    if !ok {
        return;
    }

    // --- critical lengths
    let mut crit: Vec<(f64, &'static str)> = Vec::new();
    let mut push_all = |x: f64, tag: &'static str, crit: &mut Vec<(f64, &'static str)>| {
        crit.push((x, tag));
        crit.push((x.next_up(), "ulp-neighbour"));
        crit.push((x.next_down(), "ulp-neighbour"));
        crit.push((x + 2.0 * tol, "tol-neighbour"));
        crit.push((x - 2.0 * tol, "tol-neighbour"));
        crit.push((x + tol / 2.0, "tol-neighbour"));
        crit.push((x - tol / 2.0, "tol-neighbour"));
    };
    for i in 0..n {
        push_all(lens[i], "vertex-hit", &mut crit);
        if i + 1 < n {
            push_all(0.5 * (lens[i] + lens[i + 1]), "mid-edge", &mut crit);
        }
    }
    for x in [-0.0, -1e-300, -1.0 * ext, big_l * (1.0 + 1e-15), big_l + ext, f64::INFINITY, f64::NEG_INFINITY] {
        crit.push((x, "extreme"));
    }

    for (x, tag) in crit {
        l.eval();
        let got = match guarded(|| c.st_at_length(x)) {
            Ok(g) => g,
            Err(msg) => {
                l.check("at_length returns", "panic", false, case, || format!("l={:e}: panic {}", x, msg));
                continue;
            }
        };
        let in_range = x >= 0.0 && x <= big_l;
        if !in_range {
            l.bucket("out-of-range query");
            l.check("out of range yields no station", "", got.is_none(), case, || {
                format!("l={:e} (L={:e}) returned a station", x, big_l)
            });
            continue;
        }
        l.bucket(tag);
        let s = match got {
            Some(s) => s,
            None => {
                l.check("in range yields a station", "", false, case, || format!("l={:e} (L={:e}) -> None", x, big_l));
                continue;
            }
        };
        l.outcome(hash_of(&(s.index.min(6), s.fraction == 0.0, s.fraction == 1.0, closed, n.min(6))));
        let idx_ok = s.index + 1 < n && (0.0..=1.0).contains(&s.fraction);
        l.check("index and fraction in range", "", idx_ok, case, || {
            format!("l={:e}: index {} fraction {} n {}", x, s.index, s.fraction, n)
        });
        if !idx_ok {
            continue;
        }
        let lerp = add(&v[s.index], &mul(&sub(&v[s.index + 1], &v[s.index]), s.fraction));
        l.check("index/fraction reproduce the point", "", dist(&lerp, &s.point) <= eps_p, case, || {
            format!("l={:e}: lerp {:?} vs point {:?}", x, lerp, s.point)
        });
        // reference point by linear scan
        let mut rp = v[n - 1];
        for i in 0..n - 1 {
            if x <= lens[i + 1] {
                let e = lens[i + 1] - lens[i];
                rp = add(&v[i], &mul(&sub(&v[i + 1], &v[i]), (x - lens[i]) / e));
                break;
            }
        }
        l.check("point equals arc-length reference", "", dist(&rp, &s.point) <= eps_p, case, || {
            format!("l={:e}: reference {:?} vs point {:?}", x, rp, s.point)
        });
        l.check("station lies on the curve", "", brute_dist(&v, &s.point) <= eps_p, case, || {
            format!("l={:e}: point {:?} off curve by {:e}", x, s.point, brute_dist(&v, &s.point))
        });
        l.check("length_along equals l", "", (s.length_along - x).abs() <= eps_l, case, || {
            format!("l={:e}: length_along {:e}", x, s.length_along)
        });

        // direction
        let hit = (0..n).find(|i| lens[*i] == x);
        let near = (0..n).find(|i| (lens[*i] - x).abs() <= 4.0 * f64::EPSILON * big_l);
        let mut allowed: Vec<P> = Vec::new();
        let mut undefined = false;
        if let Some(i) = hit {
            match vertex_dir(&v, i, closed, is_2d) {
                Some(d) => allowed.push(d),
                None => undefined = true,
            }
        } else if let Some(i) = near {
            // one ulp from a vertex: the vertex rule or either adjacent edge is acceptable
            match vertex_dir(&v, i, closed, is_2d) {
                Some(d) => allowed.push(d),
                None => undefined = true,
            }
            if i > 0 {
                allowed.push(unit(&sub(&v[i], &v[i - 1])));
            }
            if i + 1 < n {
                allowed.push(unit(&sub(&v[i + 1], &v[i])));
            }
        } else {
            let i = (0..n - 1).find(|i| x < lens[*i + 1]).unwrap();
            allowed.push(unit(&sub(&v[i + 1], &v[i])));
        }
        if undefined && hit.is_some() {
            l.gray("direction at an exactly reversing vertex");
        } else {
            let dn = norm(&s.dir);
            let ok = (dn - 1.0).abs() <= 1e-12 && allowed.iter().any(|d| dist(d, &s.dir) <= 1e-9);
            l.check("direction rule", if hit.is_some() { "vertex" } else { "edge" }, ok, case, || {
                format!("l={:e}: direction {:?} allowed {:?}", x, s.dir, allowed)
            });
            // stepping to the vertex the station names, and to the one after it
            if s.index < n {
                let at = |k: usize| (v[k.min(n - 1)], lens[k.min(n - 1)]);
                let (pi, li) = at(s.index);
                let ok_i = s.nav_index.map(|(p, ll)| dist(&p, &pi) <= 1e-9 * ext && (ll - li).abs() <= 1e-9 * (1.0 + big_l)).unwrap_or(false);
                l.check("stepping back to the station's vertex reaches that vertex", "", ok_i, case, || format!("l={:e}: index {} -> {:?}, vertex {:?} at {}", x, s.index, s.nav_index, pi, li));
                if is_2d {
                    let (pn, ln) = at(s.index + 1);
                    let ok_n = s.nav_next.map(|(p, ll)| dist(&p, &pn) <= 1e-9 * ext && (ll - ln).abs() <= 1e-9 * (1.0 + big_l)).unwrap_or(false);
                    l.check("stepping on to the next vertex reaches that vertex", "", ok_n, case, || format!("l={:e}: index {} -> {:?}, vertex {:?} at {}", x, s.index, s.nav_next, pn, ln));
                }
            }
            if !is_2d && s.index + 1 < n && norm(&sub(&v[s.index + 1], &v[s.index])) > 0.0 {
                // in 3D there is no vertex rule: the direction is that of the edge the station names
                let ed = unit(&sub(&v[s.index + 1], &v[s.index]));
                l.check("3D: the direction is parallel to the edge named by the station's index", "", dist(&ed, &s.dir) <= 1e-9, case, || {
                    format!("l={:e}: index {} fraction {} direction {:?}, edge direction {:?}", x, s.index, s.fraction, s.dir, ed)
                });
            }
            if let Some(nm) = s.normal {
                let exp = [s.dir[1], -s.dir[0], 0.0];
                l.check("normal is direction rotated -90deg", "", dist(&nm, &exp) <= 1e-12, case, || {
                    format!("l={:e}: normal {:?} direction {:?}", x, nm, s.dir)
                });
            }
        }

        // same place by fraction
        if big_l > 0.0 {
            l.eval();
            match guarded(|| c.st_at_fraction(x / big_l)) {
                Ok(Some(sf)) => {
                    l.check(
                        "at_fraction agrees with at_length",
                        "",
                        dist(&sf.point, &s.point) <= eps_p && (sf.length_along - x).abs() <= 4.0 * eps_l,
                        case,
                        || format!("l={:e}: by fraction {:?} vs {:?}", x, sf.point, s.point),
                    );
                }
                Ok(None) => {
                    l.check("at_fraction agrees with at_length", "none", false, case, || {
                        format!("l={:e}: at_fraction({:e}) -> None", x, x / big_l)
                    });
                }
                Err(msg) => {
                    l.check("at_fraction agrees with at_length", "panic", false, case, || format!("panic {}", msg));
                }
            }
        }
    }

    // --- vertices through iteration, front, back
    l.eval();
    let it = match guarded(|| (c.st_iter(), c.st_front(), c.st_back())) {
        Ok(x) => x,
        Err(msg) => {
            l.check("iteration returns", "panic", false, case, || msg.clone());
            return;
        }
    };
    let (stations, front, back) = it;
    l.check("iteration yields one station per vertex", "", stations.len() == n, case, || {
        format!("{} stations for {} vertices", stations.len(), n)
    });
    if stations.len() != n {
        return;
    }
    let same = |a: &StationObs, b: &StationObs| {
        dist(&a.point, &b.point) <= eps_p && dist(&a.dir, &b.dir) <= 1e-9 && (a.length_along - b.length_along).abs() <= eps_l
    };
    for i in 0..n {
        l.bucket(if closed && (i == 0 || i == n - 1) {
            "seam station"
        } else if i == 0 || i == n - 1 {
            "end station"
        } else {
            "interior-vertex station"
        });
        let s = &stations[i];
        let mut ok = dist(&s.point, &v[i]) <= eps_p && (s.length_along - lens[i]).abs() <= eps_l;
        if let Some(d) = vertex_dir(&v, i, closed, is_2d) {
            ok &= dist(&d, &s.dir) <= 1e-9;
            if let Some(at) = c.st_at_length(lens[i]) {
                ok &= same(s, &at);
            } else {
                ok = false;
            }
        } else {
            l.gray("direction at an exactly reversing vertex");
        }
        l.check("vertex station by iteration equals station by length", "", ok, case, || {
            format!("vertex {}: point {:?} dir {:?} length_along {:e} (stored {:e})", i, s.point, s.dir, s.length_along, lens[i])
        });
    }
    let defined0 = vertex_dir(&v, 0, closed, is_2d).is_some();
    let defined1 = vertex_dir(&v, n - 1, closed, is_2d).is_some();
    // the iterator used in other ways than a plain walk still meets the vertices it should
    match guarded(|| c.st_iter_walks()) {
        Ok(walks) => {
            for (label, got, want) in walks {
                let ok = got.len() == want.len() && got.iter().zip(want.iter()).all(|(g, k)| (g - lens[*k]).abs() <= eps_l);
                l.check("the vertex iterator stepped, skipped or advanced by nth meets the expected vertices", label, ok, case, || format!("{}: vertex lengths {:?}, expected vertices {:?} of lengths {:?}", label, got, want, lens));
            }
        }
        Err(e) => {
            l.check("the vertex iterator stepped, skipped or advanced by nth meets the expected vertices", "panic", false, case, || e.clone());
        }
    }
    l.check(
        "at_front/at_back equal first/last vertex stations",
        "",
        (!defined0 || same(&front, &stations[0])) && (!defined1 || same(&back, &stations[n - 1])),
        case,
        || format!("front {:?} back {:?}", front.point, back.point),
    );
}

fn build2(case: &Case) -> Option<Curve2> {
    let pts: Vec<Point2> = case
        .verts
        .iter()
        .map(|c| gen::p2([c[0], c[1]], case.scale))
        .collect();
    let root = Curve2::from_points(&pts, case.tol, case.force_closed).ok()?;
    let big_l = root.length();
    match case.derived.as_str() {
        "root" => Some(root),
        "reversed" => guarded(|| root.reversed()).ok(),
        "transformed" => guarded(|| root.transformed_by(&gen::iso2_poses()[1])).ok(),
        "portion" => guarded(|| root.between_lengths(0.25 * big_l, 0.75 * big_l)).ok().flatten(),
        "resampled" => guarded(|| root.resample(Resample::ByCount(7)).ok()).ok().flatten(),
        "simplified" => guarded(|| root.simplify(0.3 * case.scale)).ok(),
        _ => None,
    }
}

fn build3(case: &Case) -> Option<Curve3> {
    let pts: Vec<Point3> = case
        .verts
        .iter()
        .map(|c| gen::p3([c[0], c[1], c[2]], case.scale))
        .collect();
    let root = Curve3::from_points(&pts, case.tol).ok()?;
    match case.derived.as_str() {
        "root" => Some(root),
        "transformed" => guarded(|| root.transformed_by(&gen::iso3_poses()[1])).ok(),
        "resampled" => guarded(|| root.resample(Resample::ByCount(7))).ok(),
        "simplified" => guarded(|| root.simplify(0.3 * case.scale)).ok(),
        _ => None,
    }
}

pub fn judge(case: &Case, l: &mut Local) {
    let mk = || serde_json::to_value(case).unwrap();
    let transformed = case.derived == "transformed";
    let span = case.verts.iter().flat_map(|v| v.iter()).map(|c| c.abs() as f64).fold(3.0, f64::max);
    let ext = case.scale * span + if transformed { 10.0 } else { 0.0 };
    if case.dim == 2 {
        match build2(case) {
            Some(c) => {
                let v = c.verts();
                if c.count() > 2 {
                    l.distinct(hash_of(&(hash_f64s(&v.concat()), c.is_closed(), case.tol.to_bits())));
                }
                if c.count() < case.verts.len() + if case.force_closed { 1 } else { 0 } && case.derived == "root" {
                    l.bucket("de-duplicated input");
                }
                if c.is_closed() && !case.force_closed && case.derived == "root" {
                    l.bucket("naturally closed input");
                }
                if case.derived != "root" {
                    l.bucket("derived curve");
                }
                l.sample(|| json!({"case": mk(), "vertices_after_dedup": c.count(), "closed": c.is_closed(), "length": c.length()}));
                if case.derived == "root" && v.len() >= 2 {
                    // closedness is decided on the stored vertices: first and last within the tolerance
                    // (inclusive, like the de-duplication), and always after forced closing
                    let (a, b) = (&v[0], &v[v.len() - 1]);
                    let gap = ((a[0] - b[0]).powi(2) + (a[1] - b[1]).powi(2)).sqrt();
                    let expect = gap <= case.tol;
                    if gap == case.tol {
                        l.bucket("closing gap exactly equal to the tolerance");
                    }
                    l.check(
                        "a curve is closed exactly when its stored end vertices are within the tolerance, and always after forced closing",
                        "",
                        c.is_closed() == expect && (!case.force_closed || c.is_closed()),
                        mk,
                        || format!("gap {} tol {} force_closed {} reported closed {}", gap, case.tol, case.force_closed, c.is_closed()),
                    );
                }
                judge_curve(&c, ext, case.tol, &mk, l);
            }
            None => l.bucket(if case.derived == "root" { "rejected input" } else { "derived op unavailable" }),
        }
    } else {
        match build3(case) {
            Some(c) => {
                let v = c.verts();
                if c.count() > 2 {
                    l.distinct(hash_of(&(hash_f64s(&v.concat()), 3u8, case.tol.to_bits())));
                }
                if case.derived != "root" {
                    l.bucket("derived curve");
                }
                judge_curve(&c, ext, case.tol, &mk, l);
            }
            None => l.bucket(if case.derived == "root" { "rejected input" } else { "derived op unavailable" }),
        }
    }
}

pub fn cases(tier: Tier) -> Vec<Case> {
    let mut out = Vec::new();
    let lat2 = gen::lattice2(3);
    let scales = [1.0, 0.1, 1e-3, 1e3];
    for s in gen::seqs(lat2.len(), 2, tier.pick(4, 5)) {
        let verts: Vec<Vec<i32>> = s.iter().map(|i| lat2[*i].to_vec()).collect();
        for fc in [false, true] {
            for scale in scales {
                for tol in [0.0, 1e-9, 1.0 * scale, 1.5 * scale] {
                    out.push(Case { dim: 2, verts: verts.clone(), force_closed: fc, scale, tol, derived: "root".into() });
                }
            }
            // microns and hundreds of kilometres, with the curve tolerance in proportion
            if s.len() <= 3 {
                for scale in [1e-6, 1e5] {
                    for tol in [0.0, 1e-9 * scale] {
                        out.push(Case { dim: 2, verts: verts.clone(), force_closed: fc, scale, tol, derived: "root".into() });
                    }
                }
            }
            if s.len() <= 4 {
                for d in ["reversed", "transformed", "portion", "resampled", "simplified"] {
                    out.push(Case { dim: 2, verts: verts.clone(), force_closed: fc, scale: 1.0, tol: 1e-9, derived: d.into() });
                }
            }
        }
    }
    let lat3 = gen::lattice3(3);
    for s in gen::seqs(lat3.len(), 2, tier.pick(3, 4)) {
        let verts: Vec<Vec<i32>> = s.iter().map(|i| lat3[*i].to_vec()).collect();
        let menu: &[f64] = if s.len() <= 3 { &scales } else { &[1.0, 1e-3] };
        for scale in menu {
            for tol in [1e-9, 1.0 * scale, 1.5 * scale] {
                out.push(Case { dim: 3, verts: verts.clone(), force_closed: false, scale: *scale, tol, derived: "root".into() });
            }
        }
        if s.len() <= 3 {
            for scale in [1e-6, 1e5] {
                out.push(Case { dim: 3, verts: verts.clone(), force_closed: false, scale, tol: 1e-9 * scale, derived: "root".into() });
            }
        }
        if s.len() <= 3 {
            for d in ["transformed", "resampled", "simplified"] {
                out.push(Case { dim: 3, verts: verts.clone(), force_closed: false, scale: 1.0, tol: 1e-9, derived: d.into() });
            }
        }
    }
    // edges of wildly different length (1e6 next to 1e-2), in both orders: whatever is derived from the
    // cumulative-length table inherits the rounding of the long part
    let long = 100_000_000;
    for verts in [
        vec![vec![0, 0, 0], vec![long, 0, 0], vec![long, 1, 0], vec![long, 1, 500]],
        vec![vec![long, 1, 500], vec![long, 1, 0], vec![long, 0, 0], vec![0, 0, 0]],
        vec![vec![0, 0, 0], vec![0, 1, 0], vec![long, 1, 0], vec![long, 2, 0], vec![long, 2, 3]],
    ] {
        out.push(Case { dim: 3, verts: verts.clone(), force_closed: false, scale: 1e-2, tol: 1e-9, derived: "root".into() });
        let flat: Vec<Vec<i32>> = verts.iter().map(|v| vec![v[0], v[1] + v[2]]).collect();
        out.push(Case { dim: 2, verts: flat, force_closed: false, scale: 1e-2, tol: 1e-9, derived: "root".into() });
    }
    out
}

pub fn run(tier: Tier) -> i32 {
    let mut cx = Ctx::new("C01", tier, "exploration");
    cx.rule = "every vertex sequence (no equal consecutive points) over the 3x3 (2D) / 3x3x3 (3D) integer lattice up to the length bound x {open, force-closed} x scale x tolerance (0, 1e-9, one and one-and-a-half lattice steps), and curves one operation away from those roots, plus curves whose neighbouring edges differ in length by eight orders of magnitude; per curve every critical length (0, L, stored vertex lengths, edge mid-points, each +-1 ulp, +-tol/2, +-2tol, and out-of-range values). distinct = distinct de-duplicated vertex lists with >= 2 edges".into();
    cx.bounds = json!({"seq_len_2d": tier.pick(4, 5), "seq_len_3d": tier.pick(3, 4), "lattice": 3, "scales": [1.0, 0.1, 1e-3, 1e3], "tols": ["1e-9", "1.0*scale", "1.5*scale"]});
    cx.require(&["vertex-hit", "ulp-neighbour", "mid-edge", "tol-neighbour", "out-of-range query", "seam station", "interior-vertex station", "end station", "de-duplicated input", "naturally closed input", "closing gap exactly equal to the tolerance", "derived curve"]);
    cx.assume("tolerances: points 1e-9*extent, lengths 16 ulp of L; direction at exactly reversing vertices (undefined by the statement) counted as gray");
    let cs = cases(tier);
    let l = sweep(&cs, judge);
    cx.absorb(l);
    cx.finish()
}

pub fn replay(case: &Val) -> Local {
    let c: Case = serde_json::from_value(case.clone()).expect("case");
    let mut l = Local::new();
    judge(&c, &mut l);
    l
}
