//! C03 — measurements do not depend on the coordinate frame (metamorphic, entity x isometry menu).
use crate::engine::*;
use crate::gen;
use crate::props::c02;
use crate::refmodel::*;
use engeom::common::DistMode;
use engeom::geom2::Line2 as _;
use engeom::geom2::Segment2;
use engeom::geom3::Plane3;
use engeom::metrology::{Distance2, Distance3, Measurement};
use engeom::PointCloudFeatures;
use engeom::{Curve2, Curve3, Mesh, Point2, Point3, PointCloud, SurfacePoint2, SurfacePoint3, TransformBy, UnitVec2, UnitVec3, Vector2, Vector3};
use serde::{Deserialize, Serialize};
use serde_json::json;

#[derive(Serialize, Deserialize, Clone, Debug)]
pub struct Case {
    /// curve2 | curve3 | mesh | plane | sp2 | sp3 | cloud | distance
    pub kind: String,
    pub verts: Vec<Vec<i32>>,
    pub force_closed: bool,
    /// entity selector within the kind
    pub which: usize,
    /// index into the isometry menu
    pub iso: usize,
}

fn queries2() -> Vec<Point2> {
    (0..25).map(|i| Point2::new((i % 5) as f64 * 0.75 - 0.5, (i / 5) as f64 * 0.75 - 0.5)).collect()
}
fn queries3() -> Vec<Point3> {
    (0..27).map(|i| Point3::new((i % 3) as f64 * 1.3 - 0.4, ((i / 3) % 3) as f64 * 1.7 - 0.5, (i / 9) as f64 * 0.9 - 0.3)).collect()
}

fn plane_normals() -> Vec<Vector3> {
    let mut v = Vec::new();
    for x in -1..=1 {
        for y in -1..=1 {
            for z in -1..=1 {
                if (x, y, z) != (0, 0, 0) {
                    v.push(Vector3::new(x as f64, y as f64, z as f64));
                }
            }
        }
    }
    v.extend([Vector3::new(1.0, -1.0, 2.0), Vector3::new(-1.0, 0.2, 0.1), Vector3::new(0.3, 0.2, 1.0), Vector3::new(3.0, -2.0, 0.5)]);
    v
}

pub fn meshes() -> Vec<(String, Vec<Point3>, Vec<[u32; 3]>)> {
    let mut out = Vec::new();
    for name in ["tetrahedron", "octahedron", "prism", "box"] {
        let (v, f) = c02::solid(name);
        out.push((name.to_string(), v, f));
    }
    for bits in [0u32, 16, 341, 170, 511, 273, 84, 1, 256, 495, 27, 432] {
        let (v, f) = c02::height_field(bits, bits % 2);
        out.push((format!("heightfield{}", bits), v, f));
    }
    out
}

fn judge_curve2(case: &Case, l: &mut Local) {
    let mk = || serde_json::to_value(case).unwrap();
    let menu = gen::iso2_menu();
    let iso = menu[case.iso % menu.len()];
    let pts: Vec<Point2> = case.verts.iter().map(|c| gen::p2([c[0], c[1]], 1.0)).collect();
    let c = match Curve2::from_points(&pts, 1e-9, case.force_closed) {
        Ok(c) => c,
        Err(_) => return,
    };
    let tol = 1e-9 * (1.0 + iso.translation.vector.norm() + 3.0);
    l.eval();
    l.bucket("curve2 x iso");
    let ct = match guarded(|| c.transformed_by(&iso)) {
        Ok(x) => x,
        Err(m) => {
            l.check("transformed_by returns", "panic", false, mk, || m.clone());
            return;
        }
    };
    l.outcome(hash_of(&(c.count(), c.is_closed())));
    let moved = ct.count() == c.count() && c.points().iter().zip(ct.points().iter()).all(|(a, b)| d2(&(iso * a), b) <= tol);
    l.check("curve2: transformed curve has the vertices moved, same count, closedness and tolerance", "", moved && ct.is_closed() == c.is_closed() && ct.tol() == c.tol(), mk, || {
        format!("count {} -> {}, closed {} -> {}", c.count(), ct.count(), c.is_closed(), ct.is_closed())
    });
    l.check("curve2: length invariant", "", (ct.length() - c.length()).abs() <= tol, mk, || format!("{} vs {}", c.length(), ct.length()));
    let v = c.points().to_vec();
    for q in queries2() {
        l.eval();
        let qt = iso * q;
        let (d0, d1) = (c.dist_to_point(&q), ct.dist_to_point(&qt));
        l.check("curve2: point-to-curve distance invariant", "", (d0 - d1).abs() <= tol, mk, || format!("q {:?}: {} vs {}", q, d0, d1));
        // closest point commutes when the minimiser is unique
        let mut ds: Vec<(f64, Point2)> = (0..v.len() - 1).map(|i| { let (p, _) = seg_closest2(&v[i], &v[i + 1], &q); (d2(&p, &q), p) }).collect();
        ds.sort_by(|a, b| a.0.partial_cmp(&b.0).unwrap());
        let unique = ds.iter().all(|x| x.0 > ds[0].0 + 1e-6 || d2(&x.1, &ds[0].1) < 1e-9);
        if unique {
            let (p0, p1) = (c.at_closest_to_point(&q).point(), ct.at_closest_to_point(&qt).point());
            l.check("curve2: closest point commutes with the motion", "", d2(&(iso * p0), &p1) <= tol, mk, || format!("q {:?}: {:?} vs {:?}", q, iso * p0, p1));
        } else {
            l.gray("closest point with tied minimisers");
        }
    }
    // directional measurements from surface points placed off the lattice lines (so that no ray runs
    // through a vertex): farthest extent along the normal, and the crossings of the normal line
    for (px, py, nx, ny) in [(0.37, -1.0, 0.0, 1.0), (-1.0, 0.63, 1.0, 0.0), (1.37, 3.0, 0.0, -1.0), (0.37, 0.21, 0.6, 0.8), (2.6, 2.9, -1.0, -2.0)] {
        l.eval();
        let sp = SurfacePoint2::new_normalize(Point2::new(px, py), Vector2::new(nx, ny));
        let spt = sp.transformed(&iso);
        let (e0, e1) = (c.max_dist_in_direction(&sp), ct.max_dist_in_direction(&spt));
        l.check("curve2: farthest extent along a surface point's normal is frame independent", "", (e0 - e1).abs() <= tol, mk, || format!("sp {:?}: {} vs {}", sp, e0, e1));
        let ray0 = parry2d_f64::query::Ray::new(sp.point, sp.normal.into_inner());
        let ray1 = parry2d_f64::query::Ray::new(spt.point, spt.normal.into_inner());
        match (guarded(|| c.ray_intersections(&ray0)), guarded(|| ct.ray_intersections(&ray1))) {
            (Ok(a), Ok(b)) => {
                let same = a.len() == b.len() && a.iter().zip(b.iter()).all(|(x, y)| (x.0 - y.0).abs() <= 1e-7 * (1.0 + iso.translation.vector.norm()));
                l.outcome(hash_of(&("crossings", a.len().min(5))));
                l.check("curve2: crossings of a surface point's normal line are frame independent", "", same, mk, || format!("sp {:?}: {:?} vs {:?}", sp, a, b));
            }
            (a, b) => {
                l.check("curve2: crossings of a surface point's normal line are frame independent", "panic", false, mk, || format!("{:?} {:?}", a.err(), b.err()));
            }
        }
    }
    for f in [0.0, 0.137, 0.3, 0.5, 0.77, 1.0] {
        l.eval();
        match (c.at_fraction(f), ct.at_fraction(f)) {
            (Some(s0), Some(s1)) => {
                let big_l = c.length();
                let near_vertex = c.lengths().iter().any(|x| (x - f * big_l).abs() <= 1e-9 * big_l);
                let mut ok = d2(&(iso * s0.point()), &s1.point()) <= tol;
                if !near_vertex {
                    ok &= ((iso * s0.direction().into_inner()) - s1.direction().into_inner()).norm() <= 1e-9;
                    ok &= ((iso * s0.normal().into_inner()) - s1.normal().into_inner()).norm() <= 1e-9;
                } else if f > 0.0 && f < 1.0 {
                    l.gray("station direction at a vertex (discontinuous)");
                }
                l.check("curve2: stations commute with the motion", "", ok, mk, || format!("f {}: {:?} vs {:?}", f, iso * s0.point(), s1.point()));
            }
            (a, b) => {
                l.check("curve2: stations commute with the motion", "presence", a.is_some() == b.is_some(), mk, || format!("f {}", f));
            }
        }
    }
    // orientation-normalising constructor: building from moved points equals moving the built curve
    if pts.len() >= 3 {
        l.eval();
        let moved: Vec<Point2> = pts.iter().map(|p| iso * p).collect();
        match (guarded(|| Curve2::from_points_ccw(&pts, 1e-9, case.force_closed)), guarded(|| Curve2::from_points_ccw(&moved, 1e-9, case.force_closed))) {
            (Ok(Ok(a)), Ok(Ok(b))) => {
                let hull_area: f64 = {
                    let v = a.points();
                    (0..v.len()).map(|i| v[i].x * v[(i + 1) % v.len()].y - v[(i + 1) % v.len()].x * v[i].y).sum()
                };
                // the orientation of a vertex sequence is defined for simple polygons only (on a sequence that
                // folds back onto itself the hull-order vote depends on whether a collinear vertex makes it
                // into the hull, i.e. on rounding)
                if hull_area.abs() > 1e-9 && !crate::props::c05::is_simple_polygon2(&pts) {
                    l.gray("orientation of a non-simple vertex sequence");
                } else if hull_area.abs() > 1e-9 {
                    l.bucket("orientation-normalised curve x iso");
                    let same = a.count() == b.count() && a.points().iter().zip(b.points().iter()).all(|(p, q)| d2(&(iso * p), q) <= tol);
                    l.check("curve2: counter-clockwise construction commutes with the motion", "", same, mk, || format!("{:?} vs {:?}", a.points().iter().map(|p| iso * p).collect::<Vec<_>>(), b.points()));
                }
            }
            (Ok(Err(_)), Ok(Err(_))) => {}
            (a, b) => {
                l.check("curve2: counter-clockwise construction commutes with the motion", "presence", a.map(|x| x.is_ok()).ok() == b.map(|x| x.is_ok()).ok(), mk, String::new);
            }
        }
    }
    // signed deviations of measured points from the curve are invariant, also for points a fraction of a micron off a
    // corner (not along either edge normal) on a part that sits a thousand units from the origin
    {
        use engeom::metrology::line_profiles::point_curve2_deviation;
        let mut qs: Vec<Point2> = queries2();
        for a in c.points().iter() {
            qs.push(a + Vector2::new(0.6, 0.8) * 2e-7);
            qs.push(a + Vector2::new(-0.8, 0.6) * 3e-5);
        }
        let tdev = 1e-11 * (1.0 + iso.translation.vector.norm()) + 1e-12;
        let mut worst = 0.0f64;
        let mut at = Point2::origin();
        for q in qs.iter() {
            let qt = iso * q;
            let d0 = point_curve2_deviation(&c.at_closest_to_point(q), q).deviation;
            let d1 = point_curve2_deviation(&ct.at_closest_to_point(&qt), &qt).deviation;
            // the magnitude is the distance in any frame; the sign is only defined off the curve and off its corners' bisectors
            if (d0.abs() - d1.abs()).abs() > worst {
                worst = (d0.abs() - d1.abs()).abs();
                at = *q;
            }
        }
        l.check("curve2: the magnitude of a point's deviation from the curve is invariant", "", worst <= tdev, mk, || format!("q {:?}: magnitudes differ by {:e} (allowed {:e})", at, worst, tdev));
    }
    // construction from surface points: the vertex order follows the majority of the given normals, in any frame
    {
        let v = c.points().to_vec();
        let n = v.len();
        let closed = c.is_closed();
        let ne = n - 1;
        let edge_n: Vec<Vector2> = (0..ne).map(|i| { let d = (v[i + 1] - v[i]).normalize(); Vector2::new(d.y, -d.x) }).collect();
        // bisector normals at the vertices (right-hand normals of the adjacent edges)
        let mut normals: Vec<Option<Vector2>> = Vec::new();
        for i in 0..n {
            let (a, b) = if i == 0 { (if closed { edge_n[ne - 1] } else { edge_n[0] }, edge_n[0]) } else if i == n - 1 { (edge_n[ne - 1], if closed { edge_n[0] } else { edge_n[ne - 1] }) } else { (edge_n[i - 1], edge_n[i]) };
            let m = a + b;
            normals.push(if m.norm() > 0.5 { Some(m.normalize()) } else { None });
        }
        // a vertex lying on an edge it does not belong to (a curve touching itself) has no single closest station,
        // so its vote is not defined
        let seg_dist = |q: &Point2, a: &Point2, b: &Point2| { let ab = b - a; let t = ((q - a).dot(&ab) / ab.norm_squared()).clamp(0.0, 1.0); (q - (a + ab * t)).norm() };
        let touching = (0..n).any(|i| (0..ne).any(|e| {
            let adjacent = e == i || e + 1 == i || (closed && ((i == 0 && e == ne - 1) || (i == n - 1 && e == 0)));
            !adjacent && seg_dist(&v[i], &v[e], &v[e + 1]) <= 1e-9
        }));
        if touching {
            l.gray("votes of surface points on a curve that touches itself");
        }
        if !touching && normals.iter().all(|x| x.is_some()) && n >= 3 {
            // the library's own convention for the side of the normal, read off the first edge
            let lib_sign = c.at_length(0.5 * c.lengths()[1]).map(|st| st.normal().dot(&edge_n[0])).unwrap_or(0.0).signum();
            for (flip, minority) in [(1.0, false), (-1.0, false), (1.0, true), (-1.0, true)] {
                l.eval();
                let sps: Vec<SurfacePoint2> = (0..n).map(|i| { let s = if minority && i == 1 { -flip } else { flip }; SurfacePoint2::new_normalize(v[i], normals[i].unwrap() * s * lib_sign) }).collect();
                let moved: Vec<SurfacePoint2> = sps.iter().map(|sp| SurfacePoint2::new_normalize(iso * sp.point, iso * sp.normal.into_inner())).collect();
                if minority && n < 4 {
                    continue;
                }
                match (guarded(|| Curve2::from_surf_points(&sps, 1e-9, false)), guarded(|| Curve2::from_surf_points(&moved, 1e-9, false))) {
                    (Ok(Ok(a)), Ok(Ok(b))) => {
                        l.bucket("curve from surface points x iso");
                        let want: Vec<Point2> = if flip > 0.0 { v.clone() } else { v.iter().rev().cloned().collect() };
                        let as_given = a.count() == want.len() && a.points().iter().zip(want.iter()).all(|(p, q)| d2(p, q) <= 1e-12);
                        l.check("curve2: a curve from surface points runs so that its normals agree with the majority of the given normals", "", as_given, mk, || format!("flip {} minority {}: {:?} expected {:?}", flip, minority, a.points(), want));
                        let same = a.count() == b.count() && a.points().iter().zip(b.points().iter()).all(|(p, q)| d2(&(iso * p), q) <= tol);
                        l.check("curve2: construction from surface points commutes with the motion", "", same, mk, || format!("flip {} minority {}", flip, minority));
                    }
                    (a, b) => {
                        l.check("curve2: construction from surface points commutes with the motion", "presence", false, mk, || format!("{:?} {:?}", a.map(|x| x.map(|c| c.count()).map_err(|e| e.to_string())), b.map(|x| x.map(|c| c.count()).map_err(|e| e.to_string()))));
                    }
                }
            }
        }
    }
    // inverse restores, composition equals sequence
    let back = ct.transformed_by(&iso.inverse());
    l.check("curve2: inverse motion restores the curve", "", back.points().iter().zip(c.points().iter()).all(|(p, q)| d2(p, q) <= tol), mk, String::new);
    let other = menu[(case.iso * 7 + 3) % menu.len()];
    let seq = ct.transformed_by(&other);
    let comp = c.transformed_by(&(other * iso));
    let tol2 = tol + 1e-9 * other.translation.vector.norm();
    l.check("curve2: composition equals transforming in sequence", "", seq.points().iter().zip(comp.points().iter()).all(|(p, q)| d2(p, q) <= tol2), mk, String::new);
}

fn judge_curve3(case: &Case, l: &mut Local) {
    let mk = || serde_json::to_value(case).unwrap();
    let menu = gen::iso3_menu();
    let iso = menu[case.iso % menu.len()];
    let pts: Vec<Point3> = case.verts.iter().map(|c| Point3::new(c[0] as f64, c[1] as f64 * 1.5, c[2] as f64 * 0.7)).collect();
    let c = match Curve3::from_points(&pts, 1e-9) {
        Ok(c) => c,
        Err(_) => return,
    };
    let tol = 1e-9 * (1.0 + iso.translation.vector.norm() + 3.0);
    l.eval();
    l.bucket("curve3 x iso");
    let ct = c.transformed_by(&iso);
    l.outcome(hash_of(&(c.count(), 3u8)));
    let moved = ct.count() == c.count() && c.points().iter().zip(ct.points().iter()).all(|(a, b)| d3(&(iso * a), b) <= tol);
    l.check("curve3: vertices moved, length invariant", "", moved && (ct.length() - c.length()).abs() <= tol && ct.tol() == c.tol(), mk, || format!("{} vs {}", c.length(), ct.length()));
    // construction commutes with the motion also where the tolerance matters: with a curve tolerance of 0.1 and
    // extra vertices 0.11 .. 0.12 from their neighbours (closer than the tolerance along every single axis), the
    // curve built from the moved points is the built curve moved
    {
        let mut raw: Vec<Point3> = Vec::new();
        for (k, p) in pts.iter().enumerate() {
            raw.push(*p);
            if k + 1 < pts.len() && (pts[k + 1] - p).norm() > 0.5 {
                let d = (pts[k + 1] - p).normalize();
                // a short step off the vertex, roughly along the edge but spread over all three axes
                let step = (d * 0.1 + Vector3::new(0.045, 0.05, 0.04) * if k % 2 == 0 { 1.0 } else { -1.0 }).normalize() * [0.1118, 0.1212][k % 2];
                raw.push(p + step);
            }
        }
        let moved_raw: Vec<Point3> = raw.iter().map(|p| iso * p).collect();
        match (guarded(|| Curve3::from_points(&raw, 0.1)), guarded(|| Curve3::from_points(&moved_raw, 0.1))) {
            (Ok(Ok(a)), Ok(Ok(b))) => {
                l.bucket("curve3 with a coarse tolerance x iso");
                let am = a.transformed_by(&iso);
                let same = am.count() == b.count() && am.points().iter().zip(b.points().iter()).all(|(x, y)| d3(x, y) <= tol);
                l.check("curve3: construction with a coarse tolerance commutes with the motion", "", same && a.count() == raw.len(), mk, || format!("{} raw points: {} vertices built then moved, {} vertices moved then built", raw.len(), am.count(), b.count()));
            }
            (a, b) => {
                l.check("curve3: construction with a coarse tolerance commutes with the motion", "presence", a.map(|x| x.is_ok()).ok() == b.map(|x| x.is_ok()).ok(), mk, String::new);
            }
        }
    }
    let v = c.points().to_vec();
    for q in queries3() {
        l.eval();
        let qt = iso * q;
        l.check("curve3: point-to-curve distance invariant", "", (c.dist_to_point(&q) - ct.dist_to_point(&qt)).abs() <= tol, mk, || format!("q {:?}", q));
        let mut ds: Vec<(f64, Point3)> = (0..v.len() - 1).map(|i| { let (p, _) = seg_closest3(&v[i], &v[i + 1], &q); (d3(&p, &q), p) }).collect();
        ds.sort_by(|a, b| a.0.partial_cmp(&b.0).unwrap());
        if ds.iter().all(|x| x.0 > ds[0].0 + 1e-6 || d3(&x.1, &ds[0].1) < 1e-9) {
            let (p0, p1) = (c.at_closest_to_point(&q).point(), ct.at_closest_to_point(&qt).point());
            l.check("curve3: closest point commutes with the motion", "", d3(&(iso * p0), &p1) <= tol, mk, || format!("q {:?}", q));
        }
    }
    for f in [0.0, 0.137, 0.5, 1.0] {
        if let (Some(s0), Some(s1)) = (c.at_fraction(f), ct.at_fraction(f)) {
            l.check("curve3: stations commute with the motion", "", d3(&(iso * s0.point()), &s1.point()) <= tol, mk, || format!("f {}", f));
        }
    }
}

fn judge_mesh(case: &Case, l: &mut Local) {
    let mk = || serde_json::to_value(case).unwrap();
    let menu = gen::iso3_menu();
    let iso = menu[case.iso % menu.len()];
    let ms = meshes();
    let (_, v, f) = &ms[case.which % ms.len()];
    let mesh = Mesh::new(v.clone(), f.clone(), false);
    let tol = 1e-9 * (1.0 + iso.translation.vector.norm() + 4.0);
    let mut mt = mesh.clone();
    mt.transform(&iso);
    l.eval();
    l.bucket("mesh x iso");
    let moved = mt.faces() == mesh.faces() && mesh.vertices().iter().zip(mt.vertices().iter()).all(|(a, b)| d3(&(iso * a), b) <= tol);
    l.check("mesh: transform moves the vertices and keeps the faces", "", moved, mk, String::new);
    // normals of faces and vertices only rotate; the bulk point helpers agree with moving point by point
    {
        let rot = |n: &Vector3| iso.rotation * n;
        let fn_ok = match (mesh.get_face_normals(), mt.get_face_normals()) {
            (Ok(a), Ok(b)) => a.len() == b.len() && a.iter().zip(b.iter()).all(|(x, y)| (rot(&x.into_inner()) - y.into_inner()).norm() <= 1e-9),
            (Err(_), Err(_)) => true,
            _ => false,
        };
        let (va, vb) = (mesh.get_vertex_normals(), mt.get_vertex_normals());
        let vn_ok = va.len() == vb.len() && va.iter().zip(vb.iter()).all(|(x, y)| (rot(x) - y).norm() <= 1e-9 || (x.norm() < 1e-9 && y.norm() < 1e-9) || (!x.norm().is_finite() && !y.norm().is_finite()));
        l.check("mesh: face and vertex normals only rotate", "", fn_ok && vn_ok, mk, String::new);
        // a UV lookup given the query in the other frame together with the transform
        if f.len() <= 12 {
            let flat: Vec<engeom::Point2> = v.iter().map(|p| engeom::Point2::new(p.x + 0.31 * p.z, p.y - 0.17 * p.z)).collect();
            if let Ok(map) = engeom::geom3::UvMapping::new(flat, f.clone()) {
                let mu = Mesh::new_with_uv(v.clone(), f.clone(), false, Some(map));
                let t0 = f[0];
                let on = Point3::from((v[t0[0] as usize].coords + v[t0[1] as usize].coords * 2.0 + v[t0[2] as usize].coords) / 4.0);
                let away = iso.inverse_transform_point(&on);
                let a = guarded(|| mu.uv_with_tol(&away, 0.5, 1.0, Some(&iso)));
                let b = guarded(|| mu.uv_with_tol(&(iso * away), 0.5, 1.0, None));
                let same = match (&a, &b) {
                    (Ok(Some(x)), Ok(Some(y))) => (x.0 - y.0).norm() <= 1e-9 && (x.1 - y.1).abs() <= 1e-9,
                    (Ok(None), Ok(None)) => true,
                    _ => false,
                };
                l.check("mesh: a UV lookup with a transform is the lookup on the moved point", "", same, mk, || format!("{:?} vs {:?}", a, b));
                // moving the mesh in place keeps its UV map: the same UV coordinates now give the moved surface point,
                // and moving it back restores the original
                let mut mm = mu.clone();
                mm.transform(&iso);
                let uvq = engeom::Point2::new(on.x + 0.31 * on.z, on.y - 0.17 * on.z);
                let before = mu.uv_to_3d(&uvq);
                let after = mm.uv_to_3d(&uvq);
                mm.transform(&iso.inverse());
                let restored = mm.uv_to_3d(&uvq);
                let kept = match (&before, &after, &restored) {
                    (Some(b0), Some(a1), Some(r2)) => d3(&(iso * b0.point), &a1.point) <= tol && ((iso * b0.normal.into_inner()) - a1.normal.into_inner()).norm() <= 1e-9 && d3(&b0.point, &r2.point) <= tol,
                    (None, None, None) => true,
                    _ => false,
                };
                l.check("mesh: a mesh moved in place keeps its UV map, and the map follows the motion", "", kept && mm.uv().is_some(), mk, || format!("uv {:?}: before {:?} after {:?} restored {:?}", uvq, before.map(|x| x.point), after.map(|x| x.point), restored.map(|x| x.point)));
            }
        }
        // the trait spellings of moving a list of points, for an owned vector and for a slice
        {
            let owned: Vec<Point3> = mesh.vertices().to_vec();
            let via_vec = (&owned).transform_by(&iso);
            let via_slice = (&owned[..]).transform_by(&iso);
            let ok = via_vec.len() == owned.len() && via_slice.len() == owned.len() && owned.iter().enumerate().all(|(i, a)| d3(&via_vec[i], &(iso * a)) <= tol && d3(&via_slice[i], &(iso * a)) <= tol);
            l.check("points: a vector and a slice of points move like their elements", "", ok, mk, || format!("{:?} / {:?} vs {:?}", via_vec.first(), via_slice.first(), owned.first().map(|a| iso * a)));
        }
        let bulk = engeom::common::points::transform_points(mesh.vertices(), &iso);
        let mean_a = engeom::common::points::mean_point(mesh.vertices());
        let mean_b = engeom::common::points::mean_point(&bulk);
        // weighted means (weights that do not add up to the number of points) and the weighted principal axes
        {
            let pts = mesh.vertices();
            for wsel in 0..3 {
                let w: Vec<f64> = (0..pts.len()).map(|i| match wsel { 0 => 0.25, 1 => [0.5, 1.0, 2.0, 3.0][i % 4], _ => 1.0 / pts.len() as f64 }).collect();
                let ma = engeom::common::points::mean_point_weighted(pts, &w);
                let mb = engeom::common::points::mean_point_weighted(&bulk, &w);
                let wsum: f64 = w.iter().sum();
                let direct = Point3::from(pts.iter().zip(w.iter()).fold(Vector3::zeros(), |a, (p, x)| a + p.coords * *x) / wsum);
                l.check("points: the weighted mean is the weighted average and commutes with the motion", "", d3(&(iso * ma), &mb) <= tol && d3(&ma, &direct) <= 1e-9, mk, || format!("weights {}: {:?} moved {:?} against {:?}; direct {:?}", wsel, ma, iso * ma, mb, direct));
            }
        }
        l.check("points: bulk transformation and the mean commute with the motion", "", bulk.iter().zip(mesh.vertices().iter()).all(|(b, a)| d3(b, &(iso * a)) <= tol) && d3(&(iso * mean_a), &mean_b) <= tol, mk, String::new);
    }
    let normals: Vec<Option<Vector3>> = f.iter().map(|t| tri_normal(&v[t[0] as usize], &v[t[1] as usize], &v[t[2] as usize])).collect();
    let mut qs = queries3();
    qs.push(Point3::new(2.2, -0.5, -0.3));
    for q in qs {
        l.eval();
        let qt = iso * q;
        // reference classification in the untransformed frame
        let mut best = f64::MAX;
        let mut cps = Vec::new();
        for (fi, t) in f.iter().enumerate() {
            let cp = tri_closest(&v[t[0] as usize], &v[t[1] as usize], &v[t[2] as usize], &q);
            let d = d3(&cp, &q);
            cps.push((fi, cp, d));
            best = best.min(d);
        }
        let mins: Vec<&(usize, Point3, f64)> = cps.iter().filter(|c| (c.2 - best).abs() <= 1e-9).collect();
        let unique_point = cps.iter().all(|c| c.2 > best + 1e-6 || d3(&c.1, &mins[0].1) < 1e-9);
        let normals_agree = mins.iter().all(|c| match (normals[c.0], normals[mins[0].0]) {
            (Some(a), Some(b)) => (a - b).norm() < 1e-9,
            _ => false,
        });
        let class = if normals_agree { "unique-face-normal" } else { "edge-or-vertex-normal" };
        l.bucket(if normals_agree { "closest point with one face normal" } else { "closest point on an edge or vertex with several normals" });
        let (s0, s1) = (mesh.surf_closest_to(&q), mt.surf_closest_to(&qt));
        l.outcome(hash_of(&(normals_agree, unique_point, best < 1e-9)));
        l.check("mesh: point-to-mesh distance invariant", "", (d3(&s0.point, &q) - d3(&s1.point, &qt)).abs() <= tol, mk, || format!("q {:?}", q));
        if unique_point {
            l.check("mesh: closest point commutes with the motion", "", d3(&(iso * s0.point), &s1.point) <= tol, mk, || format!("q {:?}: {:?} vs {:?}", q, iso * s0.point, s1.point));
        }
        if best > 1e-9 {
            l.check("mesh: closest-point normal rotates with the motion", class, ((iso * s0.normal.into_inner()) - s1.normal.into_inner()).norm() <= 1e-9, mk, || {
                format!("q {:?}: normal {:?} vs {:?} in the moved frame", q, iso * s0.normal.into_inner(), s1.normal.into_inner())
            });
        }
        let m0 = mesh.measure_point_deviation(&q, DistMode::ToPoint).value();
        let m1 = mt.measure_point_deviation(&qt, DistMode::ToPoint).value();
        // the sign of the point-mode deviation is n.v; when the query lies in the plane of its nearest
        // face (beyond the face's edge) that product is zero and the sign is undefined
        let in_plane = mins.iter().any(|c| normals[c.0].map(|n| n.dot(&(q - c.1)).abs() <= 1e-9 * best.max(1e-9)).unwrap_or(true));
        if in_plane && best > 1e-9 {
            l.gray("sign of a deviation measured in the plane of the nearest face");
        }
        l.check("mesh: point-mode deviation invariant", if best > 1e-9 { class } else { "on-surface" }, (m0.abs() - m1.abs()).abs() <= tol && (best <= 1e-9 || !normals_agree || in_plane || (m0 - m1).abs() <= tol), mk, || format!("q {:?}: {} vs {}", q, m0, m1));
        // the optional transform argument: measuring T^-1 q with Some(T) equals measuring q with None
        for (cap, ang) in [(10.0, 0.3), (1.0, 1.2), (0.25, 0.8)] {
            l.eval();
            let direct = mesh.project_with_tol(&q, cap, ang, None);
            let via = mesh.project_with_tol(&(iso.inverse() * q), cap, ang, Some(&iso));
            let ok = match (&direct, &via) {
                (Some(a), Some(b)) => d3(&a.0.point, &b.0.point) <= tol && a.1 == b.1,
                (None, None) => true,
                _ => false,
            };
            // acceptance decided within rounding of the cap or the angle limit may flip
            let boundary = (best - cap).abs() <= 1e-9 * (1.0 + iso.translation.vector.norm()) || mins.iter().any(|c| normals[c.0].map(|n| { let a = n.angle(&(q - c.1)); (a - ang).abs() < 1e-7 || (a - (std::f64::consts::PI - ang)).abs() < 1e-7 }).unwrap_or(true));
            if !ok && (boundary || !unique_point || !normals_agree) {
                l.gray("projection with transform on an acceptance boundary, a tie, or an edge/vertex with several normals");
            } else {
                l.check("mesh: projecting a point given in another frame through the transform argument equals projecting it directly", "", ok, mk, || format!("q {:?} cap {} angle {}: direct {:?} via transform {:?}", q, cap, ang, direct.map(|x| x.0.point), via.map(|x| x.0.point)));
            }
            let idx_direct = mesh.indices_in_tol(&[q], cap, ang, None);
            let idx_via = mesh.indices_in_tol(&[iso.inverse() * q], cap, ang, Some(&iso));
            if ok {
                l.check("mesh: indices_in_tol honours the transform argument", "", idx_direct == idx_via, mk, || format!("{:?} vs {:?}", idx_direct, idx_via));
            }
        }
        let p0 = mesh.measure_point_deviation(&q, DistMode::ToPlane).value();
        let p1 = mt.measure_point_deviation(&qt, DistMode::ToPlane).value();
        l.check("mesh: plane-mode deviation invariant", class, (p0 - p1).abs() <= tol, mk, || format!("q {:?}: {} in the original frame, {} after moving mesh and point together", q, p0, p1));
    }
}

fn judge_plane(case: &Case, l: &mut Local) {
    let mk = || serde_json::to_value(case).unwrap();
    let menu = gen::iso3_menu();
    let iso = menu[case.iso % menu.len()];
    let tol = 1e-9 * (1.0 + iso.translation.vector.norm() + 4.0);
    let ns = plane_normals();
    let nv = ns[case.which % ns.len()];
    let d = [-2.0, 0.0, 0.5, 3.0][(case.which / ns.len()) % 4];
    let pl = Plane3::new(UnitVec3::new_normalize(nv), d);
    let pt = pl.transform_by(&iso);
    l.eval();
    l.bucket("plane x iso");
    // the plane seen from the other side is the same plane: inverting commutes with the motion and only
    // negates signed distances
    let (pi, pti) = (pl.inverted_normal(), pt.inverted_normal());
    let moved_inv = pi.transform_by(&iso);
    l.check("plane: inverting the normal commutes with the motion", "", (moved_inv.normal.into_inner() - pti.normal.into_inner()).norm() <= 1e-9 && (moved_inv.d - pti.d).abs() <= tol, mk, || format!("{:?} {} vs {:?} {}", moved_inv.normal, moved_inv.d, pti.normal, pti.d));
    for q in queries3() {
        l.eval();
        let qt = iso * q;
        let (a, b) = (pl.signed_distance_to_point(&q), pt.signed_distance_to_point(&qt));
        l.check("plane: the inverted plane measures the negated signed distance and projects to the same point", "", (pi.signed_distance_to_point(&q) + a).abs() <= tol && (pti.signed_distance_to_point(&qt) + b).abs() <= tol && d3(&pi.project_point(&q), &pl.project_point(&q)) <= tol, mk, || format!("q {:?}: {} vs {}", q, pi.signed_distance_to_point(&q), a));
        l.outcome(hash_of(&(a > 0.0, a == 0.0)));
        l.check("plane: signed distance invariant", "", (a - b).abs() <= tol, mk, || format!("q {:?}: {} vs {}", q, a, b));
        l.check("plane: distance invariant", "", (pl.distance_to_point(&q) - pt.distance_to_point(&qt)).abs() <= tol, mk, String::new);
        l.check("plane: projection commutes", "", d3(&(iso * pl.project_point(&q)), &pt.project_point(&qt)) <= tol, mk, || format!("q {:?}", q));
        let sp = SurfacePoint3::new_normalize(q, Vector3::new(0.3, 0.2, 1.0));
        let spt = sp.transformed(&iso);
        match (pl.intersection_distance(&sp), pt.intersection_distance(&spt)) {
            (Some(a), Some(b)) => {
                l.check("plane: intersection distance invariant", "", (a - b).abs() <= tol * 10.0 * (1.0 + a.abs()), mk, || format!("{} vs {}", a, b));
            }
            (None, None) => {}
            (a, b) => {
                // nearly parallel: presence may flip with rounding
                let par = pl.normal.dot(&sp.normal).abs() < 1e-9;
                l.check("plane: intersection distance invariant", "presence", par, mk, || format!("{:?} vs {:?}", a, b));
            }
        }
    }
    let back = pt.transform_by(&iso.inverse());
    l.check("plane: inverse motion restores the plane", "", (back.normal.into_inner() - pl.normal.into_inner()).norm() <= 1e-9 && (back.d - pl.d).abs() <= tol, mk, || format!("{:?} {} vs {:?} {}", back.normal, back.d, pl.normal, pl.d));
    let other = menu[(case.iso * 7 + 3) % menu.len()];
    let seq = pt.transform_by(&other);
    let comp = pl.transform_by(&(other * iso));
    let tol2 = tol + 1e-9 * other.translation.vector.norm();
    l.check("plane: composition equals transforming in sequence", "", (seq.normal.into_inner() - comp.normal.into_inner()).norm() <= 1e-9 && (seq.d - comp.d).abs() <= tol2, mk, String::new);
}

fn judge_sp2(case: &Case, l: &mut Local) {
    let mk = || serde_json::to_value(case).unwrap();
    let menu = gen::iso2_menu();
    let iso = menu[case.iso % menu.len()];
    let tol = 1e-9 * (1.0 + iso.translation.vector.norm() + 4.0);
    let lat = gen::lattice2(3);
    let a = gen::p2(lat[case.which % 9], 1.0);
    let nv = [Vector2::new(1.0, 0.0), Vector2::new(-1.0, 2.0), Vector2::new(0.3, -0.4), Vector2::new(0.0, -5.0)][(case.which / 9) % 4];
    let sp = SurfacePoint2::new_normalize(a, nv);
    l.eval();
    l.bucket("surface point 2 x iso");
    let s1 = sp.transformed(&iso);
    let s2 = &iso * sp;
    let s3 = &iso * &sp;
    let rot_n = iso.rotation * sp.normal.into_inner();
    let ok = d2(&s1.point, &(iso * sp.point)) <= tol
        && (s1.normal.into_inner() - rot_n).norm() <= 1e-12
        && d2(&s2.point, &s1.point) <= tol
        && (s2.normal.into_inner() - rot_n).norm() <= 1e-12
        && d2(&s3.point, &s1.point) <= tol
        && (s3.normal.into_inner() - rot_n).norm() <= 1e-12;
    l.check("sp2: point moves, normal only rotates (method and both operators)", "", ok, mk, || format!("{:?} -> {:?} / {:?} / {:?}", sp, s1, s2, s3));
    for q in queries2() {
        l.eval();
        let qt = iso * q;
        l.outcome(hash_of(&(sp.scalar_projection(&q) > 0.0)));
        let ok = (sp.scalar_projection(&q) - s1.scalar_projection(&qt)).abs() <= tol
            && (sp.planar_distance(&q) - s1.planar_distance(&qt)).abs() <= tol
            && d2(&(iso * sp.projection(&q)), &s1.projection(&qt)) <= tol
            && d2(&(iso * sp.at_distance(1.5)), &s1.at_distance(1.5)) <= tol;
        l.check("sp2: scalar projection, planar distance, projection and at_distance are frame independent", "", ok, mk, || format!("q {:?}", q));
    }
    if let Ok(seg) = Segment2::try_new(a, a + nv) {
        let st = seg.transform_by(&iso);
        l.check("segment: end points move with the motion", "", d2(&st.a, &(iso * seg.a)) <= tol && d2(&st.b, &(iso * seg.b)) <= tol, mk, String::new);
        // derived segments and line parameters commute too
        let (o1, o2) = (seg.offsetted(0.75).transform_by(&iso), st.offsetted(0.75));
        let (r1, r2) = (seg.reversed().transform_by(&iso), st.reversed());
        l.check("segment: offsetting and reversing commute with the motion", "", d2(&o1.a, &o2.a) <= tol && d2(&o1.b, &o2.b) <= tol && d2(&r1.a, &r2.a) <= tol && d2(&r1.b, &r2.b) <= tol, mk, || format!("{:?} vs {:?}", o1.a, o2.a));
        for q in queries2() {
            let qt = iso * q;
            let (t0, t1) = (seg.projected_parameter(&q), st.projected_parameter(&qt));
            let on_margin = (q - seg.a).dot(&(q - seg.b)).abs() <= 1e-9 * (1.0 + iso.translation.vector.norm());
            let ok = (t0 - t1).abs() <= 1e-9 * (1.0 + iso.translation.vector.norm()) && d2(&(iso * seg.projected_point(&q)), &st.projected_point(&qt)) <= tol && (on_margin || seg.is_on(&q) == st.is_on(&qt));
            l.check("segment: projection parameter, projected point and the on-segment test are frame independent", "", ok, mk, || format!("q {:?}: t {} vs {}", q, t0, t1));
        }
        // intersection of two lines: parameters are frame independent
        let other = Segment2::try_new(Point2::new(1.0, -1.0), Point2::new(-0.5, 2.5)).unwrap();
        let ot = other.transform_by(&iso);
        let i0 = engeom::geom2::intersection_param(&seg.a, &(seg.b - seg.a), &other.a, &(other.b - other.a));
        let i1 = engeom::geom2::intersection_param(&st.a, &(st.b - st.a), &ot.a, &(ot.b - ot.a));
        let ok = match (i0, i1) {
            (Some(x), Some(y)) => (x.0 - y.0).abs() <= 1e-7 * (1.0 + x.0.abs()) * (1.0 + iso.translation.vector.norm()) && (x.1 - y.1).abs() <= 1e-7 * (1.0 + x.1.abs()) * (1.0 + iso.translation.vector.norm()),
            (None, None) => true,
            _ => false,
        };
        l.check("line-line intersection parameters are frame independent", "", ok, mk, || format!("{:?} vs {:?}", i0, i1));
    }
    // operations deriving a surface point from another commute with the motion
    {
        let pairs = [(sp.shift_orthogonal(0.6).transformed(&iso), s1.shift_orthogonal(0.6)), (sp.rot_normal(0.7).transformed(&iso), s1.rot_normal(0.7)), (sp.rot_normal_90(engeom::AngleDir::Cw).transformed(&iso), s1.rot_normal_90(engeom::AngleDir::Cw)), (sp.reversed().transformed(&iso), s1.reversed())];
        let ok = pairs.iter().all(|(x, y)| d2(&x.point, &y.point) <= tol && (x.normal.into_inner() - y.normal.into_inner()).norm() <= 1e-9);
        l.check("sp2: shifting, turning and reversing commute with the motion", "", ok, mk, String::new);
        // angles between vectors are scalars: turning both vectors changes neither the signed nor the directed
        // angle (judged up to a full turn, which is the same direction)
        let others = [Vector2::new(1.0, 0.0), Vector2::new(-1.0, 0.2), Vector2::new(-0.5, -2.0), Vector2::new(0.3, 0.4), Vector2::new(0.0, -1.0)];
        for w in others {
            let (rv, rw) = (iso.rotation * nv, iso.rotation * w);
            let same = |a: f64, b: f64| (a - b).abs() <= 1e-9 || ((a - b).abs() - std::f64::consts::TAU).abs() <= 1e-9;
            let sa = (engeom::geom2::signed_angle(&nv, &w), engeom::geom2::signed_angle(&rv, &rw));
            let da = (engeom::geom2::directed_angle(&nv, &w, engeom::AngleDir::Ccw), engeom::geom2::directed_angle(&rv, &rw, engeom::AngleDir::Ccw));
            let pi_amb = (sa.0.abs() - std::f64::consts::PI).abs() <= 1e-9;
            l.check("signed and directed angles between vectors are unchanged by turning both", "", ((sa.0 - sa.1).abs() <= 1e-9 || (pi_amb && same(sa.0, sa.1))) && same(da.0, da.1) && sa.1.abs() <= std::f64::consts::PI + 1e-12, mk, || format!("{:?} {:?}: signed {} vs {}, ccw {} vs {}", nv, w, sa.0, sa.1, da.0, da.1));
        }
    }
    let back = s1.transformed(&iso.inverse());
    l.check("sp2: inverse motion restores", "", d2(&back.point, &sp.point) <= tol && (back.normal.into_inner() - sp.normal.into_inner()).norm() <= 1e-9, mk, String::new);
}

fn judge_sp3(case: &Case, l: &mut Local) {
    let mk = || serde_json::to_value(case).unwrap();
    let menu = gen::iso3_menu();
    let iso = menu[case.iso % menu.len()];
    let tol = 1e-9 * (1.0 + iso.translation.vector.norm() + 4.0);
    let lat = gen::lattice3(2);
    let a = gen::p3(lat[case.which % 8], 1.5);
    let nv = [Vector3::new(0.0, 0.0, 1.0), Vector3::new(1.0, -1.0, 2.0), Vector3::new(-1.0, 0.2, 0.1)][(case.which / 8) % 3];
    let sp = SurfacePoint3::new_normalize(a, nv);
    l.eval();
    l.bucket("surface point 3 x iso");
    let s1 = sp.transformed(&iso);
    let s2 = &iso * sp;
    let s3 = &iso * &sp;
    let rot_n = iso.rotation * sp.normal.into_inner();
    let ok = d3(&s1.point, &(iso * sp.point)) <= tol
        && (s1.normal.into_inner() - rot_n).norm() <= 1e-12
        && d3(&s2.point, &s1.point) <= tol
        && (s2.normal.into_inner() - rot_n).norm() <= 1e-12
        && d3(&s3.point, &s1.point) <= tol
        && (s3.normal.into_inner() - rot_n).norm() <= 1e-12;
    l.check("sp3: point moves, normal only rotates (method and both operators)", "", ok, mk, || format!("{:?} -> {:?}", sp, s1));
    for q in queries3() {
        l.eval();
        let qt = iso * q;
        l.outcome(hash_of(&(sp.scalar_projection(&q) > 0.0, 3u8)));
        let ok = (sp.scalar_projection(&q) - s1.scalar_projection(&qt)).abs() <= tol
            && (sp.planar_distance(&q) - s1.planar_distance(&qt)).abs() <= tol
            && d3(&(iso * sp.projection(&q)), &s1.projection(&qt)) <= tol;
        l.check("sp3: scalar projection, planar distance and projection are frame independent", "", ok, mk, || format!("q {:?}", q));
    }
    let other = menu[(case.iso * 7 + 3) % menu.len()];
    let seq = s1.transformed(&other);
    let comp = sp.transformed(&(other * iso));
    let tol2 = tol + 1e-9 * other.translation.vector.norm();
    l.check("sp3: composition equals transforming in sequence", "", d3(&seq.point, &comp.point) <= tol2 && (seq.normal.into_inner() - comp.normal.into_inner()).norm() <= 1e-9, mk, String::new);
}

fn judge_cloud(case: &Case, l: &mut Local) {
    let mk = || serde_json::to_value(case).unwrap();
    let menu = gen::iso3_menu();
    let iso = menu[case.iso % menu.len()];
    let tol = 1e-9 * (1.0 + iso.translation.vector.norm() + 4.0);
    let pts = queries3();
    let normals: Vec<UnitVec3> = pts.iter().map(|p| UnitVec3::new_normalize(p.coords + Vector3::new(0.1, 0.2, 0.3))).collect();
    let with_normals = case.which % 2 == 0;
    l.eval();
    l.bucket("point cloud x iso");
    let mut pc = match PointCloud::try_new(pts.clone(), if with_normals { Some(normals.clone()) } else { None }, None) {
        Ok(p) => p,
        Err(e) => {
            l.check("point cloud builds", "", false, mk, || e.to_string());
            return;
        }
    };
    pc.transform(&iso);
    l.outcome(hash_of(&with_normals));
    let mut ok = pc.points().len() == pts.len() && pts.iter().zip(pc.points().iter()).all(|(a, b)| d3(&(iso * a), b) <= tol);
    match (with_normals, pc.normals()) {
        (true, Some(ns)) => {
            ok &= ns.len() == pts.len() && normals.iter().zip(ns.iter()).all(|(a, b)| ((iso.rotation * a.into_inner()) - b.into_inner()).norm() <= 1e-12);
        }
        (false, None) => {}
        _ => ok = false,
    }
    l.check("point cloud: points move, normals only rotate", "", ok, mk, String::new);
    pc.transform(&iso.inverse());
    l.check("point cloud: inverse motion restores", "", pts.iter().zip(pc.points().iter()).all(|(a, b)| d3(a, b) <= tol), mk, String::new);
}

fn judge_distance(case: &Case, l: &mut Local) {
    let mk = || serde_json::to_value(case).unwrap();
    let menu = gen::iso3_menu();
    let iso = menu[case.iso % menu.len()];
    let tol = 1e-9 * (1.0 + iso.translation.vector.norm() + 4.0);
    let lat = gen::lattice2(3);
    let a = gen::p2(lat[case.which % 9], 1.0);
    let b = gen::p2(lat[(case.which / 9) % 9], 1.0) + Vector2::new(0.5, -0.25);
    let dir = if case.which % 2 == 0 { Some(UnitVec2::new_normalize(Vector2::new(1.0, 0.5))) } else { None };
    let dd = Distance2::new(a, b, dir);
    l.eval();
    l.bucket("distance x iso");
    let d3d = dd.to_3d(&iso);
    l.outcome(hash_of(&(dd.value() > 0.0, dir.is_some())));
    l.check("distance: value preserved by to_3d", "", (d3d.value() - dd.value()).abs() <= tol, mk, || format!("{} vs {}", d3d.value(), dd.value()));
    let back = d3d.to_2d(&iso.inverse());
    l.check("distance: to_2d(inverse) after to_3d is the identity", "", d2(&back.a, &dd.a) <= tol && d2(&back.b, &dd.b) <= tol && (back.value() - dd.value()).abs() <= tol, mk, String::new);
    let x = Distance3::new(Point3::new(a.x, a.y, 0.5), Point3::new(b.x, b.y, -1.0), None);
    let moved = Distance3::new(iso * x.a, iso * x.b, Some(iso * x.direction));
    l.check("distance3: value invariant under motion", "", (x.value() - moved.value()).abs() <= tol, mk, String::new);
}

pub fn judge(case: &Case, l: &mut Local) {
    l.distinct(hash_of(&(case.kind.as_str(), &case.verts, case.force_closed, case.which)));
    l.sample(|| serde_json::to_value(case).unwrap());
    match case.kind.as_str() {
        "curve2" => judge_curve2(case, l),
        "curve3" => judge_curve3(case, l),
        "mesh" => judge_mesh(case, l),
        "plane" => judge_plane(case, l),
        "sp2" => judge_sp2(case, l),
        "sp3" => judge_sp3(case, l),
        "cloud" => judge_cloud(case, l),
        "distance" => judge_distance(case, l),
        _ => {}
    }
}

pub fn cases(tier: Tier) -> Vec<Case> {
    let mut out = Vec::new();
    let n2 = gen::iso2_menu().len();
    let n3 = gen::iso3_menu().len();
    let lat2 = gen::lattice2(3);
    for (k, s) in gen::seqs(lat2.len(), 2, tier.pick(3, 4)).into_iter().enumerate() {
        if tier == Tier::Thorough && s.len() == 4 && k % 7 != 0 {
            continue;
        }
        for fc in [false, true] {
            for iso in 0..n2 {
                out.push(Case { kind: "curve2".into(), verts: s.iter().map(|i| lat2[*i].to_vec()).collect(), force_closed: fc, which: 0, iso });
            }
        }
    }
    let lat3 = gen::lattice3(2);
    for (k, s) in gen::seqs(lat3.len(), 2, 3).into_iter().enumerate() {
        if tier == Tier::Quick && k % 5 != 0 {
            continue;
        }
        for iso in 0..n3 {
            out.push(Case { kind: "curve3".into(), verts: s.iter().map(|i| lat3[*i].to_vec()).collect(), force_closed: false, which: 0, iso });
        }
    }
    for which in 0..meshes().len() {
        for iso in 0..n3 {
            out.push(Case { kind: "mesh".into(), verts: vec![], force_closed: false, which, iso });
        }
    }
    for which in 0..plane_normals().len() * 4 {
        for iso in 0..n3 {
            if tier == Tier::Quick && (which + iso) % 3 != 0 {
                continue;
            }
            out.push(Case { kind: "plane".into(), verts: vec![], force_closed: false, which, iso });
        }
    }
    for which in 0..36 {
        for iso in 0..n2 {
            out.push(Case { kind: "sp2".into(), verts: vec![], force_closed: false, which, iso });
        }
    }
    for which in 0..24 {
        for iso in 0..n3 {
            out.push(Case { kind: "sp3".into(), verts: vec![], force_closed: false, which, iso });
        }
    }
    for which in 0..2 {
        for iso in 0..n3 {
            out.push(Case { kind: "cloud".into(), verts: vec![], force_closed: false, which, iso });
        }
    }
    for which in 0..81 {
        for iso in 0..n3 {
            if which % 9 == which / 9 {
                continue;
            }
            out.push(Case { kind: "distance".into(), verts: vec![], force_closed: false, which, iso });
        }
    }
    out
}

pub fn run(tier: Tier) -> i32 {
    let mut cx = Ctx::new("C03", tier, "exploration");
    cx.rule = "entities (lattice curves 2D/3D, 16 meshes, 120 planes, surface points, segments, point clouds with/without normals, distances) x the full isometry menu (2D: 3 translations x 8 angles; 3D: 3 translations x {identity + 5 axes x 6 angles}) x fixed query grids; metamorphic oracle f(Tx) = f(x), g(Tx) = T g(x); inverse and composition clauses. distinct = distinct entities".into();
    cx.bounds = json!({"iso2_menu": gen::iso2_menu().len(), "iso3_menu": gen::iso3_menu().len(), "curve2_seq_len": tier.pick(3, 4), "meshes": meshes().len()});
    cx.require(&["orientation-normalised curve x iso", "curve2 x iso", "curve3 x iso", "mesh x iso", "plane x iso", "surface point 2 x iso", "surface point 3 x iso", "point cloud x iso", "distance x iso", "closest point with one face normal", "closest point on an edge or vertex with several normals"]);
    cx.assume("tolerance 1e-9 * (1 + |translation| + extent); closest points compared only when the brute-force minimiser is unique by a 1e-6 gap; station directions not compared within 1e-9 L of a vertex");
    let cs = cases(tier);
    let l = sweep(&cs, judge);
    cx.absorb(l);
    cx.finish()
}

pub fn replay(case: &Val) -> Local {
    let c: Case = serde_json::from_value(case.clone()).expect("case");
    let mut l = Local::new();
    judge(&c, &mut l);
    l
}
