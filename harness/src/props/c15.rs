//! C15 — spatial search, sampling and hulls agree with exhaustive computation.
//! EX: kd-trees, Poisson disk, hulls, ball pivot on lattice point sets; MC: scripted RNG of the
//! mesh samplers (hook H2).
use crate::engine::*;
use crate::gen;
use crate::props::c02;
use crate::refmodel::*;
use engeom::common::kd_tree::{KdTree, KdTreeSearch, PartialKdTree};
use engeom::common::poisson_disk::sample_poisson_disk;
use engeom::common::AngleDir;
use engeom::geom2::hull::{ball_pivot_2d, ball_pivot_fill_gaps_2d, ball_pivot_with_centers_2d, convex_hull_2d, farthest_pair_indices, point_order_direction, BallPivotEnd, BallPivotStart};
use engeom::verif;
use engeom::{Curve2, Mesh, Point2, Point3};
use serde::{Deserialize, Serialize};
use serde_json::json;
use std::collections::BTreeSet;
use std::num::NonZero;

#[derive(Serialize, Deserialize, Clone, Debug)]
pub struct Case {
    /// kd2 | kd3 | kdbig | partial | poisson | hull | polygon | pivot | uniform | dense | mpoisson
    pub kind: String,
    pub idx: Vec<usize>,
    pub which: usize,
    pub param: f64,
}

/// The kd-tree's bucket size: inputs with more points than one bucket holds AND two points sharing a
/// coordinate value form the input class of a recorded finding (dependency defect in kiddo 5.0.3)
const BUCKET: usize = 32;

fn tie_class<const D: usize>(pts: &[parry3d_f64::na::Point<f64, D>], members: &[usize]) -> &'static str {
    if members.len() <= BUCKET {
        return "";
    }
    for ax in 0..D {
        let mut vals: Vec<u64> = members.iter().map(|i| pts[*i][ax].to_bits()).collect();
        vals.sort();
        if vals.windows(2).any(|w| w[0] == w[1]) {
            return "more-than-32-points-with-tied-coordinates";
        }
    }
    ""
}

fn judge_tree<const D: usize>(tree: &dyn KdTreeSearch<D>, pts: &[parry3d_f64::na::Point<f64, D>], members: &[usize], queries: &[parry3d_f64::na::Point<f64, D>], case: &Case, l: &mut Local) {
    judge_tree_scaled(tree, pts, members, queries, 1.0, case, l)
}

/// `sc` is the length unit of the point set: radii and tolerances are multiples of it
fn judge_tree_scaled<const D: usize>(tree: &dyn KdTreeSearch<D>, pts: &[parry3d_f64::na::Point<f64, D>], members: &[usize], queries: &[parry3d_f64::na::Point<f64, D>], sc: f64, case: &Case, l: &mut Local) {
    let mk = || serde_json::to_value(case).unwrap();
    let e12 = 1e-12 * sc;
    let n = members.len();
    let class = tie_class(pts, members);
    if !class.is_empty() {
        l.bucket("kd-tree input with more than 32 points and tied coordinates");
    }
    l.check("tree length", "", tree.len() == n, mk, || format!("{} vs {}", tree.len(), n));
    for q in queries {
        l.eval();
        let mut ds: Vec<(f64, usize)> = members.iter().map(|i| ((pts[*i] - q).norm(), *i)).collect();
        ds.sort_by(|a, b| a.0.partial_cmp(&b.0).unwrap());
        let (i1, d1) = match guarded(|| tree.nearest_one(q)) {
            Ok(x) => x,
            Err(e) => {
                l.check("nearest query returns", "panic", false, mk, || e.clone());
                continue;
            }
        };
        l.outcome(hash_of(&(n.min(6), (d1 / sc * 4.0) as i64)));
        l.check("nearest_one returns the brute-force nearest with its original index", class, (d1 - ds[0].0).abs() <= e12 && members.contains(&i1) && ((pts[i1] - q).norm() - d1).abs() <= e12, mk, || {
            format!("q {:?}: ({}, {}) expected distance {}", q, i1, d1, ds[0].0)
        });
        for k in [1usize, 2, 3, n, n + 2] {
            l.eval();
            let r = tree.nearest(q, NonZero::new(k).unwrap());
            let want = k.min(n);
            let mut ok = r.len() == want;
            if ok {
                let mut got: Vec<f64> = r.iter().map(|x| x.1).collect();
                got.sort_by(|a, b| a.partial_cmp(b).unwrap());
                ok &= (0..want).all(|j| (got[j] - ds[j].0).abs() <= e12);
                ok &= r.iter().all(|(i, d)| members.contains(i) && ((pts[*i] - q).norm() - d).abs() <= e12);
                // index set equals the brute-force set unless a tie sits on the k-th boundary
                let tie = want < n && (ds[want - 1].0 - ds[want].0).abs() <= e12;
                // duplicates of the same point are interchangeable: compare as multisets of positions
                if tie {
                    l.gray("tie on the k-th neighbour boundary");
                }
                let mut multi: Vec<usize> = r.iter().map(|x| x.0).collect();
                multi.sort();
                multi.dedup();
                let distinct_members: BTreeSet<usize> = members.iter().cloned().collect();
                if distinct_members.len() == n {
                    ok &= multi.len() == r.len();
                }
            }
            l.check("k-nearest returns the brute-force distances with original indices", class, ok, mk, || format!("q {:?} k {}: {:?} expected {:?}", q, k, r, &ds[..want.min(ds.len())]));
        }
        for rad in [0.0, 0.5, 1.0, std::f64::consts::SQRT_2, 2.0] {
            let rad = rad * sc;
            l.eval();
            let r = tree.within(q, rad);
            let gotset: BTreeSet<usize> = r.iter().map(|x| x.0).collect();
            let sure: Vec<usize> = ds.iter().filter(|(d, _)| *d < rad - e12).map(|x| x.1).collect();
            let maybe: Vec<usize> = ds.iter().filter(|(d, _)| *d <= rad + e12).map(|x| x.1).collect();
            if sure.len() != maybe.len() {
                l.gray("point exactly on the search radius");
            }
            let ok = r.len() >= sure.len() && r.len() <= maybe.len() && sure.iter().all(|i| gotset.contains(i)) && gotset.iter().all(|i| maybe.contains(i)) && r.iter().all(|(i, d)| ((pts[*i] - q).norm() - d).abs() <= e12);
            l.check("radius query returns exactly the points within the radius", class, ok, mk, || format!("q {:?} r {}: {:?} (certain {:?}, possible {:?})", q, rad, r, sure, maybe));
        }
    }
}

fn grid_queries2() -> Vec<Point2> {
    let mut q = Vec::new();
    for x in -1..=5 {
        for y in -1..=5 {
            q.push(Point2::new(x as f64 * 0.5, y as f64 * 0.5));
        }
    }
    q
}

fn judge_poisson(case: &Case, l: &mut Local) {
    let mk = || serde_json::to_value(case).unwrap();
    let lat = gen::lattice2(3);
    let distinct: Vec<Point2> = [0usize, 1, 3, 4, 5, 8].iter().map(|i| gen::p2(lat[*i], 1.0)).collect();
    // the same six indices over a set in which two locations are present twice (exact duplicates)
    let doubled: Vec<Point2> = [0usize, 1, 3, 4, 0, 1].iter().map(|i| gen::p2(lat[*i], 1.0)).collect();
    for base in [distinct, doubled] {
        judge_poisson_on(case, &base, l);
    }
}

fn judge_poisson_on(case: &Case, base: &[Point2], l: &mut Local) {
    let mk = || serde_json::to_value(case).unwrap();
    let order = &case.idx;
    let rad = case.param;
    l.eval();
    l.bucket("poisson-disk ordering");
    let keep = match guarded(|| sample_poisson_disk(base, order, rad)) {
        Ok(k) => k,
        Err(e) => {
            l.check("poisson-disk selection returns", "panic", false, mk, || e.clone());
            return;
        }
    };
    l.outcome(hash_of(&(keep.len(), order.len())));
    let ks: BTreeSet<usize> = keep.iter().cloned().collect();
    l.check("selection is a duplicate-free subset of the working indices starting with the first", "", ks.len() == keep.len() && ks.iter().all(|k| order.contains(k)) && keep.first() == order.first(), mk, || format!("{:?} r {} -> {:?}", order, rad, keep));
    let mut sep = true;
    for a in keep.iter() {
        for b in keep.iter() {
            if a < b && d2(&base[*a], &base[*b]) < rad - 1e-12 {
                sep = false;
            }
        }
    }
    l.check("no two kept points are within the radius", "", sep, mk, || format!("{:?} r {} -> {:?}", order, rad, keep));
    let cov = order.iter().all(|w| keep.iter().any(|k| d2(&base[*k], &base[*w]) <= rad + 1e-12));
    l.check("every working point is within the radius of a kept point", "", cov, mk, || format!("{:?} r {} -> {:?}", order, rad, keep));
}

fn orient(p: &Point2, q: &Point2, r: &Point2) -> f64 {
    (q - p).x * (r - p).y - (q - p).y * (r - p).x
}


/// Farthest pair on convex polygons given directly (every rotation of the start vertex): strictly convex
/// hulls of the subsets of a 5x5 lattice, where the distances from a vertex around the outline need not
/// rise and fall only once
fn judge_diam(case: &Case, l: &mut Local) {
    let mk = || serde_json::to_value(case).unwrap();
    let lat = gen::lattice2(5);
    let mut pts: Vec<Point2> = case.idx.iter().map(|i| gen::p2(lat[*i], 1.0)).collect();
    // reference hull (monotone chain, strictly convex, counter-clockwise)
    pts.sort_by(|a, b| a.x.partial_cmp(&b.x).unwrap().then(a.y.partial_cmp(&b.y).unwrap()));
    let mut lower: Vec<Point2> = Vec::new();
    for p in pts.iter() {
        while lower.len() >= 2 && orient(&lower[lower.len() - 2], &lower[lower.len() - 1], p) <= 0.0 {
            lower.pop();
        }
        lower.push(*p);
    }
    let mut upper: Vec<Point2> = Vec::new();
    for p in pts.iter().rev() {
        while upper.len() >= 2 && orient(&upper[upper.len() - 2], &upper[upper.len() - 1], p) <= 0.0 {
            upper.pop();
        }
        upper.push(*p);
    }
    lower.pop();
    upper.pop();
    lower.extend(upper);
    let hull = lower;
    if hull.len() < 3 {
        return;
    }
    let mut best = 0.0f64;
    for p in &hull {
        for q in &hull {
            best = best.max(d2(p, q));
        }
    }
    for r in 0..hull.len() {
        let mut v = hull.clone();
        v.rotate_left(r);
        let poly = match parry2d_f64::shape::ConvexPolygon::from_convex_polyline(v.clone()) {
            Some(p) => p,
            None => continue,
        };
        l.eval();
        l.bucket("convex polygon given directly, every start vertex");
        match guarded(|| farthest_pair_indices(&poly)) {
            Ok((a, b)) => {
                let hv = poly.points();
                let got = d2(&hv[a], &hv[b]);
                l.outcome(hash_of(&(hull.len(), (got - best).abs() <= 1e-12, 5u8)));
                l.check("farthest pair is the true diameter", "", (got - best).abs() <= 1e-12, mk, || format!("polygon {:?}: pair ({}, {}) at {} but the diameter is {}", v, a, b, got, best));
            }
            Err(e) => {
                l.check("farthest pair returns", "panic", false, mk, || e.clone());
            }
        }
    }
}

fn judge_hull(case: &Case, l: &mut Local) {
    let mk = || serde_json::to_value(case).unwrap();
    let lat = gen::lattice2(3);
    let pts: Vec<Point2> = case.idx.iter().map(|i| gen::p2(lat[*i], 1.0)).collect();
    let coll = pts.iter().all(|p| orient(&pts[0], &pts[1], p).abs() < 1e-12);
    l.eval();
    if coll {
        l.bucket("collinear point set");
        // only termination is demanded
        l.check("hull of a collinear set returns", "", guarded(|| convex_hull_2d(&pts)).is_ok(), mk, String::new);
        return;
    }
    l.bucket(if case.idx.iter().collect::<BTreeSet<_>>().len() < case.idx.len() { "point set with duplicates" } else { "general point set" });
    let h = match guarded(|| convex_hull_2d(&pts)) {
        Ok(h) => h,
        Err(e) => {
            l.check("convex hull returns", "panic", false, mk, || e.clone());
            return;
        }
    };
    let hp: Vec<Point2> = h.iter().map(|i| pts[*i]).collect();
    let m = hp.len();
    l.outcome(hash_of(&(m, 1u8)));
    let mut area = 0.0;
    for i in 0..m {
        area += hp[i].x * hp[(i + 1) % m].y - hp[(i + 1) % m].x * hp[i].y;
    }
    let convex = (0..m).all(|i| orient(&hp[i], &hp[(i + 1) % m], &hp[(i + 2) % m]) >= -1e-12);
    let contains = pts.iter().all(|p| (0..m).all(|i| orient(&hp[i], &hp[(i + 1) % m], p) >= -1e-12));
    l.check("hull indices run counter-clockwise around all points", "", m >= 3 && area > 0.0 && convex && contains, mk, || format!("{:?} -> {:?}", pts, h));
    // farthest pair on the hull polygon
    if let Ok(c) = Curve2::from_points(&pts, 1e-9, false) {
        if let Some(poly) = c.make_hull() {
            l.eval();
            let (a, b) = farthest_pair_indices(&poly);
            let hv = poly.points();
            let got = d2(&hv[a], &hv[b]);
            let mut best = 0.0f64;
            for p in &pts {
                for q in &pts {
                    best = best.max(d2(p, q));
                }
            }
            l.check("farthest pair is the true diameter", "", (got - best).abs() <= 1e-12, mk, || format!("{} vs {}", got, best));
        }
    }
}

fn judge_polygon(case: &Case, l: &mut Local) {
    let mk = || serde_json::to_value(case).unwrap();
    let lat = gen::lattice2(3);
    let pts: Vec<Point2> = case.idx.iter().map(|i| gen::p2(lat[*i], 1.0)).collect();
    let m = pts.len();
    let mut area = 0.0;
    for i in 0..m {
        area += pts[i].x * pts[(i + 1) % m].y - pts[(i + 1) % m].x * pts[i].y;
    }
    if area.abs() < 1e-12 {
        return;
    }
    // simplicity: no vertex on a non-incident edge, no proper crossing of non-adjacent edges
    let mut simple = true;
    for i in 0..m {
        let (p, q) = (pts[i], pts[(i + 1) % m]);
        for j in 0..m {
            if j == i || j == (i + 1) % m {
                continue;
            }
            let r = pts[j];
            if orient(&p, &q, &r).abs() < 1e-12 && (r - p).dot(&(q - p)) >= 0.0 && (r - q).dot(&(p - q)) >= 0.0 {
                simple = false;
            }
        }
        for j in i + 2..m {
            if (j + 1) % m == i {
                continue;
            }
            let (r, s) = (pts[j], pts[(j + 1) % m]);
            if orient(&p, &q, &r) * orient(&p, &q, &s) < 0.0 && orient(&r, &s, &p) * orient(&r, &s, &q) < 0.0 {
                simple = false;
            }
        }
    }
    if !simple {
        return;
    }
    l.eval();
    l.bucket(if area > 0.0 { "counter-clockwise simple polygon" } else { "clockwise simple polygon" });
    let dir = point_order_direction(&pts);
    l.outcome(hash_of(&(area > 0.0, m)));
    l.check("order direction matches the sign of the area", "", matches!(dir, AngleDir::Ccw) == (area > 0.0), mk, || format!("{:?} area {} -> {:?}", pts, area, dir));
    match guarded(|| Curve2::from_points_ccw(&pts, 1e-9, true).map_err(|e| e.to_string())) {
        Ok(Ok(c)) => {
            let v = c.points();
            let mut a2 = 0.0;
            for i in 0..v.len() - 1 {
                a2 += v[i].x * v[i + 1].y - v[i + 1].x * v[i].y;
            }
            l.check("from_points_ccw yields a counter-clockwise curve", "", a2 > 0.0, mk, || format!("{:?}", pts));
        }
        other => {
            l.check("from_points_ccw returns", "", false, mk, || format!("{:?}", other.map(|r| r.map(|c| c.count()))));
        }
    }
    // ball pivot over the polygon's vertex set, rolled counter-clockwise and clockwise
    for (rad, pdir) in [(0.75, AngleDir::Ccw), (1.5, AngleDir::Ccw), (3.0, AngleDir::Ccw), (0.75, AngleDir::Cw), (1.5, AngleDir::Cw), (3.0, AngleDir::Cw)] {
        l.eval();
        verif::set_budget(10_000);
        let r = guarded(|| ball_pivot_with_centers_2d(&pts, BallPivotStart::StartOnConvex, BallPivotEnd::EndOnRepeat, pdir, rad).map_err(|e| e.to_string()));
        reset_budget();
        match r {
            Err(e) => {
                l.check("ball pivot terminates", if e.contains("VERIF_BUDGET") { "budget" } else { "panic" }, false, mk, || format!("r {}: {}", rad, e));
            }
            Ok(Err(_)) => {
                l.gray("ball pivot rejected the configuration");
            }
            Ok(Ok((idx, centres))) => {
                l.bucket("ball pivot run");
                let mut ok = centres.len() + 1 == idx.len() || centres.len() == idx.len();
                let mut worst = 0.0f64;
                for (k, c) in centres.iter().enumerate() {
                    if k + 1 >= idx.len() {
                        break;
                    }
                    let (a, b) = (pts[idx[k]], pts[idx[k + 1]]);
                    worst = worst.max((d2(c, &a) - rad).abs()).max((d2(c, &b) - rad).abs());
                    ok &= pts.iter().all(|p| d2(p, c) >= rad - 1e-9);
                }
                l.check("every pivot step has its centre one radius from both hull points and no point strictly inside", "", ok && worst <= 1e-9, mk, || format!("r {}: points {:?} indices {:?} centres {:?}, worst radius error {:e}", rad, pts, idx, centres, worst));
                // the two other spellings of the same walk: indices only, and the outline filled along the balls
                match guarded(|| ball_pivot_2d(&pts, BallPivotStart::StartOnConvex, BallPivotEnd::EndOnRepeat, pdir, rad).map_err(|e| e.to_string())) {
                    Ok(Ok(i2)) => {
                        l.check("the index-only pivot reports the same hull points", "", i2 == idx, mk, || format!("r {}: {:?} vs {:?}", rad, i2, idx));
                    }
                    other => {
                        l.check("the index-only pivot reports the same hull points", "missing", false, mk, || format!("r {}: {:?}", rad, other));
                    }
                }
                let spacing = rad / 2.0;
                match guarded(|| ball_pivot_fill_gaps_2d(&pts, BallPivotStart::StartOnConvex, BallPivotEnd::EndOnRepeat, pdir, rad, spacing).map_err(|e| e.to_string())) {
                    Ok(Ok(fill)) => {
                        // every filled point is a hull point or lies on the ball of its step; neighbours are no
                        // farther apart than the spacing; the hull points appear in order
                        let mut k = 0usize;
                        let mut good = !fill.is_empty() && centres.len() + 1 == idx.len();
                        let mut gap: f64 = 0.0;
                        for (j, q) in fill.iter().enumerate() {
                            if k < idx.len() && d2(q, &pts[idx[k]]) <= 1e-12 {
                                k += 1;
                            } else if k >= 1 && k - 1 < centres.len() {
                                good &= (d2(q, &centres[k - 1]) - rad).abs() <= 1e-9;
                            } else {
                                good = false;
                            }
                            if j > 0 {
                                gap = gap.max(d2(q, &fill[j - 1]));
                            }
                        }
                        good &= k == idx.len();
                        l.bucket("ball pivot outline with filled gaps");
                        l.check("the filled outline visits the hull points in order, fills along the balls and leaves no gap above the spacing", "", good && gap <= spacing + 1e-9, mk, || format!("r {}: hull indices {:?}, {} filled points, {} hull points matched, largest gap {} (spacing {})", rad, idx, fill.len(), k, gap, spacing));
                    }
                    other => {
                        l.check("the filled outline visits the hull points in order, fills along the balls and leaves no gap above the spacing", "missing", false, mk, || format!("r {}: {:?}", rad, other.map(|r| r.map(|f| f.len()))));
                    }
                }
            }
        }
    }
}

/// The ball rolled round an OPEN wavy row of points and back to where it started: at each end of the row it
/// has to come back round the point it just left. `which` = number of points, `idx[0]` = waviness pattern,
/// `idx[1]` = 0 counter-clockwise / 1 clockwise, `param` = length unit.
fn judge_row(case: &Case, l: &mut Local) {
    let mk = || serde_json::to_value(case).unwrap();
    let sc = case.param;
    let n = case.which;
    let pat = case.idx[0];
    let pdir = if case.idx[1] == 0 { AngleDir::Ccw } else { AngleDir::Cw };
    let pts: Vec<Point2> = (0..n).map(|i| Point2::new(i as f64 * sc, 0.3 * sc * ((((i + 1) * (pat + 2)) % 3) as f64 - 1.0))).collect();
    let rad = 1.2 * sc;
    l.eval();
    l.bucket("ball pivot round an open row");
    if sc != 1.0 {
        l.bucket("ball pivot at another length unit");
    }
    verif::set_budget(10_000);
    let r = guarded(|| ball_pivot_with_centers_2d(&pts, BallPivotStart::StartOnIndexDir(0, engeom::Vector2::new(-1.0, 0.0)), BallPivotEnd::EndOnIndex(0), pdir, rad).map_err(|e| e.to_string()));
    reset_budget();
    match r {
        Err(e) => {
            l.check("ball pivot terminates", if e.contains("VERIF_BUDGET") { "budget" } else { "panic" }, false, mk, || e.clone());
        }
        Ok(Err(e)) => {
            l.check("the walk round an open row returns to its start having touched every point", "rejected", false, mk, || e.clone());
        }
        Ok(Ok((idx, centres))) => {
            let mut ok = centres.len() + 1 == idx.len();
            let mut worst = 0.0f64;
            let mut inside = 0.0f64;
            for (k, c) in centres.iter().enumerate() {
                if k + 1 >= idx.len() {
                    break;
                }
                let (a, b) = (pts[idx[k]], pts[idx[k + 1]]);
                worst = worst.max((d2(c, &a) - rad).abs()).max((d2(c, &b) - rad).abs());
                for p in pts.iter() {
                    inside = inside.max(rad - d2(p, c));
                }
            }
            ok &= worst <= 1e-9 * sc && inside <= 1e-9 * sc;
            l.outcome(hash_of(&(idx.len(), n, 11u8)));
            l.check("every pivot step has its centre one radius from both hull points and no point strictly inside", "row", ok, mk, || format!("unit {:e}: indices {:?}, worst radius error {:e}, deepest point {:e} inside a ball", sc, idx, worst, inside));
            let all = (0..n).all(|i| idx.contains(&i));
            let back = idx.len() >= 2 && idx[0] == 0 && *idx.last().unwrap() == 0;
            l.check("the walk round an open row returns to its start having touched every point", "", all && back && idx.len() == 2 * n - 1, mk, || format!("unit {:e}: {} points, indices {:?}", sc, n, idx));
        }
    }
}

/// The ball started ON a given point of a filled lattice block (`which` x `which` points, spacing 1; `idx[0]` = the
/// start index, `idx[1]` = direction, `param` = radius): interior points are enclosed, for them no empty starting
/// ball exists. Whatever the routine answers, a reported walk must consist of empty balls.
fn judge_block_start(case: &Case, l: &mut Local) {
    let mk = || serde_json::to_value(case).unwrap();
    let k = case.which;
    // a sheared block, so that no four points are cocircular with the ball
    let pts: Vec<Point2> = (0..k * k).map(|i| Point2::new((i % k) as f64 + 0.13 * (i / k) as f64, (i / k) as f64 * 0.9)).collect();
    let rad = case.param;
    let pdir = if case.idx[1] == 0 { AngleDir::Ccw } else { AngleDir::Cw };
    l.eval();
    verif::set_budget(20_000);
    let r = guarded(|| ball_pivot_with_centers_2d(&pts, BallPivotStart::StartOnIndex(case.idx[0]), BallPivotEnd::EndOnRepeat, pdir, rad).map_err(|e| e.to_string()));
    reset_budget();
    match r {
        Err(e) => {
            l.check("ball pivot terminates", if e.contains("VERIF_BUDGET") { "budget" } else { "panic" }, false, mk, || e.clone());
        }
        Ok(Err(_)) => {
            l.bucket("ball pivot start on a point refused");
        }
        Ok(Ok((idx, centres))) => {
            l.bucket("ball pivot started on a given point");
            let mut deepest = 0.0f64;
            let mut worst = 0.0f64;
            for (j, c) in centres.iter().enumerate() {
                if j + 1 >= idx.len() {
                    break;
                }
                worst = worst.max((d2(c, &pts[idx[j]]) - rad).abs()).max((d2(c, &pts[idx[j + 1]]) - rad).abs());
                for p in pts.iter() {
                    deepest = deepest.max(rad - d2(p, c));
                }
            }
            l.outcome(hash_of(&(idx.len().min(20), 13u8)));
            l.check("every pivot step has its centre one radius from both hull points and no point strictly inside", "start on index", idx[0] == case.idx[0] && worst <= 1e-9 && deepest <= 1e-9, mk, || format!("start {} radius {}: indices {:?}, worst radius error {:e}, deepest point {:e} inside a ball", case.idx[0], rad, idx, worst, deepest));
        }
    }
}

fn sample_mesh(which: usize) -> Mesh {
    match which {
        0 => Mesh::create_box(1.0, 2.0, 3.0, false),
        1 => {
            let (v, f) = c02::solid("tetrahedron");
            Mesh::new(v, f, false)
        }
        3 => {
            // a face of negligible area between two ordinary ones: it takes (next to) no samples, and must not
            // shift the faces after it
            let v = vec![
                Point3::new(0.0, 0.0, 0.0), Point3::new(1.0, 0.0, 0.0), Point3::new(0.0, 1.0, 0.0),
                Point3::new(2.0, 0.0, 0.0), Point3::new(2.000001, 0.0, 0.0), Point3::new(2.0, 0.000001, 0.0),
                Point3::new(3.0, 0.0, 1.0), Point3::new(6.0, 0.0, 1.0), Point3::new(3.0, 1.0, 1.0),
            ];
            Mesh::new(v, vec![[0, 1, 2], [3, 4, 5], [6, 7, 8]], false)
        }
        _ => Mesh::new(vec![Point3::new(0.0, 0.0, 0.0), Point3::new(10.0, 0.0, 0.0), Point3::new(0.0, 0.1, 0.0), Point3::new(0.0, 0.0, 1.0)], vec![[0, 1, 2], [0, 3, 1]], false),
    }
}

fn on_face(m: &Mesh, p: &engeom::SurfacePoint3, eps: f64) -> Vec<usize> {
    let mut out = Vec::new();
    for (i, t) in m.tri_mesh().triangles().enumerate() {
        let cp = tri_closest(&t.a, &t.b, &t.c, &p.point);
        if d3(&cp, &p.point) <= eps && t.normal().map(|nn| (nn.into_inner() - p.normal.into_inner()).norm() < 1e-9).unwrap_or(false) {
            out.push(i);
        }
    }
    out
}

fn judge_uniform(case: &Case, l: &mut Local) {
    let mk = || serde_json::to_value(case).unwrap();
    let m = sample_mesh(case.which);
    let areas: Vec<f64> = m.tri_mesh().triangles().map(|t| t.area()).collect();
    let total: f64 = areas.iter().sum();
    let alphabet = verif::rand_shim::ALPHABET;
    let script = case.idx.clone();
    l.eval();
    l.transitions += 1;
    verif::install(script.clone());
    let r = guarded(|| m.sample_uniform(1));
    let log = verif::take_log();
    let pts = match r {
        Ok(p) => p,
        Err(e) => {
            l.check("uniform sampling returns", "panic", false, mk, || e.clone());
            return;
        }
    };
    l.check("uniform sampling makes three draws per point", "", log.len() == 3 && pts.len() == 1, mk, || format!("{:?}", log));
    let rr = alphabet[script[0]] * total;
    let mut cum = 0.0;
    let mut want = areas.len() - 1;
    for (i, a) in areas.iter().enumerate() {
        cum += a;
        if rr <= cum {
            want = i;
            break;
        }
    }
    let boundary = areas.iter().scan(0.0, |c, a| { *c += a; Some(*c) }).any(|c| (c - rr).abs() < 1e-9 * total);
    let faces = on_face(&m, &pts[0], 1e-9);
    l.bucket("scripted uniform draw");
    l.outcome(hash_of(&(want, case.which)));
    l.check("sampled point lies on the mesh and carries the normal of its face", "", !faces.is_empty(), mk, || format!("draws {:?}: {:?}", script, pts[0]));
    if boundary {
        l.gray("face draw exactly on a cumulative-area boundary");
    } else {
        l.check("the face hit is the inverse-CDF image of the face draw (area proportional)", "", faces.contains(&want), mk, || format!("draws {:?}: expected face {}, point on faces {:?}", script, want, faces));
    }
}

fn judge_dense(case: &Case, l: &mut Local) {
    let mk = || serde_json::to_value(case).unwrap();
    let m = sample_mesh(case.which);
    let sp = case.param;
    l.eval();
    l.bucket("dense sampling");
    let pts = match guarded(|| m.sample_dense(sp)) {
        Ok(p) => p,
        Err(e) => {
            l.check("dense sampling returns", "panic", false, mk, || e.clone());
            return;
        }
    };
    l.outcome(hash_of(&(pts.len().min(50), case.which)));
    let ok = !pts.is_empty() && pts.iter().all(|p| !on_face(&m, p, 1e-9).is_empty());
    l.check("dense samples lie on the surface with the normal of their face", "", ok, mk, || format!("spacing {}: {} points", sp, pts.len()));
}

fn judge_mpoisson(case: &Case, l: &mut Local) {
    let mk = || serde_json::to_value(case).unwrap();
    let m = sample_mesh(case.which);
    let rad = case.param;
    let cand: Vec<Point3> = m.sample_dense(rad * 0.5).iter().map(|p| p.point).collect();
    let class = tie_class(&cand, &(0..cand.len()).collect::<Vec<_>>());
    // deviation-bounded exploration of the scripted shuffle
    let (runs, outs, capped) = explore_choices(2, 3000, || {
        match guarded(|| m.sample_poisson(rad)) {
            Ok(pts) => {
                let mut why = String::new();
                if pts.is_empty() || !pts.iter().all(|p| !on_face(&m, p, 1e-9).is_empty()) {
                    why.push_str(" off-surface-or-wrong-normal");
                }
                for a in 0..pts.len() {
                    for b in a + 1..pts.len() {
                        if d3(&pts[a].point, &pts[b].point) < rad - 1e-9 {
                            why = format!("{} separation {:?} {:?}", why, pts[a].point, pts[b].point);
                        }
                    }
                }
                // coverage of the dense candidates
                let dense = m.sample_dense(rad * 0.5);
                if let Some(d) = dense.iter().find(|d| !pts.iter().any(|p| d3(&p.point, &d.point) <= rad + 1e-9)) {
                    why = format!("{} uncovered {:?}", why, d.point);
                }
                let ok = why.is_empty();
                if !ok {
                    return format!("BAD{}", &why[..why.len().min(200)]);
                }
                format!("{}", if ok { "OK" } else { "BAD" })
            }
            Err(e) => format!("PANIC {}", e),
        }
    });
    l.evals_n(runs as u64);
    l.transitions += runs as u64;
    l.bucket("scripted shuffle of the mesh Poisson sampler");
    if capped {
        l.cap("shuffle exploration capped at 3000 executions".into());
    }
    for (o, script) in outs.iter() {
        l.outcome(hash_of(&(o.as_str(), case.which)));
        l.check("mesh Poisson samples lie on the surface, are separated by the radius and cover the candidates under every explored shuffle", class, o == "OK", mk, || format!("r {}: {} under script {:?}", rad, o, script));
    }
}

pub fn judge(case: &Case, l: &mut Local) {
    l.distinct(hash_of(&serde_json::to_string(case).unwrap()));
    match case.kind.as_str() {
        "kd2" => {
            let lat = gen::lattice2(3);
            let sc = if case.param > 0.0 { case.param } else { 1.0 };
            let all: Vec<Point2> = lat.iter().map(|c| gen::p2(*c, sc)).collect();
            let pts: Vec<Point2> = case.idx.iter().map(|i| all[*i]).collect();
            let members: Vec<usize> = (0..pts.len()).collect();
            l.bucket(if case.idx.windows(2).any(|w| w[0] == w[1]) { "kd-tree with duplicate points" } else { "kd-tree with distinct points" });
            if sc != 1.0 {
                l.bucket("kd-tree at another length unit");
            }
            let tree = KdTree::new(&pts);
            let qs: Vec<Point2> = grid_queries2().iter().map(|q| Point2::from(q.coords * sc)).collect();
            judge_tree_scaled(&tree, &pts, &members, &qs, sc, case, l);
        }
        "kd3" => {
            let lat = gen::lattice3(2);
            let pts: Vec<Point3> = case.idx.iter().map(|i| gen::p3(lat[*i], 1.0)).collect();
            let members: Vec<usize> = (0..pts.len()).collect();
            let mut qs = Vec::new();
            for x in -1..=3 {
                for y in -1..=3 {
                    for z in -1..=3 {
                        qs.push(Point3::new(x as f64 * 0.5, y as f64 * 0.5, z as f64 * 0.5));
                    }
                }
            }
            l.bucket("3D kd-tree");
            let tree = KdTree::new(&pts);
            judge_tree(&tree, &pts, &members, &qs, case, l);
        }
        "kdbig" => {
            let pts: Vec<Point2> = match case.which {
                0 => (0..64).map(|i| Point2::new((i % 8) as f64 * 0.5, (i / 8) as f64 * 0.5)).collect(),
                1 => (0..40).map(|_| Point2::new(1.0, 1.0)).collect(),
                2 => (0..1000).map(|i| Point2::new(i as f64 * 0.004, 1.0)).collect(),
                _ => (0..60).map(|i| if i % 2 == 0 { Point2::new(0.01 * i as f64, 0.0) } else { Point2::new(3.0 + 0.01 * i as f64, 2.5) }).collect(),
            };
            let members: Vec<usize> = (0..pts.len()).collect();
            l.bucket("structured large kd-tree");
            l.sample(|| serde_json::to_value(case).unwrap());
            let tree = KdTree::new(&pts);
            judge_tree(&tree, &pts, &members, &grid_queries2(), case, l);
        }
        "kdmesh" => {
            // kd-tree over the dense samples of a mesh (many ties on axis-aligned faces)
            let m = sample_mesh(case.which);
            let pts: Vec<Point3> = m.sample_dense(case.param).iter().map(|p| p.point).collect();
            let members: Vec<usize> = (0..pts.len()).collect();
            l.bucket("kd-tree over gridded mesh samples");
            let tree = KdTree::new(&pts);
            let qs: Vec<Point3> = pts.iter().step_by((pts.len() / 40).max(1)).cloned().collect();
            judge_tree(&tree, &pts, &members, &qs, case, l);
        }
        "partial" => {
            let lat = gen::lattice2(3);
            let six: Vec<Point2> = [0usize, 1, 2, 4, 8, 8].iter().map(|i| gen::p2(lat[*i], 1.0)).collect();
            l.bucket("index-remapped partial tree");
            let t = PartialKdTree::new(&six, &case.idx);
            judge_tree(&t, &six, &case.idx, &grid_queries2(), case, l);
        }
        "poisson" => judge_poisson(case, l),
        "hull" => judge_hull(case, l),
        "diam" => judge_diam(case, l),
        "polygon" => judge_polygon(case, l),
        "row" => judge_row(case, l),
        "blockstart" => judge_block_start(case, l),
        "uniform" => judge_uniform(case, l),
        "dense" => judge_dense(case, l),
        "mpoisson" => judge_mpoisson(case, l),
        _ => {}
    }
}

pub fn perms(n: usize) -> Vec<Vec<usize>> {
    let mut out = Vec::new();
    let mut a: Vec<usize> = (0..n).collect();
    fn rec(k: usize, a: &mut Vec<usize>, out: &mut Vec<Vec<usize>>) {
        if k == a.len() {
            out.push(a.clone());
            return;
        }
        for i in k..a.len() {
            a.swap(k, i);
            rec(k + 1, a, out);
            a.swap(k, i);
        }
    }
    rec(0, &mut a, &mut out);
    out
}

pub fn cases(tier: Tier) -> Vec<Case> {
    let mut out = Vec::new();
    let c = |kind: &str, idx: Vec<usize>, which: usize, param: f64| Case { kind: kind.into(), idx, which, param };
    // every multiset of <= 4 points of the 3x3 lattice
    for a in 0..9 {
        out.push(c("kd2", vec![a], 0, 0.0));
        for b in a..9 {
            out.push(c("kd2", vec![a, b], 0, 0.0));
            // the same sets in nanometres and in kilometres
            out.push(c("kd2", vec![a, b], 0, 1e-9));
            out.push(c("kd2", vec![a, b], 0, 1e3));
            for d in b..9 {
                out.push(c("kd2", vec![a, b, d], 0, 0.0));
                out.push(c("kd2", vec![a, b, d], 0, 1e-9));
                for e in d..9 {
                    out.push(c("kd2", vec![a, b, d, e], 0, 0.0));
                }
            }
        }
    }
    for a in 0..8 {
        out.push(c("kd3", vec![a], 0, 0.0));
        for b in a..8 {
            out.push(c("kd3", vec![a, b], 0, 0.0));
            for d in b..8 {
                out.push(c("kd3", vec![a, b, d], 0, 0.0));
            }
        }
    }
    for which in 0..4 {
        out.push(c("kdbig", vec![], which, 0.0));
    }
    // every ordered subset of <= 4 of 6 points
    for a in 0..6 {
        out.push(c("partial", vec![a], 0, 0.0));
        for b in 0..6 {
            if b == a {
                continue;
            }
            out.push(c("partial", vec![a, b], 0, 0.0));
            for d in 0..6 {
                if d == a || d == b {
                    continue;
                }
                out.push(c("partial", vec![a, b, d], 0, 0.0));
                for e in 0..6 {
                    if e == a || e == b || e == d {
                        continue;
                    }
                    out.push(c("partial", vec![a, b, d, e], 0, 0.0));
                }
            }
        }
    }
    // ... and every ordering of all six (a partial tree over the whole set, visited in another order)
    for p in perms(6) {
        out.push(c("partial", p, 0, 0.0));
    }
    // poisson: every ordering of every subset (2..5) of 6 lattice points x radii
    for mask in 1u32..64 {
        let members: Vec<usize> = (0..6).filter(|i| mask & (1 << i) != 0).collect();
        if members.len() < 2 || members.len() > 5 {
            continue;
        }
        for p in perms(members.len()) {
            let order: Vec<usize> = p.iter().map(|i| members[*i]).collect();
            for rad in [0.5, 1.0, 1.2, 2.0] {
                out.push(c("poisson", order.clone(), 0, rad));
            }
        }
    }
    // hulls: every subset of 3..6 lattice points, plus sets with duplicates
    for mask in 0u32..512 {
        let members: Vec<usize> = (0..9).filter(|i| mask & (1 << i) != 0).collect();
        if members.len() < 3 || members.len() > 6 {
            continue;
        }
        out.push(c("hull", members.clone(), 0, 0.0));
        if members.len() <= 4 {
            let mut dup = members.clone();
            dup.push(members[0]);
            dup.push(members[1]);
            out.push(c("hull", dup, 0, 0.0));
        }
    }
    // diameters: every subset of 3..4 (thorough 6) points of the 5x5 lattice
    {
        let kmax = tier.pick(4, 6);
        fn subsets(start: usize, cur: &mut Vec<usize>, kmax: usize, out: &mut Vec<Vec<usize>>) {
            if cur.len() >= 3 {
                out.push(cur.clone());
            }
            if cur.len() == kmax {
                return;
            }
            for i in start..25 {
                cur.push(i);
                subsets(i + 1, cur, kmax, out);
                cur.pop();
            }
        }
        let mut all = Vec::new();
        subsets(0, &mut Vec::new(), kmax, &mut all);
        for m in all {
            out.push(c("diam", m, 0, 0.0));
        }
    }
    // the ball started on every point of filled 3x3 and 4x4 blocks, three radii, both directions
    for k in [3usize, 4] {
        for i in 0..k * k {
            for d in 0..2usize {
                for rad in [0.6, 0.75, 1.2] {
                    out.push(c("blockstart", vec![i, d], k, rad));
                }
            }
        }
    }
    // open wavy rows of 3..8 points x 3 waviness patterns x both rolling directions x 4 length units
    for n in 3..=8usize {
        for pat in 0..3usize {
            for d in 0..2usize {
                for unit in [1.0, 1e-7, 1e-3, 1e4] {
                    out.push(c("row", vec![pat, d], n, unit));
                }
            }
        }
    }
    // polygons: every cyclic sequence of 3..tier distinct lattice points (simplicity tested inside)
    let maxlen = tier.pick(5, 7);
    fn rec(cur: &mut Vec<usize>, maxlen: usize, out: &mut Vec<Vec<usize>>) {
        if cur.len() >= 3 {
            out.push(cur.clone());
        }
        if cur.len() == maxlen {
            return;
        }
        for i in 0..9 {
            if !cur.contains(&i) {
                cur.push(i);
                rec(cur, maxlen, out);
                cur.pop();
            }
        }
    }
    let mut seqs = Vec::new();
    rec(&mut Vec::new(), maxlen, &mut seqs);
    for s in seqs {
        out.push(c("polygon", s, 0, 0.0));
    }
    // scripted uniform sampling: all draw triples over the 6-value alphabet
    for which in 0..4 {
        for a in 0..6 {
            for b in 0..6 {
                for d in 0..6 {
                    out.push(c("uniform", vec![a, b, d], which, 0.0));
                }
            }
        }
        for sp in [0.3, 1.0, 5.0] {
            out.push(c("dense", vec![], which, sp));
        }
    }
    for which in 0..3 {
        for sp in [0.5, 0.25] {
            out.push(c("kdmesh", vec![], which, sp));
        }
    }
    for which in 0..2 {
        for rad in [1.0, 2.0] {
            out.push(c("mpoisson", vec![], which, rad));
        }
    }
    out
}

pub fn run(tier: Tier) -> i32 {
    let mut cx = Ctx::new("C15", tier, "exploration");
    cx.rule = "kd-trees: every multiset of <= 4 points of the 3x3 lattice and <= 3 of the 2x2x2 lattice (duplicates included), 4 structured large sets (8x8 grid, 40 duplicates, 1000 collinear, two clusters) x a half-integer query grid x k in {1,2,3,n,n+2} x 5 radii; partial tree: every ordered subset of <= 4 of 6 points; Poisson disk: every ordering of every subset (2..5) of 6 lattice points x 4 radii; hulls: every subset of 3..6 lattice points (+ duplicates); farthest pair on the hull of every subset of 3..4 (thorough 5) points of a 5x5 lattice given as a polygon from every start vertex; every simple lattice polygon with <= 5 (thorough 6) vertices in both orientations for order detection, from_points_ccw and ball pivot at 3 radii; mesh sampling with the RNG owned by the explorer: all 216 draw triples per mesh for sample_uniform, dense sampling at 3 spacings, the Poisson sampler's shuffle explored with <= 2 non-default draws. distinct = distinct cases".into();
    cx.bounds = json!({"kd2_multiset": 4, "kd3_multiset": 3, "partial_subset": 4, "poisson_subset": 5, "polygon_vertices": tier.pick(5, 7), "rng_alphabet": 6, "shuffle_deviations": 2});
    cx.require(&["ball pivot started on a given point", "ball pivot start on a point refused", "ball pivot round an open row", "ball pivot at another length unit", "kd-tree with duplicate points", "kd-tree with distinct points", "kd-tree at another length unit", "3D kd-tree", "structured large kd-tree", "kd-tree over gridded mesh samples", "index-remapped partial tree", "poisson-disk ordering", "collinear point set", "point set with duplicates", "general point set", "convex polygon given directly, every start vertex", "counter-clockwise simple polygon", "clockwise simple polygon", "ball pivot run", "ball pivot outline with filled gaps", "scripted uniform draw", "dense sampling", "scripted shuffle of the mesh Poisson sampler"]);
    cx.assume("ties exactly on the k-th neighbour or the radius boundary are gray (either answer accepted); uniformity beyond 'the face is the inverse-CDF image of the draw' is not claimed");
    let cs = cases(tier);
    let l = sweep(&cs, judge);
    cx.absorb(l);
    cx.finish()
}

pub fn replay(case: &Val) -> Local {
    let c: Case = serde_json::from_value(case.clone()).expect("case");
    let mut l = Local::new();
    judge(&c, &mut l);
    l
}
