//! C11 — circle, arc and tangent constructions satisfy their defining constraints.
use crate::engine::*;
use crate::gen;
use engeom::common::Intersection;
use engeom::geom2::{HasBounds2, Segment2};
use engeom::{Arc2, Circle2, Curve2, Point2, Vector2};
use serde::{Deserialize, Serialize};
use serde_json::json;
use std::f64::consts::{FRAC_PI_2, PI, TAU};

#[derive(Serialize, Deserialize, Clone, Debug)]
pub struct Case {
    /// pair | tangent | outer | line | curve | arc | arc3
    pub kind: String,
    pub r0: f64,
    pub r1: f64,
    /// regime / ratio / separation / sweep selector
    pub k: usize,
    /// direction index
    pub dir: usize,
    /// global offset index
    pub off: usize,
    pub verts: Vec<Vec<i32>>,
}

pub fn dirs() -> Vec<Vector2> {
    let mut v: Vec<Vector2> = (0..8)
        .map(|k| {
            let a = k as f64 * PI / 4.0 + 0.1 * (k % 3) as f64;
            Vector2::new(a.cos(), a.sin())
        })
        .collect();
    v.extend([Vector2::new(1.0, 0.0), Vector2::new(0.0, -1.0), Vector2::new(-1.0, 0.0), Vector2::new(0.0, 1.0), Vector2::new(0.6, 0.8)]);
    v
}
const AXIS_FROM: usize = 8;
const AXIS_TO: usize = 12;

pub fn offsets() -> [Vector2; 3] {
    // the third one (tens of thousands of kilometres from the origin) is used by the three-point arcs only
    [Vector2::new(0.0, 0.0), Vector2::new(100.0, -50.0), Vector2::new(3.0e7, -2.0e7)]
}

const REGIMES: [&str; 6] = ["concentric", "nested", "internally tangent", "crossing", "externally tangent", "separate"];
const RATIOS: [f64; 6] = [1.0 + 1e-6, 1.2, std::f64::consts::SQRT_2, 2.0, 5.0, 100.0];
const SEPS: [f64; 4] = [1.05, 1.1, 2.0, 5.0];

fn judge_pair(case: &Case, l: &mut Local) {
    let mk = || serde_json::to_value(case).unwrap();
    let off = offsets()[case.off];
    let dir = dirs()[case.dir];
    let (r0, r1) = (case.r0, case.r1);
    let rd = (r0 - r1).abs();
    let rs = r0 + r1;
    let kind = REGIMES[case.k];
    let d = [0.0, rd / 2.0, rd, (rd + rs) / 2.0, rs, 1.5 * rs][case.k];
    if (kind == "nested" || kind == "internally tangent") && rd == 0.0 {
        return;
    }
    let c0 = Circle2::new(off.x, off.y, r0);
    let c1p = Point2::new(off.x, off.y) + dir * d;
    let c1 = Circle2::new(c1p.x, c1p.y, r1);
    l.eval();
    l.bucket(kind);
    let pts = match guarded(|| c0.intersections_with(&c1)) {
        Ok(p) => p,
        Err(m) => {
            l.check("circle-circle intersection returns", "panic", false, mk, || m.clone());
            return;
        }
    };
    l.outcome(hash_of(&(pts.len(), case.k)));
    let finite = pts.iter().all(|p| p.x.is_finite() && p.y.is_finite());
    l.check("no non-finite coordinate is returned", kind, finite, mk, || format!("{} r0 {} r1 {} d {}: {:?}", kind, r0, r1, d, pts));
    let want: usize = match kind {
        "crossing" => 2,
        "internally tangent" | "externally tangent" => 1,
        _ => 0,
    };
    let exact = (AXIS_FROM..AXIS_TO).contains(&case.dir);
    let tangent = want == 1;
    if tangent && !exact {
        l.gray("tangency along a direction that is not exactly representable");
    } else {
        l.check("number of intersections matches the configuration", kind, pts.len() == want, mk, || format!("{} r0 {} r1 {} d {} dir {:?}: {} points {:?}", kind, r0, r1, d, dir, pts.len(), pts));
    }
    if finite {
        let worst = pts.iter().map(|p| c0.distance_to(p).abs().max(c1.distance_to(p).abs())).fold(0.0, f64::max);
        l.check("every intersection point lies on both circles", kind, worst <= 1e-7 * (1.0 + off.norm()), mk, || format!("{}: off by {:e}", kind, worst));
    }
    // the arc of the first circle that lies inside the second one
    match guarded(|| c0.intersection_interval(c1.clone())) {
        Ok(iv) => {
            if pts.len() == 2 && finite {
                let ok = match &iv {
                    Some(iv) => {
                        // both intersection points bound it, its middle is inside the other circle, the point
                        // opposite its middle is outside
                        let mid = iv.at_fraction(0.5);
                        let pm = c0.point_at_angle(mid);
                        let po = c0.point_at_angle(mid + PI);
                        let ends = [iv.at_fraction(0.0), iv.at_fraction(1.0)].iter().all(|a| pts.iter().any(|p| (c0.point_at_angle(*a) - p).norm() <= 1e-7 * (1.0 + off.norm())));
                        ends && c1.distance_to(&pm) < 0.0 && c1.distance_to(&po) > 0.0
                    }
                    None => false,
                };
                l.bucket("arc of one circle inside the other");
                l.check("the intersection interval is the arc of the first circle inside the second", kind, ok, mk, || format!("r0 {} r1 {} d {}: {:?}", r0, r1, d, iv));
            } else if pts.len() == 1 && finite {
                // tangent circles: the interval degenerates to the tangent point, seen from the first circle
                let ok = match &iv {
                    Some(iv) => (c0.point_at_angle(iv.at_fraction(0.0)) - pts[0]).norm() <= 1e-7 * (1.0 + off.norm()) && (c0.point_at_angle(iv.at_fraction(1.0)) - pts[0]).norm() <= 1e-7 * (1.0 + off.norm()),
                    None => false,
                };
                l.bucket("interval of tangent circles");
                l.check("the intersection interval of tangent circles is the tangent point on the first circle", kind, ok, mk, || format!("r0 {} r1 {} d {}: {:?} for tangent point {:?}", r0, r1, d, iv, pts[0]));
            } else if pts.is_empty() {
                l.check("no intersection interval without intersection points", kind, iv.is_none(), mk, || format!("{:?}", iv));
            }
        }
        Err(m) => {
            l.check("circle-circle intersection returns", "interval panic", false, mk, || m.clone());
        }
    }
    // projection onto the perimeter
    for q in [c1p, Point2::new(off.x + 0.3 * r0, off.y - 0.2 * r0), Point2::new(off.x - 3.0 * r0, off.y + r0)] {
        let v = q - c0.center;
        match c0.project_point_to_perimeter(&q) {
            Some(p) => {
                let ok = v.norm() >= 1e-10 && c0.distance_to(&p).abs() <= 1e-9 * (1.0 + off.norm()) && (p - c0.center).normalize().dot(&v.normalize()) >= 1.0 - 1e-12;
                l.check("projection onto the perimeter lies on the circle along the ray from the centre", "", ok, mk, || format!("{:?} -> {:?}", q, p));
            }
            None => {
                l.check("projection onto the perimeter lies on the circle along the ray from the centre", "none", v.norm() < 1e-10, mk, || format!("{:?} -> None", q));
            }
        }
    }
    // symmetric call
    if let Ok(q) = guarded(|| c1.intersections_with(&c0)) {
        l.check("intersection count is symmetric", kind, q.len() == pts.len() || (tangent && !exact), mk, || format!("{} vs {}", pts.len(), q.len()));
    }
}

fn judge_tangent(case: &Case, l: &mut Local) {
    let mk = || serde_json::to_value(case).unwrap();
    let off = offsets()[case.off];
    let dir = dirs()[case.dir];
    let r = case.r0;
    let ratio = RATIOS[case.k];
    let c = Circle2::new(off.x, off.y, r);
    let p = c.center + dir * (r * ratio);
    l.eval();
    l.bucket(if (ratio - std::f64::consts::SQRT_2).abs() < 1e-12 { "tangent from d/r = sqrt 2" } else { "tangent from another distance ratio" });
    match guarded(|| c.tangent_points_to(&p)) {
        Err(m) => {
            l.check("tangent points return", "panic", false, mk, || m.clone());
        }
        Ok(None) => {
            l.check("an external point has two tangent points", "", false, mk, || format!("r {} ratio {}: None", r, ratio));
        }
        Ok(Some((t0, t1))) => {
            l.outcome(hash_of(&(case.k, 1u8)));
            let mut worst_on = 0.0f64;
            let mut worst_perp = 0.0f64;
            for t in [t0, t1] {
                worst_on = worst_on.max(c.distance_to(&t).abs());
                worst_perp = worst_perp.max((t - c.center).dot(&(p - t)).abs() / (r * (p - t).norm().max(1e-300)));
            }
            // close to the circle the tangent direction is ill conditioned: sqrt(eps)-limited
            let perp_tol = if ratio < 1.0 + 1e-3 { 1e-4 } else { 1e-6 };
            l.check("tangent points lie on the circle with the tangent perpendicular to the radius", "", worst_on <= 1e-9 * (1.0 + off.norm()) && worst_perp <= perp_tol, mk, || {
                format!("r {} d/r {}: on-circle error {:e}, (T-c).(p-T)/(r |p-T|) = {:e}", r, ratio, worst_on, worst_perp)
            });
            let ld = c.center - p;
            let nrm = Vector2::new(ld.y, -ld.x);
            l.check("tangent points come in the documented left/right order", "", (t0 - p).dot(&nrm) < 0.0 && (t1 - p).dot(&nrm) > 0.0, mk, || format!("r {} ratio {}: {:?} {:?}", r, ratio, t0, t1));
        }
    }
    for f in [0.5, 1.0] {
        l.eval();
        let inside = c.center + dir * (r * f);
        let on_rounding = f == 1.0 && !(AXIS_FROM..AXIS_TO).contains(&case.dir);
        if on_rounding {
            continue;
        }
        l.check("a point on or inside the circle has no tangent points", "", c.tangent_points_to(&inside).is_none(), mk, || format!("r {} at {} r", r, f));
    }
}

fn judge_outer(case: &Case, l: &mut Local) {
    let mk = || serde_json::to_value(case).unwrap();
    let off = offsets()[case.off];
    let dir = dirs()[case.dir];
    let (r0, r1) = (case.r0, case.r1);
    let d = (r0 + r1) * SEPS[case.k];
    let c0 = Circle2::new(off.x, off.y, r0);
    let c1p = c0.center + dir * d;
    let c1 = Circle2::new(c1p.x, c1p.y, r1);
    l.eval();
    let equal = r0 == r1;
    l.bucket(if equal { "outer tangents, equal radii" } else if r0 > r1 { "outer tangents, larger to smaller" } else { "outer tangents, smaller to larger" });
    match guarded(|| c0.outer_tangents_to(&c1)) {
        Err(m) => {
            l.check("outer tangents return", "panic", false, mk, || m.clone());
        }
        Ok(None) => {
            l.check("separate circles have outer tangents", "", false, mk, || format!("r0 {} r1 {} d {}", r0, r1, d));
        }
        Ok(Some((s0, s1))) => {
            l.outcome(hash_of(&(equal, r0 > r1)));
            let mut worst_on = 0.0f64;
            let mut worst_perp = 0.0f64;
            for s in [&s0, &s1] {
                let sd = s.b - s.a;
                worst_on = worst_on.max(c0.distance_to(&s.a).abs()).max(c1.distance_to(&s.b).abs());
                worst_perp = worst_perp.max((s.a - c0.center).dot(&sd).abs() / (r0 * sd.norm())).max((s.b - c1.center).dot(&sd).abs() / (r1 * sd.norm()));
            }
            l.check("outer tangent segments end on their circles and are perpendicular to both radii", "", worst_on <= 1e-9 * (1.0 + off.norm()) && worst_perp <= 1e-6, mk, || {
                format!("r0 {} r1 {} d {}: on-circle error {:e}, perpendicularity {:e}", r0, r1, d, worst_on, worst_perp)
            });
            // documented: first segment in the negative half-space (left) of the line of centres
            let nrm = Vector2::new(dir.y, -dir.x);
            let ordered = (s0.a - c0.center).dot(&nrm) < 0.0 && (s1.a - c0.center).dot(&nrm) > 0.0;
            l.check("outer tangent segments come in the documented left/right order", if equal { "equal-radii" } else { "" }, ordered, mk, || {
                format!("r0 {} r1 {}: first segment starts at {:?}, second at {:?} (line of centres along {:?})", r0, r1, s0.a, s1.a, dir)
            });
        }
    }
    // the same pair in tenths of a micron (centres less than a micron apart)
    if case.off == 0 {
        let sc = 1e-7;
        let m0 = Circle2::new(0.0, 0.0, r0 * sc);
        let m1p = m0.center + dir * (d * sc);
        let m1 = Circle2::new(m1p.x, m1p.y, r1 * sc);
        l.eval();
        l.bucket("outer tangents of circles less than a micron apart");
        match guarded(|| m0.outer_tangents_to(&m1)) {
            Err(m) => {
                l.check("outer tangents return", "panic", false, mk, || format!("scale {:e}: {}", sc, m));
            }
            Ok(None) => {
                l.check("separate circles have outer tangents", "", false, mk, || format!("scale {:e}: r0 {} r1 {} d {}", sc, r0, r1, d));
            }
            Ok(Some((s0, s1))) => {
                let mut worst_on = 0.0f64;
                for s in [&s0, &s1] {
                    worst_on = worst_on.max(m0.distance_to(&s.a).abs()).max(m1.distance_to(&s.b).abs());
                }
                l.check("outer tangent segments end on their circles and are perpendicular to both radii", "micro", worst_on <= 1e-9 * sc, mk, || format!("scale {:e}: on-circle error {:e}", sc, worst_on));
            }
        }
    }
    // concentric -> None, nested -> no non-finite output
    l.eval();
    let cc = Circle2::new(off.x, off.y, r1 + 0.25);
    l.check("concentric circles have no outer tangents", "", matches!(guarded(|| c0.outer_tangents_to(&cc)), Ok(None)), mk, String::new);
    if r0 != r1 {
        let inner = Circle2::from_point(c0.center + dir * ((r0 - r1).abs() / 2.0), r1);
        if let Ok(Some((a, b))) = guarded(|| c0.outer_tangents_to(&inner)) {
            let fin = [a.a, a.b, b.a, b.b].iter().all(|p| p.x.is_finite() && p.y.is_finite());
            l.check("nested circles never yield non-finite tangent segments", "", fin, mk, || format!("{:?} {:?}", a.a, a.b));
        }
    }
}

fn judge_line(case: &Case, l: &mut Local) {
    let mk = || serde_json::to_value(case).unwrap();
    let off = offsets()[case.off];
    let dir = dirs()[case.dir];
    let r = case.r0;
    let c = Circle2::new(off.x, off.y, r);
    // a line constructed as the tangent at a point of the perimeter (perpendicular to the radius there): its
    // distance from the centre equals the radius up to rounding, far inside the routine's own tangency band
    // of 1e-10, so exactly one point comes back
    for k in 0..24 {
        l.eval();
        let a = 0.05 + k as f64 * std::f64::consts::TAU / 24.0 + 0.1 * case.dir as f64;
        let tp = c.point_at_angle(a);
        let td = Vector2::new(-a.sin(), a.cos());
        for len in [0.75, 3.0] {
            if let Ok(seg) = Segment2::try_new(tp - td * (len * r), tp + td * (len * r)) {
                match guarded(|| c.intersection(&seg)) {
                    Ok(p) => {
                        l.bucket("line built as a tangent at a perimeter point");
                        l.check("line-circle: one point when tangent", "constructed tangent", p.len() == 1 && (p[0] - tp).norm() <= 1e-6 * (1.0 + r + off.norm()), mk, || format!("tangent at angle {} of r {}: {:?}", a, r, p));
                    }
                    Err(m) => {
                        l.check("line-circle intersection returns", "panic", false, mk, || m.clone());
                    }
                }
            }
        }
    }
    for ox in -3..=3 {
        for oy in -3..=3 {
            for scale in [1.0, 2.5] {
                l.eval();
                let o = c.center + Vector2::new(ox as f64, oy as f64);
                let seg = match Segment2::try_new(o - dir * (20.0 * scale), o + dir * (20.0 * scale)) {
                    Ok(s) => s,
                    Err(_) => continue,
                };
                let pts = match guarded(|| c.intersection(&seg)) {
                    Ok(p) => p,
                    Err(m) => {
                        l.check("line-circle intersection returns", "panic", false, mk, || m.clone());
                        continue;
                    }
                };
                let dn = dir.normalize();
                let v = c.center - o;
                let dperp = (v.x * dn.y - v.y * dn.x).abs();
                let tangent = (dperp - r).abs() < 1e-9;
                let exact_tangent = (dperp - r) == 0.0 && (AXIS_FROM..AXIS_TO).contains(&case.dir);
                l.outcome(hash_of(&(pts.len(), tangent)));
                l.bucket(if tangent { "line tangent to the circle" } else if dperp > r { "line missing the circle" } else { "line crossing the circle" });
                let fin = pts.iter().all(|p| p.x.is_finite() && p.y.is_finite());
                l.check("line-circle: no non-finite coordinate", "", fin, mk, || format!("{:?}", pts));
                if exact_tangent {
                    l.check("line-circle: one point when tangent", "", pts.len() == 1, mk, || format!("r {} o ({},{}) dir {:?}: {:?}", r, ox, oy, dir, pts));
                } else if !tangent {
                    let want = if dperp > r { 0 } else { 2 };
                    l.check("line-circle: count matches the configuration", "", pts.len() == want, mk, || format!("r {} o ({},{}) dir {:?}: {:?} (distance {})", r, ox, oy, dir, pts, dperp));
                }
                if fin && !tangent {
                    let worst = pts
                        .iter()
                        .map(|p| {
                            let w = p - o;
                            c.distance_to(p).abs().max((w.x * dn.y - w.y * dn.x).abs())
                        })
                        .fold(0.0, f64::max);
                    l.check("line-circle: every point lies on both objects", "", worst <= 1e-7 * (1.0 + off.norm()), mk, || format!("off by {:e}", worst));
                }
                // short segment: only points within the segment
                if let Ok(short) = Segment2::try_new(o, o + dir * scale) {
                    if let Ok(sp) = guarded(|| c.intersection(&short)) {
                        let ok = sp.iter().all(|p| {
                            let t = (p - short.a).dot(&(short.b - short.a)) / (short.b - short.a).norm_squared();
                            (-1e-9..=1.0 + 1e-9).contains(&t) && c.distance_to(p).abs() <= 1e-7 * (1.0 + off.norm())
                        });
                        l.check("segment-circle: points lie on the segment and on the circle", "", ok, mk, || format!("{:?}", sp));
                    }
                }
            }
        }
    }
}


/// Segment against circle on integer data: centre, radius and both end points are integers, so the
/// number of roots of |P + t(Q-P) - C|^2 = r^2 inside [0, 1] is decided in exact integer arithmetic,
/// including end points lying exactly on the circle (r = 5 has twelve lattice points).
fn judge_segment_exact(case: &Case, l: &mut Local) {
    let mk = || serde_json::to_value(case).unwrap();
    let (cx, cy) = (case.verts[0][0] as i64, case.verts[0][1] as i64);
    let (px, py) = (case.verts[1][0] as i64, case.verts[1][1] as i64);
    let r = case.r0 as i64;
    let c = Circle2::new(cx as f64, cy as f64, r as f64);
    for qx in -6..=6i64 {
        for qy in -6..=6i64 {
            if (qx, qy) == (px, py) {
                continue;
            }
            l.eval();
            let (dx, dy) = (qx - px, qy - py);
            let a = dx * dx + dy * dy;
            let b = 2 * (dx * px + dy * py);
            let cc = px * px + py * py - r * r;
            let disc = b * b - 4 * a * cc;
            let p = Point2::new((cx + px) as f64, (cy + py) as f64);
            let q = Point2::new((cx + qx) as f64, (cy + qy) as f64);
            let seg = match Segment2::try_new(p, q) {
                Ok(s) => s,
                Err(_) => continue,
            };
            let got = match guarded(|| c.intersection(&seg)) {
                Ok(g) => g,
                Err(m) => {
                    l.check("segment-circle intersection returns", "panic", false, mk, || m.clone());
                    continue;
                }
            };
            if disc == 0 {
                l.gray("segment on a tangent line (count decided by rounding)");
                continue;
            }
            let want = if disc < 0 {
                0
            } else {
                let f1 = a + b + cc;
                let t1 = (b <= 0 && cc >= 0) && (b + 2 * a >= 0 || f1 <= 0);
                let t2 = (b <= 0 || cc <= 0) && (2 * a + b >= 0 && f1 >= 0);
                t1 as usize + t2 as usize
            };
            let on_circle_end = cc == 0 || a + b + cc == 0;
            l.bucket(if on_circle_end { "segment with an end point exactly on the circle" } else if want == 0 { "segment missing the circle" } else { "segment crossing the circle" });
            l.outcome(hash_of(&("segexact", want, on_circle_end)));
            l.check("segment-circle: the number of points is the number of roots inside the segment, end points included", "", got.len() == want, mk, || {
                format!("centre ({},{}) r {} P ({},{}) Q ({},{}): {} point(s) {:?}, exact count {}", cx, cy, r, cx + px, cy + py, cx + qx, cy + qy, got.len(), got, want)
            });
            let ok = got.iter().all(|x| x.x.is_finite() && x.y.is_finite() && c.distance_to(x).abs() <= 1e-9 && crate::refmodel::poly_dist2(&[p, q], x) <= 1e-9);
            l.check("segment-circle: points lie on the segment and on the circle", "", ok, mk, || format!("{:?}", got));
        }
    }
}

fn judge_curve(case: &Case, l: &mut Local) {
    let mk = || serde_json::to_value(case).unwrap();
    // the same configuration in metres, in tenths of a micron and in tens of kilometres
    for sc in [1.0, 1e-7, 1e4] {
        let pts: Vec<Point2> = case.verts.iter().map(|c| gen::p2([c[0], c[1]], sc)).collect();
        let curve = match Curve2::from_points(&pts, 1e-9 * sc, false) {
            Ok(c) => c,
            Err(_) => return,
        };
        let v = curve.points().to_vec();
        for (cx, cy, r) in [(1.0, 1.0, 0.75), (0.3, 0.2, 1.1), (2.5, 1.0, 1.0), (1.0, 1.0, 5.0), (0.5, 0.5, 0.5)] {
            l.eval();
            let c = Circle2::new(cx * sc, cy * sc, r * sc);
            let got = match guarded(|| curve.intersection(&c)) {
                Ok(g) => g,
                Err(m) => {
                    l.check("curve-circle intersection returns", "panic", false, mk, || format!("scale {:e}: {}", sc, m));
                    continue;
                }
            };
            l.bucket(if sc == 1.0 { "curve against circle" } else { "curve against circle at another scale" });
            l.outcome(hash_of(&(got.len().min(6), 7u8)));
            let ok = got.iter().all(|p| p.x.is_finite() && c.distance_to(p).abs() <= 1e-7 * sc && crate::refmodel::poly_dist2(&v, p) <= 1e-7 * sc);
            l.check("curve-circle: every point lies on both objects", "", ok, mk, || format!("scale {:e}: {:?}", sc, got));
            // robust reference count: edges with one end strictly inside and one strictly outside cross once
            let mut robust = 0;
            for i in 0..v.len() - 1 {
                let (a, b) = (c.distance_to(&v[i]), c.distance_to(&v[i + 1]));
                if (a < -1e-6 * sc && b > 1e-6 * sc) || (a > 1e-6 * sc && b < -1e-6 * sc) {
                    robust += 1;
                }
                // an edge with both ends outside that passes through the circle crosses it twice
                if a > 1e-6 * sc && b > 1e-6 * sc {
                    let e = v[i + 1] - v[i];
                    let t = (c.center - v[i]).dot(&e) / e.norm_squared();
                    if t > 1e-6 && t < 1.0 - 1e-6 && (v[i] + e * t - c.center).norm() < c.r() - 1e-6 * sc {
                        robust += 2;
                    }
                }
            }
            l.check("curve-circle: every edge leaving, entering or passing through the circle contributes its points", "", got.len() >= robust, mk, || format!("scale {:e}: {} points for {} in/out edges", sc, got.len(), robust));
        }
    }
}

fn arc_points(a: &Arc2, n: usize) -> Vec<Point2> {
    (0..=n).map(|k| a.point_at_fraction(k as f64 / n as f64)).collect()
}

fn judge_aabb(a: &Arc2, mk: &dyn Fn() -> Val, tag: &str, l: &mut Local) {
    let bb = a.aabb();
    let r = a.radius();
    let pts = arc_points(a, 2000);
    let eps = 1e-9 * (1.0 + a.center().coords.norm() + r);
    let contains = pts.iter().all(|p| p.x >= bb.mins.x - eps && p.x <= bb.maxs.x + eps && p.y >= bb.mins.y - eps && p.y <= bb.maxs.y + eps);
    l.check("cached bounding box contains the arc", tag, contains, mk, || format!("box {:?}..{:?}", bb.mins, bb.maxs));
    let (mut x0, mut x1, mut y0, mut y1) = (f64::MAX, f64::MIN, f64::MAX, f64::MIN);
    for p in &pts {
        x0 = x0.min(p.x);
        x1 = x1.max(p.x);
        y0 = y0.min(p.y);
        y1 = y1.max(p.y);
    }
    let t = 1e-5 * r + eps;
    let touches = (bb.mins.x - x0).abs() <= t && (bb.maxs.x - x1).abs() <= t && (bb.mins.y - y0).abs() <= t && (bb.maxs.y - y1).abs() <= t;
    l.check("cached bounding box touches the arc on all four sides", tag, touches, mk, || {
        format!("box {:?}..{:?} vs sampled extent ({}, {})..({}, {})", bb.mins, bb.maxs, x0, y0, x1, y1)
    });
}

const ARC_CENTRES: [(f64, f64); 3] = [(0.0, 0.0), (3.0, -2.0), (-100.0, 40.0)];
const SWEEPS: [f64; 12] = [0.1, -0.1, 1.0, -1.0, FRAC_PI_2, -FRAC_PI_2, PI, -PI, 4.0, -4.0, TAU, -TAU];

fn arc_angles() -> Vec<f64> {
    let mut v = Vec::new();
    for k in -4..=4 {
        let a = k as f64 * FRAC_PI_2;
        v.push(a);
        v.push(a + 1e-9);
        v.push(a - 1e-9);
    }
    v.extend([0.3, -2.0, 5.5]);
    v
}

fn judge_arc(case: &Case, l: &mut Local) {
    let mk = || serde_json::to_value(case).unwrap();
    let (cx, cy) = ARC_CENTRES[case.off];
    let r = case.r0;
    let a0 = arc_angles()[case.dir];
    let sw = SWEEPS[case.k];
    l.eval();
    let arc = match guarded(|| Arc2::circle_angles(Point2::new(cx, cy), r, a0, sw)) {
        Ok(a) => a,
        Err(m) => {
            l.check("arc construction returns", "panic", false, mk, || m.clone());
            return;
        }
    };
    l.bucket(if sw < 0.0 { "clockwise arc" } else { "counter-clockwise arc" });
    l.outcome(hash_of(&(case.k, case.dir % 3)));
    let len = arc.length();
    let mut ok = (len - r * sw.abs()).abs() <= 1e-12 * (1.0 + len);
    for f in [0.0, 0.25, 0.5, 1.0] {
        let p = arc.point_at_fraction(f);
        let q = arc.point_at_length(f * len);
        let e = Point2::new(cx + r * (a0 + sw * f).cos(), cy + r * (a0 + sw * f).sin());
        ok &= (p - q).norm() <= 1e-9 * (1.0 + r) && (p - e).norm() <= 1e-9 * (1.0 + r + cx.abs());
    }
    ok &= (arc.start() - arc.point_at_fraction(0.0)).norm() <= 1e-12 && (arc.end() - arc.point_at_fraction(1.0)).norm() <= 1e-12;
    l.check("arc length, point-at-length and point-at-fraction agree", "", ok, mk, || format!("length {} r {} sweep {}", len, r, sw));
    judge_aabb(&arc, &mk, "", l);
    // the same arc through the circle API and via a start point
    let c = Circle2::new(cx, cy, r);
    let via = c.to_partial_arc(a0, sw);
    let via2 = Arc2::circle_point_angle(Point2::new(cx, cy), r, c.point_at_angle(a0), sw);
    let same = (via.aabb().mins - arc.aabb().mins).norm() <= 1e-9 && (via.aabb().maxs - arc.aabb().maxs).norm() <= 1e-9;
    l.check("partial arc built from the circle has the same box", "", same, mk, String::new);
    let ends = (via2.start() - arc.start()).norm() <= 1e-9 * (1.0 + r + cx.abs()) && (via2.end() - arc.end()).norm() <= 1e-9 * (1.0 + r + cx.abs());
    l.check("arc built from a start point has the same ends", "", ends, mk, String::new);
    if case.k == 0 {
        // the full circle
        let full = c.to_arc();
        judge_aabb(&full, &mk, "full circle", l);
        let bb = c.aabb();
        l.check("circle bounding box is centre +- radius", "", (bb.mins - Point2::new(cx - r, cy - r)).norm() <= 1e-12 && (bb.maxs - Point2::new(cx + r, cy + r)).norm() <= 1e-12, mk, String::new);
        // circles that come out of the other constructors carry their own box too: through three of its
        // points, fitted from a guess elsewhere, found by RANSAC, built around a point
        let samples: Vec<Point2> = (0..24).map(|i| c.point_at_angle(0.1 + i as f64 * std::f64::consts::TAU / 24.0)).collect();
        let guess = Circle2::new(cx + 0.3 * r, cy - 0.2 * r, 1.2 * r);
        let built: Vec<(&str, Option<Circle2>)> = vec![
            ("three points", Circle2::from_3_points(samples[0], samples[7], samples[15]).ok()),
            ("fitted", Circle2::fitting_circle(&samples, &guess, engeom::common::BestFit::All).ok()),
            ("ransac", Circle2::ransac(&samples, 1e-6 * r, Some(50), None, None).ok()),
            ("from point", Some(Circle2::from_point(Point2::new(cx, cy), r))),
        ];
        // a circle (and an arc) written out and read back carries the same box
        let restored = serde_json::to_string(&c).ok().and_then(|t| serde_json::from_str::<Circle2>(&t).ok());
        let arc_restored = serde_json::to_string(&arc).ok().and_then(|t| serde_json::from_str::<Arc2>(&t).ok());
        if let Some(ar) = &arc_restored {
            judge_aabb(ar, &mk, "restored arc", l);
        }
        l.check("circle and arc survive serialisation", "", restored.is_some() && arc_restored.is_some(), mk, String::new);
        let mut built = built;
        built.push(("restored", restored));
        for (name, made) in built {
            match made {
                Some(m) => {
                    let bb = m.aabb();
                    let e = 1e-9 * (1.0 + r + cx.abs() + cy.abs());
                    let ok = (bb.mins - Point2::new(m.x() - m.r(), m.y() - m.r())).norm() <= e && (bb.maxs - Point2::new(m.x() + m.r(), m.y() + m.r())).norm() <= e && (m.x() - cx).abs() <= 1e-6 * (1.0 + r) && (m.r() - r).abs() <= 1e-6 * (1.0 + r);
                    l.bucket("circle from another constructor");
                    l.check("circle bounding box is centre +- radius", name, ok, mk, || format!("{}: centre ({}, {}) r {} box {:?}..{:?}", name, m.x(), m.y(), m.r(), bb.mins, bb.maxs));
                    judge_aabb(&m.to_arc(), &mk, name, l);
                }
                None => {
                    l.check("circle constructors return on exact samples", name, false, mk, String::new);
                }
            }
        }
    }
}

fn judge_arc3(case: &Case, l: &mut Local) {
    let mk = || serde_json::to_value(case).unwrap();
    let p: Vec<Point2> = case.verts.iter().map(|c| gen::p2([c[0], c[1]], case.r0) + offsets()[case.off]).collect();
    let (p0, p1, p2) = (p[0], p[1], p[2]);
    let det = (p1.x - p0.x) * (p2.y - p0.y) - (p1.y - p0.y) * (p2.x - p0.x);
    l.eval();
    let scale = case.r0;
    // collinearity is decided exactly on the integer lattice coordinates of the case
    let iv: Vec<(i64, i64)> = case.verts.iter().map(|c| (c[0] as i64, c[1] as i64)).collect();
    let idet = (iv[1].0 - iv[0].0) * (iv[2].1 - iv[0].1) - (iv[1].1 - iv[0].1) * (iv[2].0 - iv[0].0);
    let collinear = idet == 0;
    let circ = guarded(|| Circle2::from_3_points(p0, p1, p2));
    let circ = match circ {
        Ok(c) => c,
        Err(m) => {
            l.check("three-point circle returns", "panic", false, mk, || m.clone());
            return;
        }
    };
    if collinear {
        l.bucket("collinear triple");
        l.check("collinear points are rejected", "", circ.is_err(), mk, || format!("{:?}", p));
        return;
    }
    if scale < 0.01 {
        l.bucket("general triple with coordinates below 0.01");
    }
    match circ {
        Err(_) => {
            // the lattice angles are never small: a triangle of any size and position gives a circle
            l.check("non-collinear points give a circle", "", false, mk, || format!("{:?} (lattice determinant {}, scale {})", p, idet, scale));
            return;
        }
        Ok(c) => {
            let worst = [p0, p1, p2].iter().map(|q| c.distance_to(q).abs()).fold(0.0, f64::max);
            l.check("three-point circle passes through its points", "", worst <= 1e-9 * (scale + c.r() + offsets()[case.off].norm()), mk, || format!("{:?}: off by {:e}", p, worst));
        }
    }
    l.bucket("general triple");
    let arc = match guarded(|| Arc2::three_points(p0, p1, p2)) {
        Ok(a) => a,
        Err(m) => {
            l.check("three-point arc returns", "panic", false, mk, || m.clone());
            return;
        }
    };
    l.outcome(hash_of(&(arc.angle > 0.0, 9u8)));
    let eps = 1e-9 * (scale + arc.radius() + offsets()[case.off].norm());
    let ends = (arc.start() - p0).norm() <= eps && (arc.end() - p2).norm() <= eps;
    l.check("three-point arc starts at the first and ends at the third point", "", ends, mk, || format!("start {:?} end {:?} for {:?}", arc.start(), arc.end(), p));
    // passes through the second: its angular position lies inside the sweep
    let c = arc.circle;
    let a1 = c.angle_of_point(&p1);
    let rel = if arc.angle >= 0.0 { (a1 - arc.angle0).rem_euclid(TAU) } else { (arc.angle0 - a1).rem_euclid(TAU) };
    l.check("three-point arc passes through the second point", "", rel <= arc.angle.abs() + 1e-9, mk, || format!("middle point at {} of sweep {}", rel, arc.angle));
    l.check("sweep sign equals the orientation of the triple", "", (arc.angle > 0.0) == (idet > 0), mk, || format!("lattice determinant {} sweep {}", idet, arc.angle));
    judge_aabb(&arc, &mk, "three-point", l);
}

/// Triangles with two very unequal sides meeting at a small angle (a long chord and a short one from the same
/// point): in general position, so a circle passes through them. `k` = angle index, `dir` = length pair.
fn judge_thin3(case: &Case, l: &mut Local) {
    let mk = || serde_json::to_value(case).unwrap();
    let theta: f64 = [5e-4, 3e-3, 0.05, 0.7][case.k % 4];
    let (long, short) = [(1000.0, 1e-3), (1000.0, 1.0), (1.0, 1e-3), (50.0, 0.02)][case.dir % 4];
    let off = offsets()[case.off % 2];
    let p1 = Point2::origin() + off;
    let p0 = p1 + Vector2::new(long, 0.0);
    let p2 = p1 + Vector2::new(short * theta.cos(), short * theta.sin());
    l.eval();
    l.bucket("thin triangle with very unequal sides");
    match guarded(|| Circle2::from_3_points(p0, p1, p2)) {
        Ok(Ok(c)) => {
            // the points are compared with the circle relative to its (large) radius
            let worst = [p0, p1, p2].iter().map(|q| c.distance_to(q).abs()).fold(0.0, f64::max);
            l.outcome(hash_of(&(case.k, case.dir, 23u8)));
            l.check("three-point circle passes through its points", "thin", worst <= 1e-9 * (c.r() + long + off.norm()), mk, || format!("sides {} and {} at {} rad: off by {:e} (radius {:e})", long, short, theta, worst, c.r()));
        }
        Ok(Err(e)) => {
            l.check("non-collinear points give a circle", "thin", false, mk, || format!("sides {} and {} at {} rad: {}", long, short, theta, e));
        }
        Err(m) => {
            l.check("three-point circle returns", "panic", false, mk, || m.clone());
        }
    }
}

pub fn judge(case: &Case, l: &mut Local) {
    l.distinct(hash_of(&serde_json::to_string(case).unwrap()));
    if case.dir == 3 && case.k == 3 {
        l.sample(|| serde_json::to_value(case).unwrap());
    }
    match case.kind.as_str() {
        "pair" => judge_pair(case, l),
        "tangent" => judge_tangent(case, l),
        "outer" => judge_outer(case, l),
        "line" => judge_line(case, l),
        "curve" => judge_curve(case, l),
        "segexact" => judge_segment_exact(case, l),
        "arc" => judge_arc(case, l),
        "arc3" => judge_arc3(case, l),
        "thin3" => judge_thin3(case, l),
        _ => {}
    }
}

pub fn cases(tier: Tier) -> Vec<Case> {
    let mut out = Vec::new();
    let nd = dirs().len();
    let base = |kind: &str| Case { kind: kind.into(), r0: 1.0, r1: 1.0, k: 0, dir: 0, off: 0, verts: vec![] };
    for off in 0..2 {
        for r0 in [0.5, 1.0, 2.0] {
            for r1 in [0.5, 1.0, 2.0, 3.0] {
                for k in 0..6 {
                    for dir in 0..nd {
                        out.push(Case { r0, r1, k, dir, off, ..base("pair") });
                    }
                }
                for k in 0..SEPS.len() {
                    for dir in 0..nd {
                        out.push(Case { r0, r1, k, dir, off, ..base("outer") });
                    }
                }
            }
        }
        for r in [0.5, 1.0, 4.0] {
            for k in 0..RATIOS.len() {
                for dir in 0..nd {
                    out.push(Case { r0: r, k, dir, off, ..base("tangent") });
                }
            }
        }
        for r in [0.5, 2.0] {
            for dir in 0..nd {
                out.push(Case { r0: r, dir, off, ..base("line") });
            }
        }
    }
    let lat = gen::lattice2(3);
    for s in gen::seqs(lat.len(), 2, tier.pick(3, 4)) {
        out.push(Case { verts: s.iter().map(|i| lat[*i].to_vec()).collect(), ..base("curve") });
    }
    // integer segments against integer circles (first end point listed, the second enumerated by the judge)
    for centre in [[0, 0], [3, -2]] {
        for r in [1.0, 2.0, 5.0] {
            for px in -6..=6 {
                for py in -6..=6 {
                    out.push(Case { r0: r, verts: vec![centre.to_vec(), vec![px, py]], ..base("segexact") });
                }
            }
        }
    }
    for off in 0..3 {
        for r in [0.5, 4.0] {
            for dir in 0..arc_angles().len() {
                for k in 0..SWEEPS.len() {
                    out.push(Case { r0: r, k, dir, off, ..base("arc") });
                }
            }
        }
    }
    for k in 0..4 {
        for dir in 0..4 {
            for off in 0..2 {
                out.push(Case { k, dir, off, ..base("thin3") });
            }
        }
    }
    for s in gen::seqs(lat.len(), 3, 3) {
        if s[0] == s[2] {
            continue;
        }
        for off in 0..2 {
            for scale in [1.0, 1e-3, 50.0] {
                out.push(Case { r0: scale, off, verts: s.iter().map(|i| lat[*i].to_vec()).collect(), ..base("arc3") });
            }
        }
        // small triangles very far from the origin (the orientation must come from coordinate differences)
        for scale in [0.05, 1.0] {
            out.push(Case { r0: scale, off: 2, verts: s.iter().map(|i| lat[*i].to_vec()).collect(), ..base("arc3") });
        }
    }
    out
}

pub fn run(tier: Tier) -> i32 {
    let mut cx = Ctx::new("C11", tier, "exploration");
    cx.rule = "circle pairs: r0 in {0.5,1,2} x r1 in {0.5,1,2,3} x 6 regimes (concentric, nested, internally tangent, crossing, externally tangent, separate) x 13 directions (4 exactly representable) x 2 global offsets; external points at d/r in {1+1e-6, 1.2, sqrt2, 2, 5, 100} x 13 directions x 3 radii; outer tangents over radius pairs x 4 separations; lines/segments through a 7x7 grid of origins x 13 directions x 2 lengths; every small lattice curve against 5 circles; every ordered pair of integer points of a 13x13 lattice as a segment against integer circles (r in {1,2,5}, two centres), count decided in exact integer arithmetic; arcs over 3 centres x 2 radii x 30 start angles (k*pi/2 and +-1e-9) x 12 signed sweeps up to +-2pi; three-point arcs from every ordered triple of the 3x3 lattice at 3 scales and 2 offsets. distinct = distinct cases".into();
    cx.bounds = json!({"directions": dirs().len(), "ratios": RATIOS, "separations": SEPS, "sweeps": SWEEPS.len(), "start_angles": arc_angles().len()});
    cx.require(&["concentric", "nested", "internally tangent", "crossing", "externally tangent", "separate", "arc of one circle inside the other", "circle from another constructor", "interval of tangent circles", "tangent from d/r = sqrt 2", "tangent from another distance ratio", "outer tangents, equal radii", "outer tangents, larger to smaller", "outer tangents, smaller to larger", "line tangent to the circle", "line built as a tangent at a perimeter point", "line missing the circle", "line crossing the circle", "curve against circle", "segment with an end point exactly on the circle", "segment missing the circle", "segment crossing the circle", "clockwise arc", "counter-clockwise arc", "collinear triple", "general triple", "general triple with coordinates below 0.01"]);
    cx.assume("exact tangency (one point) is demanded only along exactly representable directions; elsewhere either neighbour count is accepted (gray)");
    let cs = cases(tier);
    let l = sweep(&cs, judge);
    cx.absorb(l);
    cx.finish()
}

pub fn replay(case: &Val) -> Local {
    let c: Case = serde_json::from_value(case.clone()).expect("case");
    let mut l = Local::new();
    judge(&c, &mut l);
    l
}
