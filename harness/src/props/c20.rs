//! C20 — conformal flattening is an isometry on planar disks and never folds them.
use crate::engine::*;
use crate::gen;
use crate::props::c02;
use crate::refmodel::*;
use engeom::geom3::UvMapping;
use engeom::{Mesh, Point2, Point3, Vector3};
use serde::{Deserialize, Serialize};
use serde_json::json;
use std::collections::BTreeMap;

#[derive(Serialize, Deserialize, Clone, Debug)]
pub struct Case {
    /// grid | fan | reject | curved
    pub kind: String,
    pub nx: usize,
    pub ny: usize,
    /// diagonal assignment of the cells
    pub bits: u32,
    /// index of a removed corner cell, or -1
    pub drop: i64,
    /// interior-vertex displacement pattern index
    pub jitter: usize,
    /// vertex relabelling: index into the permutation menu
    pub relabel: usize,
    pub pose: usize,
    pub name: String,
}

fn grid(case: &Case) -> Option<(Vec<Point3>, Vec<[u32; 3]>)> {
    let (nx, ny) = (case.nx, case.ny);
    let cells = (nx - 1) * (ny - 1);
    let mut v = Vec::new();
    for j in 0..ny {
        for i in 0..nx {
            let interior = i > 0 && j > 0 && i + 1 < nx && j + 1 < ny;
            let (mut dx, mut dy) = (0.0, 0.0);
            if interior && case.jitter > 0 && case.jitter < 3 {
                let k = (i * 3 + j * 5 + case.jitter) % 4;
                dx = [0.25, -0.25, 0.0, 0.25][k];
                dy = [0.0, 0.25, -0.25, -0.25][k];
            }
            // pattern 3 shears the whole grid (obtuse triangles everywhere)
            let shear = if case.jitter == 3 { 0.8 * j as f64 * 1.25 } else { 0.0 };
            v.push(Point3::new(i as f64 + dx + shear, j as f64 * 1.25 + dy, 0.0));
        }
    }
    let mut f: Vec<[u32; 3]> = Vec::new();
    let corner_cells = [0, nx - 2, (ny - 2) * (nx - 1), cells - 1];
    if case.drop >= 0 && (!corner_cells.contains(&(case.drop as usize)) || cells < 3) {
        return None;
    }
    for cj in 0..ny - 1 {
        for ci in 0..nx - 1 {
            let cidx = cj * (nx - 1) + ci;
            if case.drop >= 0 && cidx == case.drop as usize {
                continue;
            }
            let a = (cj * nx + ci) as u32;
            let b = a + 1;
            let c = a + nx as u32;
            let d = c + 1;
            if case.bits & (1 << cidx) == 0 {
                f.push([a, b, d]);
                f.push([a, d, c]);
            } else {
                f.push([a, b, c]);
                f.push([b, d, c]);
            }
        }
    }
    // compact unused vertices
    let mut used: Vec<u32> = f.iter().flat_map(|t| t.iter().cloned()).collect();
    used.sort();
    used.dedup();
    let map: BTreeMap<u32, u32> = used.iter().enumerate().map(|(i, u)| (*u, i as u32)).collect();
    let vv: Vec<Point3> = used.iter().map(|u| v[*u as usize]).collect();
    let ff: Vec<[u32; 3]> = f.iter().map(|t| [map[&t[0]], map[&t[1]], map[&t[2]]]).collect();
    Some((vv, ff))
}

fn fan(k: usize) -> (Vec<Point3>, Vec<[u32; 3]>) {
    // k triangles around a boundary vertex (no interior vertex)
    let mut v = vec![Point3::new(0.0, 0.0, 0.0)];
    for i in 0..=k {
        let a = 0.2 + 2.4 * i as f64 / k as f64;
        v.push(Point3::new((1.0 + 0.3 * (i % 2) as f64) * a.cos(), (1.0 + 0.3 * (i % 2) as f64) * a.sin(), 0.0));
    }
    let f = (0..k as u32).map(|i| [0, i + 1, i + 2]).collect();
    (v, f)
}

/// k-th permutation of 0..n in a fixed menu: identity, reversal, rotation, two shuffles, and for
/// small n every permutation (lexicographic)
fn permutation(n: usize, k: usize) -> Option<Vec<usize>> {
    if n <= 6 {
        let mut items: Vec<usize> = (0..n).collect();
        let mut out = Vec::new();
        let mut f: usize = (1..=n).product();
        if k >= f {
            return None;
        }
        let mut kk = k;
        for m in (1..=n).rev() {
            f /= m;
            out.push(items.remove(kk / f));
            kk %= f;
        }
        Some(out)
    } else {
        let p: Vec<usize> = match k {
            0 => (0..n).collect(),
            1 => (0..n).rev().collect(),
            2 => (0..n).map(|i| (i + n / 2) % n).collect(),
            3 => (0..n).map(|i| (i * 5 + 3) % n).collect(),
            4 => (0..n).map(|i| (i * 7 + 1) % n).collect(),
            _ => return None,
        };
        let mut chk = p.clone();
        chk.sort();
        chk.dedup();
        if chk.len() != n {
            return None;
        }
        Some(p)
    }
}

fn relabelled(v: &[Point3], f: &[[u32; 3]], p: &[usize]) -> (Vec<Point3>, Vec<[u32; 3]>) {
    let mut v2 = vec![Point3::origin(); v.len()];
    for (old, new) in p.iter().enumerate() {
        v2[*new] = v[old];
    }
    let f2 = f.iter().map(|t| [p[t[0] as usize] as u32, p[t[1] as usize] as u32, p[t[2] as usize] as u32]).collect();
    (v2, f2)
}

fn flatten(v: &[Point3], f: &[[u32; 3]]) -> Result<Vec<Point2>, String> {
    let m = Mesh::new(v.to_vec(), f.to_vec(), false);
    match guarded(|| m.calc_edges().map_err(|e| e.to_string()).and_then(|e| e.boundary_first_flatten().map_err(|e| e.to_string()))) {
        Ok(r) => r,
        Err(p) => Err(format!("panic: {}", p)),
    }
}

fn judge_disk(v: &[Point3], f: &[[u32; 3]], planar: bool, case: &Case, l: &mut Local) -> Option<Vec<Point2>> {
    let mk = || serde_json::to_value(case).unwrap();
    l.eval();
    let uv = match flatten(v, f) {
        Ok(uv) => uv,
        Err(e) => {
            l.check("flattening a disk succeeds", if e.starts_with("panic") { "panic" } else { "err" }, false, mk, || e.clone());
            return None;
        }
    };
    let finite = uv.len() == v.len() && uv.iter().all(|p| p.x.is_finite() && p.y.is_finite());
    l.check("one finite 2D position per vertex", "", finite, mk, || format!("{} positions for {} vertices", uv.len(), v.len()));
    if !finite {
        return None;
    }
    l.outcome(hash_of(&(v.len(), f.len(), planar)));
    if planar {
        let mut maxerr: f64 = 0.0;
        for t in f {
            for k in 0..3 {
                let (a, b) = (t[k] as usize, t[(k + 1) % 3] as usize);
                let l3 = d3(&v[a], &v[b]);
                maxerr = maxerr.max((l3 - d2(&uv[a], &uv[b])).abs() / l3);
            }
        }
        l.check("every edge keeps its 3D length", "", maxerr <= 1e-6, mk, || format!("worst relative edge error {:e}", maxerr));
        let mut ok = true;
        for t in f {
            let (a, b, c) = (uv[t[0] as usize], uv[t[1] as usize], uv[t[2] as usize]);
            let ar = 0.5 * ((b - a).x * (c - a).y - (b - a).y * (c - a).x);
            let a3 = tri_area(&v[t[0] as usize], &v[t[1] as usize], &v[t[2] as usize]);
            ok &= ar > 0.0 && (ar - a3).abs() <= 1e-6 * a3;
        }
        l.check("every triangle keeps positive orientation and its area", "", ok, mk, String::new);
    }
    Some(uv)
}

fn judge_grid(case: &Case, l: &mut Local) {
    let mk = || serde_json::to_value(case).unwrap();
    let (v0, f0) = match case.kind.as_str() {
        "fan" => fan(case.nx),
        _ => match grid(case) {
            Some(x) => x,
            None => return,
        },
    };
    let p = match permutation(v0.len(), case.relabel) {
        Some(p) => p,
        None => return,
    };
    let (v1, f1) = relabelled(&v0, &f0, &p);
    let iso = gen::iso3_poses()[case.pose % 5];
    let v: Vec<Point3> = v1.iter().map(|q| iso * q).collect();
    l.distinct(hash_of(&serde_json::to_string(case).unwrap()));
    l.bucket(if case.kind == "fan" { "disk without interior vertex" } else if case.drop >= 0 { "non-convex outline" } else if case.jitter == 3 { "sheared grid (obtuse triangles)" } else if case.jitter > 0 { "displaced interior vertices" } else { "regular grid disk" });
    if case.pose > 0 {
        l.bucket("posed in 3D");
    }
    if case.relabel > 0 {
        l.bucket("relabelled vertices");
    }
    if case.relabel == 0 && case.pose == 1 {
        l.sample(mk);
    }
    let uv = judge_disk(&v, &f1, true, case, l);
    // invariance under rigid motion: compare with the unposed result (all pairwise distances)
    if let (Some(uv), true) = (&uv, case.pose > 0) {
        if let Ok(base) = flatten(&v1, &f1) {
            let mut md: f64 = 0.0;
            for i in 0..uv.len() {
                for j in 0..uv.len() {
                    md = md.max((d2(&uv[i], &uv[j]) - d2(&base[i], &base[j])).abs());
                }
            }
            l.check("result is unchanged, up to a planar rigid motion, by rigid motion of the input", "", md <= 1e-6, mk, || format!("pairwise distances differ by {:e}", md));
        }
    }
    // the units of the coordinates do not matter: the same disk in microns or kilometres flattens to the
    // same shape (only on the unposed, unrelabelled member of each family)
    if let (Some(base), 0, 0) = (&uv, case.pose, case.relabel) {
        for sc in [2e-9, 1e-6, 1e-3, 1e3] {
            l.eval();
            let vs: Vec<Point3> = v1.iter().map(|q| Point3::from(q.coords * sc)).collect();
            l.bucket("same disk at another scale");
            match flatten(&vs, &f1) {
                Ok(u) => {
                    let mut md: f64 = 0.0;
                    let mut ext: f64 = 0.0;
                    for i in 0..u.len() {
                        for j in 0..u.len() {
                            md = md.max((d2(&u[i], &u[j]) / sc - d2(&base[i], &base[j])).abs());
                            ext = ext.max(d2(&base[i], &base[j]));
                        }
                    }
                    l.check("flattening does not depend on the units of the coordinates", "", u.len() == base.len() && md <= 1e-6 * (1.0 + ext), mk, || format!("scale {:e}: pairwise distances differ by {:e} (relative to the unit-scale result)", sc, md));
                }
                Err(e) => {
                    l.check("flattening does not depend on the units of the coordinates", if e.starts_with("panic") { "panic" } else { "err" }, false, mk, || format!("scale {:e}: {}", sc, e));
                }
            }
        }
    }
    // UV round trip (unposed, unrelabelled meshes carry the map)
    if let (Some(uv), 0, 0) = (&uv, case.pose, case.relabel) {
        let poses = gen::iso3_poses();
        for mirrored in [false, true] {
            // a UV map may be given with the v axis pointing down (image coordinates)
            let uv_used: Vec<Point2> = if mirrored { uv.iter().map(|p| Point2::new(p.x, -p.y)).collect() } else { uv.clone() };
            let map = match UvMapping::new(uv_used, f1.clone()) {
                Ok(m) => m,
                Err(_) => continue,
            };
            // the same mesh through the constructor with options carries the same map
            {
                let again = UvMapping::new(if mirrored { uv.iter().map(|p| Point2::new(p.x, -p.y)).collect() } else { uv.clone() }, f1.clone()).ok();
                let via = Mesh::new_with_options(v.clone(), f1.clone(), false, false, false, again);
                let p0 = Point3::from((v[f1[0][0] as usize].coords + v[f1[0][1] as usize].coords + v[f1[0][2] as usize].coords) / 3.0);
                let ok = match &via {
                    Ok(mo) => mo.uv().is_some() && mo.uv_with_tol(&(p0 + Vector3::new(0.0, 0.0, 0.01)), 0.1, 0.5, None).and_then(|(q, _)| mo.uv_to_3d(&q)).map(|b| d3(&b.point, &p0) <= 1e-6).unwrap_or(false),
                    Err(_) => false,
                };
                l.check("a mesh built through the constructor with options keeps the UV map it was given", "", ok, mk, || format!("uv present: {:?}", via.as_ref().map(|m| m.uv().is_some()).ok()));
            }
            let m2 = Mesh::new_with_uv(v.clone(), f1.clone(), false, Some(map));
            // a mesh that carries a UV map cannot take on more faces (the map would no longer cover them): the
            // attempt is refused in both directions and leaves the mesh as it was
            {
                let shift: Vec<Point3> = v.iter().map(|q| q + Vector3::new(50.0, 0.0, 0.0)).collect();
                let plain = Mesh::new(shift, f1.clone(), false);
                let mut with_uv = m2.clone();
                let mut plain2 = plain.clone();
                let r1 = with_uv.append(&plain);
                let r2 = plain2.append(&m2);
                let untouched = with_uv.faces().len() == f1.len() && with_uv.vertices().len() == v.len() && plain2.faces().len() == f1.len();
                l.check("appending is refused when either mesh carries a UV map, and changes nothing", "", r1.is_err() && r2.is_err() && untouched, mk, || format!("uv.append(plain) {:?}, plain.append(uv) {:?}, faces {} and {}", r1.is_ok(), r2.is_ok(), with_uv.faces().len(), plain2.faces().len()));
            }
            // a plate with two skins that share one top-down projection: both skins map to the same UV triangles, and
            // every face still keeps its own UV triangle
            if !mirrored {
                let n = v.len() as u32;
                let mut v2 = v.clone();
                v2.extend(v.iter().map(|p| p - Vector3::new(0.0, 0.0, 0.4)));
                let mut f2 = f1.clone();
                f2.extend(f1.iter().map(|t| [t[0] + n, t[2] + n, t[1] + n]));
                let mut uv2 = uv.clone();
                uv2.extend(uv.iter().cloned());
                let uv_all = uv2.clone();
                match UvMapping::new(uv2, f2.clone()) {
                    Ok(pm) => {
                        l.eval();
                        l.bucket("two skins sharing one UV projection");
                        let kept = pm.faces().len() == f2.len() && pm.faces().iter().zip(f2.iter()).all(|(a, b)| a == b);
                        let mp = Mesh::new_with_uv(v2.clone(), f2.clone(), false, Some(pm));
                        let mut ok = kept;
                        for (fi, t) in f2.iter().enumerate() {
                            let c3 = Point3::from((v2[t[0] as usize].coords + v2[t[1] as usize].coords * 2.0 + v2[t[2] as usize].coords) / 4.0);
                            let lift = if fi < f1.len() { 0.01 } else { -0.01 };
                            let q = c3 + Vector3::new(0.0, 0.0, lift);
                            // (the way back from UV to 3D cannot tell the skins apart; the way there must name the
                            // UV position inside the face's OWN triangle)
                            let want = Point2::from((uv_all[t[0] as usize].coords + uv_all[t[1] as usize].coords * 2.0 + uv_all[t[2] as usize].coords) / 4.0);
                            match guarded(|| mp.uv_with_tol(&q, 0.1, 0.5, None)) {
                                Ok(Some((uvp, _))) => ok &= d2(&uvp, &want) <= 1e-9,
                                _ => ok = false,
                            }
                        }
                        l.check("every face keeps its own UV triangle when two skins share a projection", "", ok, mk, || format!("{} UV triangles for {} faces", mp.uv().map(|u| u.faces().len()).unwrap_or(0), f2.len()));
                    }
                    Err(e) => {
                        l.check("every face keeps its own UV triangle when two skins share a projection", "err", false, mk, || e.to_string());
                    }
                }
            }
            // the same sheet as an atlas: every face owns its three UV vertices (numbering unrelated to the mesh's),
            // and measured points below the surface as well as above it
            if !mirrored {
                let mut auv: Vec<Point2> = Vec::new();
                let mut af: Vec<[u32; 3]> = Vec::new();
                for (fi, t) in f1.iter().enumerate() {
                    for k in 0..3 {
                        auv.push(uv[t[k] as usize]);
                    }
                    af.push([3 * fi as u32, 3 * fi as u32 + 1, 3 * fi as u32 + 2]);
                }
                if let Ok(amap) = UvMapping::new(auv, af) {
                    let ma = Mesh::new_with_uv(v.clone(), f1.clone(), false, Some(amap));
                    for t in f1.iter() {
                        for bc in [[0.2, 0.3, 0.5], [0.6, 0.3, 0.1]] {
                            for lift in [0.01, -0.01] {
                                l.eval();
                                l.bucket("UV round trip through an atlas, above and below the surface");
                                let p3 = Point3::from(v[t[0] as usize].coords * bc[0] + v[t[1] as usize].coords * bc[1] + v[t[2] as usize].coords * bc[2]);
                                let q = p3 + Vector3::new(0.0, 0.0, lift);
                                for (which, mm) in [("atlas", &ma), ("shared numbering", &m2)] {
                                    match guarded(|| mm.uv_with_tol(&q, 0.1, 0.5, None).and_then(|(uvp, depth)| mm.uv_to_3d(&uvp).map(|b| (b, depth)))) {
                                        Ok(Some((back, depth))) => {
                                            l.check("a surface point round-trips through UV coordinates", "atlas / below", d3(&back.point, &p3) <= 1e-6 && (depth - lift).abs() <= 1e-9, mk, || format!("{} map, p {:?} lifted {}: back {:?} depth {}", which, p3, lift, back.point, depth));
                                        }
                                        other => {
                                            l.check("a surface point round-trips through UV coordinates", "atlas / below", false, mk, || format!("{} map, p {:?} lifted {}: {:?}", which, p3, lift, other.map(|o| o.map(|x| x.1))));
                                        }
                                    }
                                }
                            }
                        }
                    }
                }
            }
            for t in f1.iter() {
                for bc in [[0.2, 0.3, 0.5], [1.0 / 3.0, 1.0 / 3.0, 1.0 / 3.0], [0.6, 0.3, 0.1], [0.05, 0.9, 0.05]] {
                    l.eval();
                    let p3 = Point3::from(v[t[0] as usize].coords * bc[0] + v[t[1] as usize].coords * bc[1] + v[t[2] as usize].coords * bc[2]);
                    let lifted = p3 + Vector3::new(0.0, 0.0, 0.01);
                    let r = guarded(|| m2.uv_with_tol(&lifted, 0.1, 0.5, None).and_then(|(uvp, depth)| m2.uv_to_3d(&uvp).map(|b| (b, depth))));
                    l.bucket(if mirrored { "UV round trip through a mirrored map" } else { "UV round trip" });
                    // the two tolerances are a distance and an angle, in that order: a point farther than the
                    // distance is refused whatever the angle allows, one within it is accepted
                    let high = p3 + Vector3::new(0.0, 0.0, 0.3);
                    let refused = guarded(|| m2.uv_with_tol(&high, 0.1, 1.0, None));
                    let taken = guarded(|| m2.uv_with_tol(&high, 2.0, 0.25, None));
                    l.check("UV lookup honours the distance and the angle tolerance as given", "", matches!(refused, Ok(None)) && matches!(taken, Ok(Some(_))), mk, || format!("p {:?} + 0.3 z: (0.1, 1.0) -> {:?}, (2.0, 0.25) -> {:?}", p3, refused, taken));
                    // the same query given in another frame together with the transform that brings it back
                    for tf in [&poses[1], &poses[2]] {
                        let away = tf.inverse_transform_point(&lifted);
                        let moved = tf * away;
                        let via = guarded(|| m2.uv_with_tol(&away, 0.1, 0.5, Some(tf)));
                        let direct = guarded(|| m2.uv_with_tol(&moved, 0.1, 0.5, None));
                        let same = match (&via, &direct) {
                            (Ok(None), Ok(None)) => true,
                            (Ok(Some(a)), Ok(Some(b))) => a.0 == b.0 && a.1 == b.1,
                            _ => false,
                        };
                        l.check("a UV query passed with a transform is the query on the moved point", "", same, mk, || format!("p {:?}: through the transform {:?}, on the moved point {:?}", p3, via, direct));
                    }
                    match r {
                        Ok(Some((back, depth))) => {
                            l.check("a surface point round-trips through UV coordinates", "", d3(&back.point, &p3) <= 1e-6 && (depth - 0.01).abs() <= 1e-9 && (back.normal.into_inner() - Vector3::z()).norm() <= 1e-9, mk, || {
                                format!("p {:?} -> back {:?} depth {}", p3, back.point, depth)
                            });
                        }
                        Ok(None) => {
                            l.check("a surface point round-trips through UV coordinates", "none", false, mk, || format!("p {:?} -> None", p3));
                        }
                        Err(e) => {
                            l.check("a surface point round-trips through UV coordinates", "panic", false, mk, || e.clone());
                        }
                    }
                }
            }
        }
    }
}

fn judge_curved(case: &Case, l: &mut Local) {
    let mk = || serde_json::to_value(case).unwrap();
    // height field disks: only the invariance clause
    let (v0, f0) = c02::height_field(case.bits, case.bits % 2);
    l.distinct(hash_of(&serde_json::to_string(case).unwrap()));
    l.bucket("curved disk");
    let base = judge_disk(&v0, &f0, false, case, l);
    let iso = gen::iso3_poses()[1 + case.pose % 4];
    let v: Vec<Point3> = v0.iter().map(|q| iso * q).collect();
    let moved = judge_disk(&v, &f0, false, case, l);
    if let (Some(a), Some(b)) = (base, moved) {
        let mut md: f64 = 0.0;
        for i in 0..a.len() {
            for j in 0..a.len() {
                md = md.max((d2(&a[i], &a[j]) - d2(&b[i], &b[j])).abs());
            }
        }
        l.check("flattening of a curved disk depends only on connectivity and edge lengths", "", md <= 1e-6, mk, || format!("pairwise distances differ by {:e}", md));
    }
}

fn judge_reject(case: &Case, l: &mut Local) {
    let mk = || serde_json::to_value(case).unwrap();
    let (v, f): (Vec<Point3>, Vec<[u32; 3]>) = match case.name.as_str() {
        "tetrahedron" | "box" | "octahedron" => c02::solid(&case.name),
        "annulus" => {
            let g = Case { kind: "grid".into(), nx: 4, ny: 4, bits: 0, drop: -1, jitter: 0, relabel: 0, pose: 0, name: String::new() };
            let (v, f) = grid(&g).unwrap();
            // remove the central cell (faces of cell index 4)
            let f2: Vec<[u32; 3]> = f.iter().enumerate().filter(|(i, _)| i / 2 != 4).map(|(_, t)| *t).collect();
            (v, f2)
        }
        "two-disks" => {
            let (mut v, mut f) = fan(3);
            let (v2, f2) = fan(3);
            let off = v.len() as u32;
            v.extend(v2.iter().map(|p| Point3::new(p.x + 10.0, p.y, p.z)));
            f.extend(f2.iter().map(|t| [t[0] + off, t[1] + off, t[2] + off]));
            (v, f)
        }
        n if n.starts_with("face-twice") => {
            // a planar 4x4-vertex disk with one interior face listed twice (the second copy with the same or the
            // opposite winding): three faces on each of its edges, yet still a single boundary loop
            let g = Case { kind: "grid".into(), nx: 4, ny: 4, bits: 0, drop: -1, jitter: 0, relabel: 0, pose: 0, name: String::new() };
            let (v, mut f) = grid(&g).unwrap();
            let k: usize = n.split('-').nth(2).and_then(|x| x.parse().ok()).unwrap_or(8);
            let t = f[k];
            f.push(if n.ends_with("flipped") { [t[0], t[2], t[1]] } else { t });
            (v, f)
        }
        _ => (
            // three faces on one edge
            vec![Point3::new(0.0, 0.0, 0.0), Point3::new(1.0, 0.0, 0.0), Point3::new(0.0, 1.0, 0.0), Point3::new(0.0, -1.0, 0.0), Point3::new(0.0, 0.0, 1.0)],
            vec![[0, 1, 2], [1, 0, 3], [0, 1, 4]],
        ),
    };
    l.eval();
    l.distinct(hash_of(&serde_json::to_string(case).unwrap()));
    l.bucket("non-disk input");
    let r = flatten(&v, &f);
    l.outcome(hash_of(&(case.name.as_str(), r.is_err())));
    let rejected = matches!(&r, Err(e) if !e.starts_with("panic"));
    l.check("a mesh that is not a single-boundary disk is rejected with an error", "", rejected, mk, || format!("{}: {:?}", case.name, r.map(|u| u.len())));
}

/// A planar disk whose vertex array also holds vertices that no face uses (a face subset that keeps the whole
/// vertex array, a spare vertex appended): still a disk, flattened like the disk without them
fn judge_spare(case: &Case, l: &mut Local) {
    let g = Case { kind: "grid".into(), ..case.clone() };
    let (mut v, mut f) = match grid(&g) {
        Some(x) => x,
        None => return,
    };
    l.distinct(hash_of(&serde_json::to_string(case).unwrap()));
    l.bucket("disk with vertices that no face uses");
    if case.name == "appended" {
        v.push(Point3::new(7.5, -3.0, 2.0));
        v.insert(0, Point3::new(-4.0, 1.0, 0.5));
        for t in f.iter_mut() {
            *t = [t[0] + 1, t[1] + 1, t[2] + 1];
        }
    } else {
        // keep the whole vertex array, drop the faces of the last row of cells
        let keep = f.len() - 2 * (case.nx - 1);
        f.truncate(keep);
    }
    let pose = gen::iso3_poses()[case.pose % 5];
    let vp: Vec<Point3> = v.iter().map(|p| pose * p).collect();
    judge_disk(&vp, &f, true, case, l);
}

pub fn judge(case: &Case, l: &mut Local) {
    match case.kind.as_str() {
        "spare" => judge_spare(case, l),
        "grid" | "fan" => judge_grid(case, l),
        "curved" => judge_curved(case, l),
        "reject" => judge_reject(case, l),
        _ => {}
    }
}

pub fn cases(tier: Tier) -> Vec<Case> {
    let mut out = Vec::new();
    let base = |kind: &str| Case { kind: kind.into(), nx: 0, ny: 0, bits: 0, drop: -1, jitter: 0, relabel: 0, pose: 0, name: String::new() };
    let sizes: &[(usize, usize)] = match tier {
        Tier::Quick => &[(2, 2), (3, 2), (3, 3), (4, 3)],
        Tier::Thorough => &[(2, 2), (3, 2), (3, 3), (4, 3), (4, 4), (5, 3), (5, 4)],
    };
    for &(nx, ny) in sizes {
        let cells = (nx - 1) * (ny - 1);
        for bits in 0..(1u32 << cells) {
            for drop in -1..cells as i64 {
                for jitter in 0..4 {
                    if (jitter == 1 || jitter == 2) && (nx < 3 || ny < 3) {
                        continue;
                    }
                    let nv = nx * ny;
                    let nrel = if nv <= 6 { (1..=nv).product::<usize>() } else { 5 };
                    for relabel in 0..nrel {
                        for pose in 0..5 {
                            // poses and relabellings are crossed only on the smaller grids
                            if cells > 4 && relabel > 0 && pose > 1 {
                                continue;
                            }
                            if tier == Tier::Quick && cells > 4 && ((bits as u64 + seed()) % 3 != 0) && (relabel > 0 || pose > 0) {
                                continue;
                            }
                            out.push(Case { nx, ny, bits, drop, jitter, relabel, pose, ..base("grid") });
                        }
                    }
                }
            }
        }
    }
    for k in 1..=5 {
        for relabel in 0..24 {
            for pose in 0..3 {
                out.push(Case { nx: k, relabel, pose, ..base("fan") });
            }
        }
    }
    for bits in (0..512u32).step_by(tier.pick(16, 4)) {
        for pose in 0..2 {
            out.push(Case { bits, pose, ..base("curved") });
        }
    }
    for (nx, ny) in [(3usize, 3usize), (4, 3), (4, 4)] {
        for bits in [0u32, 5, 170] {
            for pose in 0..2 {
                for name in ["appended", "subset"] {
                    out.push(Case { nx, ny, bits, pose, name: name.into(), ..base("spare") });
                }
            }
        }
    }
    for name in ["tetrahedron", "box", "octahedron", "annulus", "two-disks", "three-faces-on-one-edge", "face-twice-8", "face-twice-9", "face-twice-8-flipped", "face-twice-9-flipped", "face-twice-3", "face-twice-3-flipped"] {
        out.push(Case { name: name.into(), ..base("reject") });
    }
    out
}

pub fn run(tier: Tier) -> i32 {
    let mut cx = Ctx::new("C20", tier, "exploration");
    cx.rule = "planar disks: m x n vertex grids (2x2 .. 4x3, thorough up to 5x4) with every diagonal assignment (2^cells), every single corner cell removed (non-convex outline), interior vertices displaced on a quarter-step lattice (3 patterns), fans without interior vertex (1..5 triangles); every vertex relabelling for <= 6 vertices, 5 fixed relabellings beyond; 5 poses; curved height-field disks for the invariance clause; rejection inputs (tetrahedron, box, octahedron, annulus, two disjoint disks, three faces on one edge, an interior face listed twice with either winding); disks whose vertex array holds unused vertices; UV round trips at 4 barycentric points of every face. distinct = distinct cases".into();
    cx.bounds = json!({"largest_grid": tier.pick("4x3", "5x4"), "poses": 5, "relabellings_small": "all n!", "relabellings_large": 5});
    cx.require(&["regular grid disk", "non-convex outline", "displaced interior vertices", "disk without interior vertex", "posed in 3D", "relabelled vertices", "curved disk", "non-disk input", "UV round trip", "UV round trip through a mirrored map", "sheared grid (obtuse triangles)"]);
    cx.assume("edge lengths compared at 1e-6 relative (the solver adds a 1e-8 regulariser)");
    let cs = cases(tier);
    let l = sweep(&cs, judge);
    cx.absorb(l);
    cx.finish()
}

pub fn replay(case: &Val) -> Local {
    let c: Case = serde_json::from_value(case.clone()).expect("case");
    let mut l = Local::new();
    judge(&c, &mut l);
    l
}
