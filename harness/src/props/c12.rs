//! C12 — mesh connectivity results are exact partitions and always terminate.
//! Inputs (all small face lists, structured meshes, voxel sets, pair lists) x environment answers
//! (hash-iteration orders explored with a deviation bound) against union-find / multiset references.
use crate::engine::*;
use crate::refmodel::*;
use engeom::common::indices::chained_indices;
use engeom::raster3::clusters_from_sparse;
use engeom::verif;
use engeom::{Mesh, Point3};
use serde::{Deserialize, Serialize};
use serde_json::json;
use std::collections::{BTreeMap, BTreeSet};

#[derive(Serialize, Deserialize, Clone, Debug)]
pub struct Case {
    /// faces | structured | voxels | pairs | box | cylinder
    pub kind: String,
    pub nv: usize,
    pub faces: Vec<[u32; 3]>,
    pub name: String,
    pub flip: i64,
    pub cells: Vec<[i32; 3]>,
    pub pairs: Vec<[u32; 2]>,
    pub dims: Vec<f64>,
}

fn blank(kind: &str) -> Case {
    Case { kind: kind.into(), nv: 0, faces: vec![], name: String::new(), flip: -1, cells: vec![], pairs: vec![], dims: vec![] }
}

const MAX_DEV: usize = 2;
const EXEC_CAP: usize = 20_000;

fn verts(n: usize) -> Vec<Point3> {
    // general position (twisted cubic)
    (0..n)
        .map(|i| {
            let t = i as f64 + 1.0;
            Point3::new(t, 0.5 * t * t, 0.1 * t * t * t)
        })
        .collect()
}

fn ukey(a: u32, b: u32) -> (u32, u32) {
    (a.min(b), a.max(b))
}

struct Reference {
    nonmanifold: bool,
    edges: Vec<(u32, u32)>,
    boundary: Vec<(u32, u32)>,
    patches: BTreeSet<Vec<usize>>,
}

fn reference(faces: &[[u32; 3]]) -> Reference {
    let mut count: BTreeMap<(u32, u32), Vec<usize>> = BTreeMap::new();
    for (fi, f) in faces.iter().enumerate() {
        for k in 0..3 {
            count.entry(ukey(f[k], f[(k + 1) % 3])).or_default().push(fi);
        }
    }
    let nonmanifold = count.values().any(|v| v.len() > 2);
    let boundary = count.iter().filter(|(_, v)| v.len() == 1).map(|(k, _)| *k).collect();
    let mut uf = Uf::new(faces.len());
    for v in count.values() {
        for w in v.iter().skip(1) {
            uf.union(v[0], *w);
        }
    }
    Reference { nonmanifold, edges: count.keys().cloned().collect(), boundary, patches: uf.components().into_iter().collect() }
}

/// Judges calc_edges + get_patches of one mesh under every explored iteration order
fn judge_mesh(pts: &[Point3], faces: &[[u32; 3]], case: &Case, l: &mut Local) {
    let mk = || serde_json::to_value(case).unwrap();
    let r = reference(faces);
    let mesh = Mesh::new(pts.to_vec(), faces.to_vec(), false);
    let budget = (10 * 3 * faces.len() + 100) as u64;
    l.bucket(if r.nonmanifold { "edge shared by more than two faces" } else if r.boundary.is_empty() { "closed mesh" } else { "mesh with boundary" });

    // vertex-only contacts and inconsistent winding, for the coverage report
    let mut directed: BTreeMap<(u32, u32), usize> = BTreeMap::new();
    for f in faces {
        for k in 0..3 {
            *directed.entry((f[k], f[(k + 1) % 3])).or_default() += 1;
        }
    }
    if directed.values().any(|c| *c > 1) {
        l.bucket("inconsistent winding");
    }
    let mut bcount: BTreeMap<u32, usize> = BTreeMap::new();
    for (a, b) in &r.boundary {
        *bcount.entry(*a).or_default() += 1;
        *bcount.entry(*b).or_default() += 1;
    }
    if bcount.values().any(|c| *c > 2) {
        l.bucket("vertex with more than two boundary edges");
    }

    // ---- patches
    let want_p = format!("{:?}", r.patches);
    let (runs, outs, capped) = explore_choices(MAX_DEV, EXEC_CAP, || {
        verif::set_budget(budget);
        let o = match guarded(|| mesh.get_patches()) {
            Ok(p) => {
                let canon: BTreeSet<Vec<usize>> = p
                    .into_iter()
                    .map(|mut v| {
                        v.sort();
                        v
                    })
                    .collect();
                format!("{:?}", canon)
            }
            Err(e) => format!("PANIC {}", e),
        };
        reset_budget();
        o
    });
    l.evals_n(runs as u64);
    l.transitions += runs as u64;
    if capped {
        l.cap(format!("patch exploration capped at {} executions for {:?}", EXEC_CAP, faces));
    }
    for (o, script) in outs.iter() {
        l.outcome(hash_of(&(o.len().min(40), 1u8)));
        if o.starts_with("PANIC VERIF_BUDGET") {
            l.check("patch decomposition terminates within its budget", "", false, mk, || format!("{:?}: budget {} exceeded under script {:?}", faces, budget, script));
        } else if o.starts_with("PANIC") || o == "REPLAY-DIVERGENCE" {
            l.check("patch decomposition returns", "panic", false, mk, || format!("{:?}: {} under script {:?}", faces, o, script));
        } else if !r.nonmanifold {
            l.check("patches are the connected components of the shares-an-edge graph", "", *o == want_p, mk, || format!("{:?}: got {} expected {} (script {:?})", faces, o, want_p, script));
        }
    }
    if !r.nonmanifold {
        l.check("patch decomposition is the same set under every iteration order", "", outs.len() == 1, mk, || format!("{:?}: {:?}", faces, outs.keys().collect::<Vec<_>>()));
    }

    // ---- edge table and boundary loops
    let (runs, outs, capped) = explore_choices(MAX_DEV, EXEC_CAP, || {
        verif::set_budget(budget);
        let res = guarded(|| mesh.calc_edges().map(|e| (e.edges.clone(), e.edge_lengths.clone(), e.face_edges.clone(), e.boundary_loops.clone())).map_err(|e| e.to_string()));
        reset_budget();
        match res {
            Ok(Ok((edges, lengths, face_edges, loops))) => {
                let mut problems = Vec::new();
                let e2: Vec<(u32, u32)> = edges.iter().map(|e| ukey(e[0], e[1])).collect();
                let mut sorted_edges = e2.clone();
                sorted_edges.sort();
                if sorted_edges != r.edges {
                    problems.push(format!("edge table {:?}", e2));
                }
                if lengths.len() != edges.len() || edges.iter().zip(lengths.iter()).any(|(e, len)| (d3(&pts[e[0] as usize], &pts[e[1] as usize]) - len).abs() > 1e-12) {
                    problems.push("edge lengths".to_string());
                }
                for (fi, f) in faces.iter().enumerate() {
                    let want: BTreeSet<(u32, u32)> = (0..3).map(|k| ukey(f[k], f[(k + 1) % 3])).collect();
                    let got: BTreeSet<(u32, u32)> = face_edges.get(fi).map(|fe| fe.iter().filter_map(|ei| e2.get(*ei as usize).cloned()).collect()).unwrap_or_default();
                    if want != got {
                        problems.push(format!("face_edges[{}]", fi));
                    }
                }
                let mut used: Vec<(u32, u32)> = Vec::new();
                for lp in loops.iter() {
                    for i in 0..lp.len() {
                        used.push(ukey(lp[i], lp[(i + 1) % lp.len()]));
                    }
                }
                used.sort();
                if used != r.boundary {
                    problems.push(format!("loops {:?} do not use each boundary edge {:?} exactly once", loops, r.boundary));
                }
                let mut all: Vec<(u32, u32)> = used.clone();
                all.sort();
                if problems.is_empty() {
                    format!("OK {:?}", all)
                } else {
                    format!("BAD {:?}", problems)
                }
            }
            Ok(Err(e)) => format!("ERR {}", e),
            Err(e) => format!("PANIC {}", e),
        }
    });
    l.evals_n(runs as u64);
    l.transitions += runs as u64;
    if capped {
        l.cap(format!("edge exploration capped at {} executions for {:?}", EXEC_CAP, faces));
    }
    for (o, script) in outs.iter() {
        l.outcome(hash_of(&(o.len().min(40), 2u8)));
        if o.starts_with("PANIC VERIF_BUDGET") {
            l.check("edge table and boundary walk terminate within their budget", "", false, mk, || format!("{:?}: budget {} exceeded (script {:?})", faces, budget, script));
        } else if o.starts_with("PANIC") || o == "REPLAY-DIVERGENCE" {
            l.check("edge table returns", "panic", false, mk, || format!("{:?}: {} (script {:?})", faces, o, script));
        } else if r.nonmanifold {
            l.check("an edge with more than two faces is reported as an error", "", o.starts_with("ERR"), mk, || format!("{:?}: {}", faces, o));
        } else if o.starts_with("ERR") {
            l.check("a mesh without over-shared edges gets an edge table", "", false, mk, || format!("{:?}: {}", faces, o));
        } else {
            l.check("edge table is exact and boundary loops use every boundary edge exactly once", "", o.starts_with("OK"), mk, || format!("{:?}: {} (script {:?})", faces, o, script));
        }
    }
    // ---- patch boundary loops: on consistently wound meshes they use every boundary edge exactly once
    // (where a vertex carries more than two boundary edges the loops of one patch may be ambiguous: there an
    // error is acceptable, a set of loops that drops or repeats a boundary edge is not)
    let wound = directed.values().all(|c| *c == 1) && !r.nonmanifold;
    let pinched = !bcount.values().all(|c| *c <= 2);
    // (the loops come back as points, which are mapped to vertices by position: not possible where two vertices
    // coincide)
    let coincident = (0..pts.len()).any(|i| (0..i).any(|j| pts[i] == pts[j]));
    if wound && !r.boundary.is_empty() && !coincident {
        let (runs, outs, _capped) = explore_choices(MAX_DEV, EXEC_CAP, || {
            verif::set_budget(budget * 4);
            let res = guarded(|| mesh.get_patch_boundary_points().map_err(|e| e.to_string()));
            reset_budget();
            match res {
                Ok(Ok(loops)) => {
                    let idx_of = |p: &Point3| pts.iter().position(|q| q == p).map(|i| i as u32);
                    let mut used: Vec<(u32, u32)> = Vec::new();
                    let mut bad = false;
                    for lp in loops.iter() {
                        for i in 0..lp.len() {
                            match (idx_of(&lp[i]), idx_of(&lp[(i + 1) % lp.len()])) {
                                (Some(a), Some(b)) => used.push(ukey(a, b)),
                                _ => bad = true,
                            }
                        }
                    }
                    used.sort();
                    if bad || used != r.boundary {
                        format!("BAD {:?}", used)
                    } else {
                        "OK".to_string()
                    }
                }
                Ok(Err(e)) => format!("ERR {}", e),
                Err(e) => format!("PANIC {}", e),
            }
        });
        l.evals_n(runs as u64);
        l.transitions += runs as u64;
        l.bucket(if pinched { "patch boundary loops on a consistently wound mesh pinched at a vertex" } else { "patch boundary loops on a consistently wound mesh" });
        for (o, script) in outs.iter() {
            l.outcome(hash_of(&(pinched, o.starts_with("OK"), o.starts_with("ERR"), 3u8)));
            let fine = o == "OK" || (pinched && o.starts_with("ERR"));
            l.check("patch boundary loops use every boundary edge exactly once", if pinched { "pinched" } else { "" }, fine, mk, || format!("{:?}: {} (script {:?})", faces, o, script));
        }
    }
    // ---- patch boundaries terminate
    verif::set_budget(budget * 4);
    let pb = guarded(|| mesh.get_patch_boundary_points().map(|v| v.len()).map_err(|e| e.to_string()));
    reset_budget();
    l.eval();
    l.check("patch boundary extraction terminates", "", pb.is_ok(), mk, || format!("{:?}: {:?}", faces, pb));
}

fn structured(name: &str) -> (Vec<Point3>, Vec<[u32; 3]>) {
    let grid = |m: usize, n: usize, skip: Option<(usize, usize)>| {
        let mut v = Vec::new();
        for j in 0..=n {
            for i in 0..=m {
                v.push(Point3::new(i as f64, j as f64, 0.1 * ((i * 3 + j * 7) % 5) as f64));
            }
        }
        let mut f = Vec::new();
        for j in 0..n {
            for i in 0..m {
                if skip == Some((i, j)) {
                    continue;
                }
                let a = (j * (m + 1) + i) as u32;
                let b = a + 1;
                let c = a + (m + 1) as u32;
                let d = c + 1;
                f.push([a, b, d]);
                f.push([a, d, c]);
            }
        }
        (v, f)
    };
    match name {
        "grid2x2" => grid(2, 2, None),
        "grid3x2" => grid(3, 2, None),
        "grid3x3" => grid(3, 3, None),
        "grid4x4" => grid(4, 4, None),
        "grid3x3-hole" => grid(3, 3, Some((1, 1))),
        "grid3x3-micro" => {
            // the same grid in tenths of a micron: every edge is about 1e-7 long
            let (v, f) = grid(3, 3, None);
            (v.iter().map(|p| Point3::from(p.coords * 1e-7)).collect(), f)
        }
        "grid2x2-coincident" => {
            // an unwelded duplicate of vertex 0 joined to the boundary by a face of zero area: one edge of length 0
            let (mut v, mut f) = grid(2, 2, None);
            let n = v.len() as u32;
            v.push(v[0]);
            f.push([1, 0, n]);
            (v, f)
        }
        "tube8" => {
            let m = Mesh::create_cylinder(1.0, 2.0, 8);
            (m.vertices().to_vec(), m.faces().to_vec())
        }
        "box" => {
            let m = Mesh::create_box(1.0, 2.0, 3.0, false);
            (m.vertices().to_vec(), m.faces().to_vec())
        }
        "octahedron" => crate::props::c02::solid("octahedron"),
        "two-components" => {
            let (mut v, mut f) = grid(2, 2, None);
            let (v2, f2) = grid(2, 1, None);
            let off = v.len() as u32;
            v.extend(v2.iter().map(|p| Point3::new(p.x + 10.0, p.y, p.z)));
            f.extend(f2.iter().map(|t| [t[0] + off, t[1] + off, t[2] + off]));
            (v, f)
        }
        _ => {
            // two grids sharing exactly one corner vertex
            let (mut v, mut f) = grid(2, 2, None);
            let (v2, f2) = grid(2, 2, None);
            let corner = 8u32; // top-right vertex of the first 2x2 grid
            let off = v.len() as u32;
            v.extend(v2.iter().map(|p| Point3::new(p.x + 2.0, p.y + 2.0, p.z)));
            // vertex 0 of the second grid coincides with the corner: reuse the index
            let remap = |i: u32| if i == 0 { corner } else { i + off };
            f.extend(f2.iter().map(|t| [remap(t[0]), remap(t[1]), remap(t[2])]));
            (v, f)
        }
    }
}

const STRUCTURED: [&str; 12] = ["grid2x2", "grid3x2", "grid3x3", "grid4x4", "grid3x3-hole", "grid3x3-micro", "grid2x2-coincident", "tube8", "box", "octahedron", "two-components", "corner-contact"];

fn judge_voxels(case: &Case, l: &mut Local) {
    let mk = || serde_json::to_value(case).unwrap();
    let members: Vec<(i32, i32, i32)> = case.cells.iter().map(|c| (c[0], c[1], c[2])).collect();
    let m = members.len();
    let mut uf = Uf::new(m);
    for i in 0..m {
        for j in 0..m {
            let (a, b) = (members[i], members[j]);
            if (a.0 - b.0).abs() <= 1 && (a.1 - b.1).abs() <= 1 && (a.2 - b.2).abs() <= 1 {
                uf.union(i, j);
            }
        }
    }
    let want: BTreeSet<BTreeSet<(i32, i32, i32)>> = uf.components().into_iter().map(|c| c.into_iter().map(|i| members[i]).collect()).collect();
    let ws = format!("{:?}", want);
    l.bucket(if want.len() > 1 { "voxel set with several clusters" } else { "voxel set with one cluster" });
    let budget = (10 * m * m + 100) as u64;
    let (runs, outs, capped) = explore_choices(MAX_DEV, EXEC_CAP, || {
        verif::set_budget(budget);
        let set: verif::HashSet<(i32, i32, i32)> = members.iter().cloned().collect();
        let o = match guarded(|| clusters_from_sparse(set)) {
            Ok(cl) => {
                let total: usize = cl.iter().map(|c| c.len()).sum();
                let got: BTreeSet<BTreeSet<(i32, i32, i32)>> = cl.into_iter().map(|c| c.into_iter().collect()).collect();
                if total != m {
                    format!("DUPLICATES {:?}", got)
                } else {
                    format!("{:?}", got)
                }
            }
            Err(e) => format!("PANIC {}", e),
        };
        reset_budget();
        o
    });
    l.evals_n(runs as u64);
    l.transitions += runs as u64;
    if capped {
        l.cap("voxel exploration capped".into());
    }
    for (o, script) in outs.iter() {
        l.outcome(hash_of(&(o.len().min(40), 3u8)));
        l.check("voxel clusters are the 26-neighbour components, each cell exactly once, under every order", "", *o == ws, mk, || format!("{:?}: got {} expected {} (script {:?})", members, o, ws, script));
    }
}

fn judge_pairs(case: &Case, l: &mut Local) {
    let mk = || serde_json::to_value(case).unwrap();
    let list = &case.pairs;
    let n = list.len();
    l.eval();
    verif::set_budget((10 * n * n + 100) as u64);
    let r = guarded(|| chained_indices(list));
    reset_budget();
    match r {
        Err(e) => {
            l.check("index chaining terminates and returns", if e.contains("VERIF_BUDGET") { "budget" } else { "panic" }, false, mk, || format!("{:?}: {}", list, e));
        }
        Ok(chains) => {
            let mut used: Vec<[u32; 2]> = Vec::new();
            for ch in chains.iter() {
                for w in ch.windows(2) {
                    used.push([w[0], w[1]]);
                }
            }
            let mut a = used.clone();
            a.sort();
            let mut b = list.clone();
            b.sort();
            l.outcome(hash_of(&(chains.len(), n)));
            l.check("every pair is used exactly once and consecutive elements are input pairs", "", a == b, mk, || format!("{:?} -> {:?}", list, chains));
            // maximality on path / cycle inputs (each index at most one in and one out, distinct pairs)
            let simple = (0..5u32).all(|v| list.iter().filter(|p| p[0] == v).count() <= 1 && list.iter().filter(|p| p[1] == v).count() <= 1);
            if simple {
                l.bucket("path or cycle input");
                let mut uf = Uf::new(5);
                for p in list.iter() {
                    uf.union(p[0] as usize, p[1] as usize);
                }
                let touched: BTreeSet<usize> = list.iter().flat_map(|p| [uf.find(p[0] as usize), uf.find(p[1] as usize)]).collect();
                l.check("chains on path / cycle inputs are maximal", "", chains.len() == touched.len(), mk, || format!("{:?} -> {:?}", list, chains));
            } else {
                l.bucket("branching input");
            }
        }
    }
}

fn judge_generator(case: &Case, l: &mut Local) {
    let mk = || serde_json::to_value(case).unwrap();
    l.eval();
    let mesh = if case.kind == "box" {
        Mesh::create_box(case.dims[0], case.dims[1], case.dims[2], false)
    } else {
        Mesh::create_cylinder(case.dims[0], case.dims[1], case.dims[2] as usize)
    };
    let v = mesh.vertices().to_vec();
    let f = mesh.faces().to_vec();
    let mut directed: BTreeMap<(u32, u32), usize> = BTreeMap::new();
    let mut undirected: BTreeMap<(u32, u32), usize> = BTreeMap::new();
    for t in &f {
        for k in 0..3 {
            *directed.entry((t[k], t[(k + 1) % 3])).or_default() += 1;
            *undirected.entry(ukey(t[k], t[(k + 1) % 3])).or_default() += 1;
        }
    }
    let consistent = directed.values().all(|c| *c == 1) && undirected.values().all(|c| *c <= 2);
    l.bucket(if case.kind == "box" { "box generator" } else { "cylinder generator" });
    l.outcome(hash_of(&(case.kind.as_str(), f.len())));
    l.check("generated mesh is consistently wound (each interior edge once in each direction)", &case.kind, consistent, mk, || format!("{:?}", case.dims));
    let centre = v.iter().fold(Point3::origin(), |a, p| a + p.coords / v.len() as f64);
    let mut outward = true;
    for t in &f {
        let (a, b, c) = (v[t[0] as usize], v[t[1] as usize], v[t[2] as usize]);
        let n = (b - a).cross(&(c - a));
        let cen = Point3::from((a.coords + b.coords + c.coords) / 3.0);
        let mut out = cen - centre;
        if case.kind == "cylinder" {
            out.z = 0.0;
        }
        outward &= n.dot(&out) > 0.0;
    }
    l.check("generated mesh has outward normals", &case.kind, outward, mk, || format!("{:?}", case.dims));
    if case.kind == "box" {
        l.check("box is watertight", "", undirected.values().all(|c| *c == 2), mk, String::new);
    }
    // the generated primitive has the requested size: width x height x depth along x, y, z from the origin
    // for the box; the requested radius about the z axis and height along it for the cylinder
    let ext = |k: usize| (v.iter().map(|p| p[k]).fold(f64::MAX, f64::min), v.iter().map(|p| p[k]).fold(f64::MIN, f64::max));
    let sized = if case.kind == "box" {
        (0..3).all(|k| ext(k).0 == 0.0 && (ext(k).1 - case.dims[k]).abs() <= 1e-12 * case.dims[k])
    } else {
        v.iter().all(|p| ((p.x * p.x + p.y * p.y).sqrt() - case.dims[0]).abs() <= 1e-12 * case.dims[0]) && ext(2).0 == 0.0 && (ext(2).1 - case.dims[1]).abs() <= 1e-12 * case.dims[1]
    };
    l.check("generated mesh has the requested dimensions", &case.kind, sized, mk, || format!("{:?}: extents x {:?} y {:?} z {:?}", case.dims, ext(0), ext(1), ext(2)));
    let patches = mesh.get_patches();
    l.check("generated mesh is a single patch", &case.kind, patches.len() == 1, mk, || format!("{} patches", patches.len()));
}

pub fn judge(case: &Case, l: &mut Local) {
    l.distinct(hash_of(&serde_json::to_string(case).unwrap()));
    match case.kind.as_str() {
        "faces" => {
            let pts = verts(case.nv);
            judge_mesh(&pts, &case.faces, case, l);
        }
        "structured" => {
            let (v, mut f) = structured(&case.name);
            if case.flip >= 0 {
                let i = case.flip as usize % f.len();
                f[i] = [f[i][0], f[i][2], f[i][1]];
                l.bucket("structured mesh with one face flipped");
            } else {
                l.bucket("structured mesh");
            }
            l.sample(|| serde_json::to_value(case).unwrap());
            judge_mesh(&v, &f, case, l);
        }
        "voxels" => judge_voxels(case, l),
        "pairs" => judge_pairs(case, l),
        "box" | "cylinder" => judge_generator(case, l),
        _ => {}
    }
}

fn oriented_tris(n: u32) -> Vec<[u32; 3]> {
    let mut out = Vec::new();
    for a in 0..n {
        for b in a + 1..n {
            for c in b + 1..n {
                out.push([a, b, c]);
                out.push([a, c, b]);
            }
        }
    }
    out
}

fn subsets(n: usize, k: usize) -> Vec<Vec<usize>> {
    let mut out = Vec::new();
    fn rec(start: usize, n: usize, k: usize, cur: &mut Vec<usize>, out: &mut Vec<Vec<usize>>) {
        if !cur.is_empty() {
            out.push(cur.clone());
        }
        if cur.len() == k {
            return;
        }
        for i in start..n {
            cur.push(i);
            rec(i + 1, n, k, cur, out);
            cur.pop();
        }
    }
    rec(0, n, k, &mut Vec::new(), &mut out);
    out
}

pub fn cases(tier: Tier) -> Vec<Case> {
    let mut out = Vec::new();
    let mut plan = vec![(5u32, 4usize), (6, tier.pick(4, 5))];
    if tier == Tier::Thorough {
        plan.push((7, 3));
    }
    for (nv, k) in plan {
        let tris = oriented_tris(nv);
        for sub in subsets(tris.len(), k) {
            let mut c = blank("faces");
            c.nv = nv as usize;
            c.faces = sub.iter().map(|i| tris[*i]).collect();
            out.push(c);
        }
    }
    for name in STRUCTURED {
        let nf = structured(name).1.len() as i64;
        for flip in -1..nf {
            let mut c = blank("structured");
            c.name = name.into();
            c.flip = flip;
            out.push(c);
        }
    }
    // voxel sets: every subset of <= 5 cells of a 2x2x3 block with a gap between the upper layers
    let cells: Vec<[i32; 3]> = (0..12).map(|i| [i % 2, (i / 2) % 2, (i / 4) * 2 - (i / 8)]).collect();
    for mask in 1u32..4096 {
        if mask.count_ones() > 5 {
            continue;
        }
        let mut c = blank("voxels");
        c.cells = (0..12).filter(|i| mask & (1 << i) != 0).map(|i| cells[i]).collect();
        // voxel indices are signed: the same set straddling the origin (smaller subsets only, to keep the count)
        if mask.count_ones() <= 3 {
            let mut neg = blank("voxels");
            neg.cells = c.cells.iter().map(|v| [v[0] - 1, v[1] - 1, v[2] - 2]).collect();
            out.push(neg);
        }
        out.push(c);
    }
    for extra in [
        vec![[0, 0, 0], [1, 1, 1], [2, 2, 2], [3, 3, 3]],
        vec![[0, 0, 0], [2, 0, 0], [4, 0, 0]],
        vec![[-3, 0, 0], [-2, 0, 0], [-1, 0, 0], [0, 0, 0], [1, 0, 0], [2, 0, 0]],
        vec![[-1, -1, -1], [0, 0, 0], [-2, -2, -2], [3, -4, 5], [4, -5, 4]],
        vec![[0, 0, 0], [1, 0, 0], [0, 1, 0], [5, 5, 5], [6, 5, 5], [5, 6, 6]],
    ] {
        let mut c = blank("voxels");
        c.cells = extra;
        out.push(c);
    }
    // ordered lists of <= 4 directed pairs over 5 indices
    let mut pairs = Vec::new();
    for a in 0..5u32 {
        for b in 0..5u32 {
            if a != b {
                pairs.push([a, b]);
            }
        }
    }
    let np = pairs.len();
    for len in 1..=4 {
        for code in 0..np.pow(len as u32) {
            let mut c = code;
            let mut list = Vec::new();
            for _ in 0..len {
                list.push(pairs[c % np]);
                c /= np;
            }
            let mut cs = blank("pairs");
            cs.pairs = list;
            out.push(cs);
        }
    }
    for w in [0.5, 1.0, 3.0] {
        for h in [0.5, 1.0, 3.0] {
            for d in [0.5, 1.0, 3.0] {
                let mut c = blank("box");
                c.dims = vec![w, h, d];
                out.push(c);
            }
        }
    }
    for steps in 3..=12 {
        for (r, h) in [(1.0, 2.0), (0.25, 10.0)] {
            let mut c = blank("cylinder");
            c.dims = vec![r, h, steps as f64];
            out.push(c);
        }
    }
    out
}

pub fn run(tier: Tier) -> i32 {
    let mut cx = Ctx::new("C12", tier, "model_checking");
    cx.rule = "inputs: every list of <= 4 oriented triangles over 5 vertices and <= 4 (thorough: 5) over 6 vertices (thorough: also <= 3 over 7) (all small disks, fans, bow-ties, pillows, flipped and non-manifold configurations), 12 structured meshes (one in tenths of a micron, one with a zero-length edge) each also with every single face flipped, every subset of <= 5 cells of a 2x2x3 voxel block (subsets of <= 3 also shifted to straddle the origin), every ordered list of <= 4 directed pairs over 5 indices, box and cylinder generators; environment: for every mesh / voxel set all hash-map and hash-set traversal orders are choice points answered by the explorer (all permutations up to 4 elements, rotations and reversals beyond), explored exhaustively up to 2 departures from the default order; termination decided by tick budgets 10*3F+100. distinct = distinct inputs".into();
    cx.bounds = json!({"max_deviations": MAX_DEV, "execution_cap_per_input": EXEC_CAP, "faces_v5": 4, "faces_v6": tier.pick(4, 5), "faces_v7": tier.pick(0, 3), "pair_list_len": 4});
    cx.require(&["patch boundary loops on a consistently wound mesh", "patch boundary loops on a consistently wound mesh pinched at a vertex", "edge shared by more than two faces", "closed mesh", "mesh with boundary", "inconsistent winding", "vertex with more than two boundary edges", "structured mesh", "structured mesh with one face flipped", "voxel set with several clusters", "voxel set with one cluster", "path or cycle input", "branching input", "box generator", "cylinder generator"]);
    cx.assume("iteration orders beyond 4 elements are represented by rotations and reversals of the sorted order; at most 2 non-default traversals per execution");
    let cs = cases(tier);
    let l = sweep(&cs, judge);
    let tr = l.transitions;
    cx.absorb(l);
    cx.acc.transitions = tr.max(cx.acc.evals);
    cx.finish()
}

pub fn replay(case: &Val) -> Local {
    let c: Case = serde_json::from_value(case.clone()).expect("case");
    let mut l = Local::new();
    judge(&c, &mut l);
    l
}
