//! C07 — rigid alignment recovers a known displacement and reports honest residuals.
//! (a) state-space: set_params histories of the private least-squares problems (hook H4) compared
//!     with a fresh problem; (b) recovery sweep over a stated basin.
use crate::engine::*;
use crate::refmodel::*;
use engeom::common::DistMode;
use engeom::geom2::align2::{points_to_curve, verif_observe_points_to_curve};
use engeom::geom3::align3::{points_to_mesh, verif_observe_points_to_mesh};
use engeom::{Curve2, Iso2, Iso3, Mesh, Point2, Point3, Vector2, Vector3};
use serde::{Deserialize, Serialize};
use serde_json::json;

#[derive(Serialize, Deserialize, Clone, Debug)]
pub struct Case {
    /// hist2 | hist3 | rec2 | rec3 | wild2 | wild3 | turned2 | turned3
    pub kind: String,
    pub shape: usize,
    pub mode: usize,
    /// displacement / history selector
    pub a: usize,
    pub b: usize,
    pub guess: usize,
}

const DEG: f64 = std::f64::consts::PI / 180.0;

/// Two observation vectors agree within 1e-9 (relative to their magnitude)
fn close_vec(a: &[f64], b: &[f64]) -> bool {
    a.len() == b.len() && a.iter().zip(b.iter()).all(|(x, y)| (x - y).abs() <= 1e-9 * (1.0 + x.abs().max(y.abs())))
}


pub fn curve_ref(shape: usize) -> Curve2 {
    let pts: Vec<(f64, f64)> = match shape {
        0 => vec![(0.0, 0.0), (5.0, 0.0), (5.0, 1.0), (0.0, 1.0)],
        1 => vec![(0.0, 0.0), (6.0, 0.0), (6.0, 2.0), (2.0, 2.0), (2.0, 5.0), (0.0, 5.0)],
        _ => vec![(0.0, 0.0), (4.0, -0.5), (6.0, 2.0), (3.0, 4.5), (-0.5, 3.0)],
    };
    let p: Vec<Point2> = pts.iter().map(|(x, y)| Point2::new(*x, *y)).collect();
    Curve2::from_points(&p, 1e-8, true).unwrap()
}

pub fn curve_samples(c: &Curve2, n: usize) -> Vec<Point2> {
    (0..n).map(|k| c.at_fraction((k as f64 + 0.37) / n as f64).unwrap().point()).collect()
}

/// An open bracket: a plate in z = 0 (x 0..4, y 0..6) and a plate in x = 0 (z 0..3, y 0..6) sharing the fold
/// along y; both have free edges, so samples can slide off them within their own plane
fn bracket() -> Mesh {
    let mut v = Vec::new();
    let mut f: Vec<[u32; 3]> = Vec::new();
    for (plate, (nu, nw)) in [(2usize, 3usize), (2, 3)].iter().enumerate() {
        let base = v.len() as u32;
        for i in 0..=*nu {
            for j in 0..=*nw {
                let (u, w) = (i as f64 * if plate == 0 { 2.0 } else { 1.5 }, j as f64 * 2.0);
                v.push(if plate == 0 { Point3::new(u, w, 0.0) } else { Point3::new(0.0, w, u) });
            }
        }
        for i in 0..*nu {
            for j in 0..*nw {
                let a = base + (i * (nw + 1) + j) as u32;
                let (b, c, d) = (a + 1, a + (*nw as u32 + 1), a + (*nw as u32 + 2));
                if plate == 0 {
                    f.push([a, c, d]);
                    f.push([a, d, b]);
                } else {
                    f.push([a, d, c]);
                    f.push([a, b, d]);
                }
            }
        }
    }
    Mesh::new(v, f, false)
}

/// Grid samples on both plates of the bracket, the outermost rows exactly on the free edges (so that the
/// position of the part along the fold is determined: any slide pushes a row off the surface)
fn bracket_samples() -> Vec<Point3> {
    let mut out = Vec::new();
    for i in 0..=5 {
        for j in 0..=8 {
            let b = j as f64 * 0.75;
            out.push(Point3::new(0.2 + i as f64 * 0.76, b, 0.0));
            out.push(Point3::new(0.0, b, 0.2 + i as f64 * 0.56));
        }
    }
    out
}

pub fn mesh_ref(shape: usize) -> Mesh {
    if shape == 0 {
        return Mesh::create_box(10.0, 5.0, 2.0, false);
    }
    if shape == 2 {
        return bracket();
    }
    // L-shaped prism, height 1.5
    let outline = [(0.0, 0.0), (6.0, 0.0), (6.0, 2.0), (2.0, 2.0), (2.0, 5.0), (0.0, 5.0), (0.0, 2.0)];
    let h = 1.5;
    let mut v = Vec::new();
    for (x, y) in outline {
        v.push(Point3::new(x, y, 0.0));
    }
    for (x, y) in outline {
        v.push(Point3::new(x, y, h));
    }
    let mut f: Vec<[u32; 3]> = Vec::new();
    // bottom (normal -z) and top (normal +z): fans over the two rectangles
    let tris = [[0u32, 1, 2], [0, 2, 3], [0, 3, 6], [6, 3, 4], [6, 4, 5]];
    for t in tris {
        f.push([t[0], t[2], t[1]]);
        f.push([t[0] + 7, t[1] + 7, t[2] + 7]);
    }
    for i in 0..7u32 {
        let j = (i + 1) % 7;
        f.push([i, j, j + 7]);
        f.push([i, j + 7, i + 7]);
    }
    Mesh::new(v, f, false)
}

pub fn mesh_samples(m: &Mesh) -> Vec<Point3> {
    let v = m.vertices();
    let mut out = Vec::new();
    for t in m.faces() {
        let (a, b, c) = (v[t[0] as usize], v[t[1] as usize], v[t[2] as usize]);
        out.push(Point3::from((a.coords + b.coords + c.coords) / 3.0));
        out.push(Point3::from(a.coords * 0.6 + b.coords * 0.3 + c.coords * 0.1));
    }
    out
}

fn residual2(c: &Curve2, m: &Point2) -> f64 {
    c.at_closest_to_point(m).surface_point().scalar_projection(m)
}

/// Reference residual for the 3D modes by brute force; for ToPlane any minimising face is accepted
fn residual3_ok(mesh: &Mesh, m: &Point3, mode: usize, got: f64) -> bool {
    residual3_ok_unit(mesh, m, mode, got, 1.0)
}

fn residual3_ok_unit(mesh: &Mesh, m: &Point3, mode: usize, got: f64, u: f64) -> bool {
    let v = mesh.vertices();
    let mut best = f64::MAX;
    let mut cands = Vec::new();
    for t in mesh.faces() {
        let (a, b, c) = (v[t[0] as usize], v[t[1] as usize], v[t[2] as usize]);
        let cp = tri_closest(&a, &b, &c, m);
        let d = d3(&cp, m);
        best = best.min(d);
        cands.push((d, cp, tri_normal(&a, &b, &c)));
    }
    if mode == 1 {
        (got - best).abs() <= 1e-9 * u
    } else {
        cands.iter().any(|(d, cp, n)| (d - best).abs() <= 1e-9 * u && n.map(|n| (n.dot(&(m - cp)).abs() - got).abs() <= 1e-9 * u).unwrap_or(false))
    }
}

/// The starting guess is a rotation at gimbal lock, Rx(a) Ry(+-90 deg) Rz(c) on a 30-degree grid (exactly the answer:
/// the part is displaced by its inverse): whatever parameterisation the solver uses for its start, it has to accept
/// such a guess and return the answer. `a` = grid index, `b` = sign of the quarter turn.
fn judge_gimbal3(case: &Case, l: &mut Local) {
    let mk = || serde_json::to_value(case).unwrap();
    let mesh = mesh_ref(case.shape);
    let samples = mesh_samples(&mesh);
    let (ia, ic) = (case.a / 12, case.a % 12);
    let (a, c) = ((ia as f64 * 30.0 - 180.0) * DEG, (ic as f64 * 30.0 - 180.0) * DEG);
    let q = if case.b == 0 { 90.0 * DEG } else { -90.0 * DEG };
    let rot = Iso3::rotation(Vector3::x() * a) * Iso3::rotation(Vector3::y() * q) * Iso3::rotation(Vector3::z() * c);
    let guess = Iso3::from_parts(Vector3::new(0.4, -0.2, 0.3).into(), rot.rotation);
    let shift = guess.inverse();
    let mode = || if case.mode == 0 { DistMode::ToPlane } else { DistMode::ToPoint };
    let moved: Vec<Point3> = samples.iter().map(|p| shift * p).collect();
    l.eval();
    l.bucket("3D guess at gimbal lock");
    match guarded(|| points_to_mesh(&moved, &mesh, &guess, mode()).map_err(|e| e.to_string())) {
        Err(e) => {
            l.check("3D alignment returns", "panic", false, mk, || e.clone());
        }
        Ok(Err(e)) => {
            l.check("3D alignment succeeds inside the stated basin", "gimbal", false, mk, || e.clone());
        }
        Ok(Ok(al)) => {
            let err = ((al.transform() * shift).to_matrix() - Iso3::identity().to_matrix()).abs().max();
            l.outcome(hash_of(&(case.b, err <= 1e-6, 21u8)));
            l.check("3D: returned transform composed with the displacement is the identity", "gimbal", err <= 1e-6, mk, || format!("guess Rx({}) Ry({}) Rz({}): error {:e}", a / DEG, q / DEG, c / DEG, err));
        }
    }
}

/// Recovery inside the basin with the reference, the samples, the displacement and the guess all given in another
/// length unit (millimetres, kilometres): the rotation is recovered to 1e-6 and the translation to 1e-6 units
fn judge_unit3(case: &Case, l: &mut Local) {
    let mk = || serde_json::to_value(case).unwrap();
    let u = [1e-3, 1e3, 1e-5][case.b % 3];
    let m1 = mesh_ref(case.shape);
    let mesh = Mesh::new(m1.vertices().iter().map(|p| Point3::from(p.coords * u)).collect(), m1.faces().to_vec(), false);
    let samples: Vec<Point3> = mesh_samples(&m1).iter().map(|p| Point3::from(p.coords * u)).collect();
    let scale_iso = |i: &Iso3| Iso3::from_parts((i.translation.vector * u).into(), i.rotation);
    let shift = scale_iso(&shifts3()[case.a % shifts3().len()]);
    let small = [Iso3::identity(), Iso3::new(Vector3::new(0.1, -0.1, 0.05), Vector3::new(0.01, 0.02, -0.01)), Iso3::new(Vector3::new(-0.05, 0.08, -0.1), Vector3::new(-0.02, 0.0, 0.03))][case.guess % 3];
    let guess = scale_iso(&small);
    let mode = || if case.mode == 0 { DistMode::ToPlane } else { DistMode::ToPoint };
    let moved: Vec<Point3> = samples.iter().map(|p| shift * p).collect();
    l.eval();
    l.bucket("3D recovery in another length unit");
    match guarded(|| points_to_mesh(&moved, &mesh, &guess, mode()).map_err(|e| e.to_string())) {
        Err(e) => {
            l.check("3D alignment returns", "panic", false, mk, || e.clone());
        }
        Ok(Err(e)) => {
            l.check("3D alignment succeeds inside the stated basin", "unit", false, mk, || format!("unit {:e}: {}", u, e));
        }
        Ok(Ok(a)) => {
            let back = a.transform() * shift;
            let rot_err = (back.rotation.to_rotation_matrix().matrix() - parry3d_f64::na::Matrix3::identity()).abs().max();
            let tr_err = back.translation.vector.norm() / u;
            l.outcome(hash_of(&(case.b, case.mode, rot_err <= 1e-6 && tr_err <= 1e-6)));
            l.check("3D: returned transform composed with the displacement is the identity", "unit", rot_err <= 1e-6 && tr_err <= 1e-6, mk, || format!("unit {:e} mode {}: rotation error {:e}, translation error {:e} units", u, case.mode, rot_err, tr_err));
            let honest = moved.iter().enumerate().all(|(i, p)| residual3_ok_unit(&mesh, &(a.transform() * p), case.mode, a.residuals()[i], u));
            l.check("3D: reported residuals equal the mode-specific distances of the moved points", "unit", honest && a.residuals().len() == moved.len(), mk, || format!("unit {:e}", u));
        }
    }
}

fn alphabet2() -> Vec<[f64; 3]> {
    vec![[0.0, 0.0, 0.0], [0.01, -0.02, 0.005], [-0.03, 0.01, -0.01], [0.4, 0.3, 0.5], [-1.0, 2.0, -1.2]]
}
fn alphabet3() -> Vec<[f64; 6]> {
    vec![[0.0; 6], [0.01, -0.02, 0.005, 0.002, -0.003, 0.001], [-0.02, 0.01, 0.0, -0.001, 0.002, 0.004], [0.4, 0.3, 0.5, 0.1, -0.2, 0.3], [-1.0, 2.0, -1.2, 1.0, 0.5, -2.0]]
}

/// History length: 3 in the quick tier, 4 in the thorough tier and in replays
static DEEP: std::sync::atomic::AtomicBool = std::sync::atomic::AtomicBool::new(false);

fn histories(m: usize) -> Vec<Vec<usize>> {
    let deep = DEEP.load(std::sync::atomic::Ordering::Relaxed);
    let mut h: Vec<Vec<usize>> = vec![vec![]];
    for a in 0..m {
        h.push(vec![a]);
        for b in 0..m {
            h.push(vec![a, b]);
            for c in 0..m {
                h.push(vec![a, b, c]);
                if deep {
                    for d in 0..m {
                        h.push(vec![a, b, c, d]);
                    }
                }
            }
        }
    }
    h
}

fn judge_hist2(case: &Case, l: &mut Local) {
    let mk = || serde_json::to_value(case).unwrap();
    let curve = curve_ref(case.shape);
    let mut pts = curve_samples(&curve, 12);
    for (i, p) in pts.iter_mut().enumerate() {
        *p += Vector2::new([0.05, -0.03, 0.0, 0.02][i % 4], [0.0, 0.04, -0.02][i % 3]);
    }
    let initial = [Iso2::identity(), Iso2::new(Vector2::new(0.1, -0.05), 0.1)][case.guess % 2];
    let al = alphabet2();
    for h in histories(al.len()) {
        l.eval();
        l.states += 1;
        l.transitions += h.len() as u64;
        l.traces += 1;
        let hist: Vec<[f64; 3]> = h.iter().map(|i| al[*i]).collect();
        let fresh: Vec<[f64; 3]> = hist.last().map(|x| vec![*x]).unwrap_or_default();
        let r = guarded(|| (verif_observe_points_to_curve(&pts, &curve, &initial, &hist), verif_observe_points_to_curve(&pts, &curve, &initial, &fresh)));
        match r {
            Err(e) => {
                l.check("2D problem observers return", "panic", false, mk, || e.clone());
            }
            Ok((got, want)) => {
                let same = close_vec(&got.0, &want.0) && close_vec(&got.1, &want.1) && close_vec(&got.2, &want.2) && (got.3.to_homogeneous() - want.3.to_homogeneous()).abs().max() <= 1e-9;
                l.bucket("2D set_params history");
                l.outcome(hash_of(&(h.len(), same, 2u8)));
                l.check("2D problem: observations depend only on the last parameters set", "", same, mk, || format!("history {:?}: residuals {:?} vs fresh {:?}", h, got.1, want.1));
                let honest = pts.iter().enumerate().all(|(i, p)| (residual2(&curve, &(got.3 * p)) - got.1[i]).abs() <= 1e-9);
                l.check("2D problem: residuals describe the points moved by the current transform", "", honest, mk, || format!("history {:?}", h));
            }
        }
    }
}

fn judge_hist3(case: &Case, l: &mut Local) {
    let mk = || serde_json::to_value(case).unwrap();
    let mesh = mesh_ref(case.shape);
    let mut pts = mesh_samples(&mesh);
    pts.truncate(20);
    for (i, p) in pts.iter_mut().enumerate() {
        *p += Vector3::new([0.03, -0.02, 0.0][i % 3], [0.0, 0.02][i % 2], [0.02, -0.03, 0.01, 0.0][i % 4]);
    }
    let mode = || if case.mode == 0 { DistMode::ToPlane } else { DistMode::ToPoint };
    let al = alphabet3();
    for h in histories(al.len()) {
        l.eval();
        l.states += 1;
        l.transitions += h.len() as u64;
        l.traces += 1;
        let hist: Vec<[f64; 6]> = h.iter().map(|i| al[*i]).collect();
        let fresh: Vec<[f64; 6]> = hist.last().map(|x| vec![*x]).unwrap_or_default();
        let r = guarded(|| (verif_observe_points_to_mesh(&pts, &mesh, &Iso3::identity(), mode(), &hist), verif_observe_points_to_mesh(&pts, &mesh, &Iso3::identity(), mode(), &fresh)));
        match r {
            Err(e) => {
                l.check("3D problem observers return", "panic", false, mk, || e.clone());
            }
            Ok((got, want)) => {
                let same = close_vec(&got.0, &want.0) && close_vec(&got.1, &want.1) && close_vec(&got.2, &want.2) && (got.3.to_matrix() - want.3.to_matrix()).abs().max() <= 1e-9;
                l.bucket("3D set_params history");
                l.outcome(hash_of(&(h.len(), same, case.mode)));
                l.check("3D problem: observations depend only on the last parameters set", "", same, mk, || format!("mode {} history {:?}", case.mode, h));
                let honest = pts.iter().enumerate().all(|(i, p)| residual3_ok(&mesh, &(got.3 * p), case.mode, got.1[i]));
                l.check("3D problem: residuals describe the points moved by the current transform", "", honest, mk, || format!("mode {} history {:?}", case.mode, h));
            }
        }
    }
}

fn shifts2() -> Vec<Iso2> {
    let mut v = Vec::new();
    for dx in [-0.05, 0.0, 0.05] {
        for dy in [-0.05, 0.0, 0.05] {
            for th in [-10.0 * DEG, -3.0 * DEG, 0.0, 3.0 * DEG, 10.0 * DEG] {
                v.push(Iso2::new(Vector2::new(dx, dy), th));
            }
        }
    }
    v
}

fn shifts3() -> Vec<Iso3> {
    let axes = [Vector3::x(), Vector3::y(), Vector3::z(), Vector3::new(1.0, 1.0, 1.0).normalize()];
    let mut v = Vec::new();
    for tx in [-0.1, 0.0, 0.1] {
        for ty in [-0.1, 0.0, 0.1] {
            for tz in [-0.1, 0.0, 0.1] {
                v.push(Iso3::new(Vector3::new(tx, ty, tz), Vector3::zeros()));
                for ax in axes.iter() {
                    for ang in [-2.0 * DEG, 2.0 * DEG] {
                        v.push(Iso3::new(Vector3::new(tx, ty, tz), ax * ang));
                    }
                }
            }
        }
    }
    v
}

fn judge_rec2(case: &Case, wild: bool, l: &mut Local) {
    let mk = || serde_json::to_value(case).unwrap();
    let curve = curve_ref(case.shape);
    let samples = curve_samples(&curve, [10, 24, 40][case.b % 3]);
    let turned = case.kind == "turned2";
    let shift = if turned {
        // a >= 4: the measured part is given in a frame far from the reference (a scanner frame)
        Iso2::new(if case.a >= 4 { Vector2::new(240.0, -130.0) } else { Vector2::new(3.0, -2.0) }, [100.0 * DEG, 170.0 * DEG, -135.0 * DEG, 60.0 * DEG][case.a % 4])
    } else if wild {
        Iso2::new(Vector2::new(0.3, -0.2), [40.0 * DEG, -40.0 * DEG, 25.0 * DEG][case.a % 3])
    } else {
        shifts2()[case.a % shifts2().len()]
    };
    let small = [Iso2::identity(), Iso2::new(Vector2::new(0.05, -0.02), 2.0 * DEG), Iso2::new(Vector2::new(-0.04, 0.05), -5.0 * DEG)][case.guess % 3];
    // for a turned part the guess is a small motion away from the exact answer (inside the basin)
    let guess = if turned { small * shift.inverse() } else { small };
    let wild = wild && !turned;
    let moved: Vec<Point2> = samples.iter().map(|p| shift * p).collect();
    l.eval();
    l.bucket(if turned { "2D turned part, guess near the answer" } else if wild { "2D start outside the basin" } else { "2D displacement inside the basin" });
    let r = match guarded(|| points_to_curve(&moved, &curve, &guess).map_err(|e| e.to_string())) {
        Ok(r) => r,
        Err(e) => {
            l.check("2D alignment returns", "panic", false, mk, || e.clone());
            return;
        }
    };
    match r {
        Err(e) => {
            l.outcome(hash_of(&(false, wild, 2u8)));
            if !wild {
                l.check("2D alignment succeeds inside the stated basin", "", false, mk, || e.clone());
            }
        }
        Ok(a) => {
            let err = ((a.transform() * shift).to_homogeneous() - Iso2::identity().to_homogeneous()).abs().max();
            l.outcome(hash_of(&(true, wild, err <= 1e-6)));
            if !wild {
                l.check("2D: returned transform composed with the displacement is the identity", "", err <= 1e-6, mk, || format!("error {:e}", err));
            }
            let honest = moved.iter().enumerate().all(|(i, p)| (residual2(&curve, &(a.transform() * p)) - a.residuals()[i]).abs() <= 1e-9);
            l.check("2D: reported residuals equal the distances of the moved points", "", honest && a.residuals().len() == moved.len(), mk, String::new);
            let mean2 = a.residuals().iter().sum::<f64>() / a.residuals().len() as f64;
            if a.residuals().iter().any(|r| *r > 1e-9) && a.residuals().iter().any(|r| *r < -1e-9) {
                l.bucket("2D result with residuals of both signs");
            }
            l.check("the average residual is the mean of the reported residuals", "2D", (a.avg_residual() - mean2).abs() <= 1e-12 * (1.0 + mean2.abs()), mk, || format!("{} vs {}", a.avg_residual(), mean2));
            let start = verif_observe_points_to_curve(&moved, &curve, &guess, &[]);
            let (s0, s1): (f64, f64) = (start.1.iter().map(|r| r * r).sum(), a.residuals().iter().map(|r| r * r).sum());
            l.check("2D: residual sum of squares is not larger than at the starting guess", "", s1 <= s0 + 1e-12, mk, || format!("{} vs {} at the start", s1, s0));
        }
    }
}

fn judge_rec3(case: &Case, wild: bool, l: &mut Local) {
    let mk = || serde_json::to_value(case).unwrap();
    let mesh = mesh_ref(case.shape);
    let open = case.kind == "open3";
    let samples = if open { bracket_samples() } else { mesh_samples(&mesh) };
    let shift = if open {
        // slides within the plates (along the fold, and obliquely with a small turn): samples near the free
        // edges leave the surface while staying in the plane of their face
        [Iso3::new(Vector3::new(0.0, 0.3, 0.0), Vector3::zeros()), Iso3::new(Vector3::new(0.0, -0.2, 0.0), Vector3::zeros()), Iso3::new(Vector3::new(0.05, 0.25, -0.04), Vector3::new(0.0, 0.01, -0.01))][case.a % 3]
    } else if wild {
        Iso3::new(Vector3::new(0.5, -0.3, 0.2), [Vector3::z() * (40.0 * DEG), Vector3::x() * (-40.0 * DEG), Vector3::new(1.0, 1.0, 0.0).normalize() * (25.0 * DEG)][case.a % 3])
    } else {
        shifts3()[case.a % shifts3().len()]
    };
    let turned = case.kind == "turned3";
    let shift = if turned {
        // a >= 4: the measured part is given in a frame far from the reference (a scanner frame)
        Iso3::new(if case.a >= 4 { Vector3::new(300.0, -200.0, 150.0) } else { Vector3::new(3.0, -2.0, 5.0) }, [Vector3::z() * 2.5, Vector3::x() * -3.0, Vector3::new(1.0, 1.0, 1.0).normalize() * 2.2, Vector3::y() * 1.2][case.a % 4])
    } else {
        shift
    };
    let small = [Iso3::identity(), Iso3::new(Vector3::new(0.1, -0.1, 0.05), Vector3::new(0.01, 0.02, -0.01)), Iso3::new(Vector3::new(-0.05, 0.08, -0.1), Vector3::new(-0.02, 0.0, 0.03))][case.guess % 3];
    let guess = if turned { small * shift.inverse() } else { small };
    let wild = wild && !turned;
    let mode = || if case.mode == 0 { DistMode::ToPlane } else { DistMode::ToPoint };
    let moved: Vec<Point3> = samples.iter().map(|p| shift * p).collect();
    l.eval();
    l.bucket(if open { "3D open bracket, samples sliding off free edges" } else if turned { "3D turned part, guess near the answer" } else if wild { "3D start outside the basin" } else if case.mode == 0 { "3D plane mode inside the basin" } else { "3D point mode inside the basin" });
    let r = match guarded(|| points_to_mesh(&moved, &mesh, &guess, mode()).map_err(|e| e.to_string())) {
        Ok(r) => r,
        Err(e) => {
            l.check("3D alignment returns", "panic", false, mk, || e.clone());
            return;
        }
    };
    match r {
        Err(e) => {
            l.outcome(hash_of(&(false, wild, case.mode)));
            if !wild {
                l.check("3D alignment succeeds inside the stated basin", "", false, mk, || e.clone());
            }
        }
        Ok(a) => {
            let err = ((a.transform() * shift).to_matrix() - Iso3::identity().to_matrix()).abs().max();
            l.outcome(hash_of(&(true, wild, case.mode, err <= 1e-6)));
            if !wild {
                l.check("3D: returned transform composed with the displacement is the identity", if case.mode == 0 { "plane" } else { "point" }, err <= 1e-6, mk, || format!("mode {}: error {:e}", case.mode, err));
            }
            let honest = moved.iter().enumerate().all(|(i, p)| residual3_ok(&mesh, &(a.transform() * p), case.mode, a.residuals()[i]));
            l.check("3D: reported residuals equal the mode-specific distances of the moved points", "", honest && a.residuals().len() == moved.len(), mk, String::new);
            let mean3 = a.residuals().iter().sum::<f64>() / a.residuals().len() as f64;
            l.check("the average residual is the mean of the reported residuals", "3D", (a.avg_residual() - mean3).abs() <= 1e-12 * (1.0 + mean3.abs()), mk, || format!("{} vs {}", a.avg_residual(), mean3));
            let start = verif_observe_points_to_mesh(&moved, &mesh, &guess, mode(), &[]);
            let (s0, s1): (f64, f64) = (start.1.iter().map(|r| r * r).sum(), a.residuals().iter().map(|r| r * r).sum());
            l.check("3D: residual sum of squares is not larger than at the starting guess", "", s1 <= s0 + 1e-12, mk, || format!("{} vs {} at the start", s1, s0));
        }
    }
}

pub fn judge(case: &Case, l: &mut Local) {
    l.distinct(hash_of(&serde_json::to_string(case).unwrap()));
    if case.a == 7 {
        l.sample(|| serde_json::to_value(case).unwrap());
    }
    match case.kind.as_str() {
        "hist2" => judge_hist2(case, l),
        "hist3" => judge_hist3(case, l),
        "rec2" => judge_rec2(case, false, l),
        "wild2" => judge_rec2(case, true, l),
        "rec3" => judge_rec3(case, false, l),
        "unit3" => judge_unit3(case, l),
        "gimbal3" => judge_gimbal3(case, l),
        "wild3" => judge_rec3(case, true, l),
        "turned2" => judge_rec2(case, true, l),
        "turned3" => judge_rec3(case, true, l),
        "open3" => judge_rec3(case, false, l),
        _ => {}
    }
}

pub fn cases(tier: Tier) -> Vec<Case> {
    let mut out = Vec::new();
    let c = |kind: &str, shape, mode, a, b, guess| Case { kind: kind.into(), shape, mode, a, b, guess };
    for shape in 0..3 {
        for guess in 0..2 {
            out.push(c("hist2", shape, 0, 0, 0, guess));
        }
    }
    for shape in 0..2 {
        for mode in 0..2 {
            out.push(c("hist3", shape, mode, 0, 0, 0));
        }
    }
    // starting guesses at gimbal lock on a 30-degree grid
    for a in 0..144 {
        for b in 0..2 {
            out.push(c("gimbal3", a % 2, (a / 2) % 2, a, b, 0));
        }
    }
    // the 3D basin in millimetres and kilometres (every ninth displacement in the quick tier)
    for shape in 0..2 {
        for mode in 0..2 {
            for a in (0..shifts3().len()).step_by(if tier == Tier::Quick { 9 } else { 1 }) {
                for b in 0..3 {
                    out.push(c("unit3", shape, mode, a, b, a % 3));
                }
            }
        }
    }
    for shape in 0..3 {
        for a in 0..shifts2().len() {
            for b in 0..3 {
                for guess in 0..2 {
                    out.push(c("rec2", shape, 0, a, b, guess));
                }
            }
        }
        for a in 0..3 {
            for guess in 0..2 {
                out.push(c("wild2", shape, 0, a, 1, guess));
            }
        }
        for a in 0..8 {
            for guess in 0..3 {
                out.push(c("turned2", shape, 0, a, 1, guess));
            }
        }
    }
    for a in 0..3 {
        for guess in 0..2 {
            out.push(c("open3", 2, 1, a, 0, guess));
        }
    }
    let n3 = shifts3().len();
    for shape in 0..2 {
        for mode in 0..2 {
            for a in 0..n3 {
                if tier == Tier::Quick && (a + seed() as usize) % 3 != shape {
                    continue;
                }
                for guess in 0..2 {
                    out.push(c("rec3", shape, mode, a, 0, guess));
                }
            }
            for a in 0..3 {
                out.push(c("wild3", shape, mode, a, 0, 0));
            }
            for a in 0..8 {
                for guess in 0..3 {
                    out.push(c("turned3", shape, mode, a, 0, guess));
                }
            }
        }
    }
    out
}

pub fn run(tier: Tier) -> i32 {
    let mut cx = Ctx::new("C07", tier, "model_checking");
    cx.rule = "MC: every set_params history of length <= 3 (thorough: 4) over a 5-vector alphabet (start, two small, two large moves) of the private 2D points-to-curve problem (3 reference curves x 2 initial guesses) and the 3D points-to-mesh problem (2 meshes x 2 distance modes), each compared with a fresh problem whose history is just the last element, residuals recomputed by brute force. EX: recovery of every displacement of the stated basin (2D: {-.05,0,.05}^2 x {0,+-3,+-10 deg}; 3D: {-.1,0,.1}^3 x {0, +-2 deg about x, y, z, (1,1,1)}; at most 5% of the smallest feature) x 2 initial guesses x sample densities x both DistModes on rectangle / L-shape / pentagon and box / L-prism; the 3D basin also with everything in millimetres and in kilometres; out-of-basin starts (25-40 deg) judged for residual honesty only; 'turned parts': displacements of 60-170 deg (2D) / 1.2-3 rad (3D) with translations, started from a guess within the basin of the exact answer, must be recovered. distinct = distinct cases".into();
    DEEP.store(tier == Tier::Thorough, std::sync::atomic::Ordering::Relaxed);
    cx.bounds = json!({"history_len": tier.pick(3, 4), "alphabet": 5, "shifts2": shifts2().len(), "shifts3": shifts3().len(), "shifts3_subsampling": tier.pick(3, 1)});
    cx.require(&["2D set_params history", "3D set_params history", "2D displacement inside the basin", "2D start outside the basin", "3D plane mode inside the basin", "3D point mode inside the basin", "3D start outside the basin", "2D turned part, guess near the answer", "3D turned part, guess near the answer", "3D open bracket, samples sliding off free edges", "2D result with residuals of both signs", "3D recovery in another length unit", "3D guess at gimbal lock"]);
    cx.assume("basin: translations up to 5% of the smallest feature, rotations up to 10 deg (2D) / 2 deg (3D), guesses within 2 deg / 0.1; recovery judged at 1e-6 on matrix entries; plane-mode residuals may use any minimising face");
    let cs = cases(tier);
    let l = sweep(&cs, judge);
    let (states, transitions) = (l.states, l.transitions);
    cx.absorb(l);
    cx.acc.states = states;
    cx.acc.transitions = transitions.max(cx.acc.evals);
    cx.finish()
}

pub fn replay(case: &Val) -> Local {
    let c: Case = serde_json::from_value(case.clone()).expect("case");
    let mut l = Local::new();
    DEEP.store(true, std::sync::atomic::Ordering::Relaxed);
    judge(&c, &mut l);
    l
}
