//! C05 — resampling, simplifying and gap filling stay on the curve and cover it all.
use crate::engine::*;
use crate::gen;
use engeom::common::points::{fill_gaps, ramer_douglas_peucker};
use engeom::common::Resample;
use engeom::{Curve2, Curve3, Point2, Point3};
use serde::{Deserialize, Serialize};
use serde_json::json;

type P = [f64; 3];
fn sub(a: &P, b: &P) -> P {
    [a[0] - b[0], a[1] - b[1], a[2] - b[2]]
}
fn add(a: &P, b: &P) -> P {
    [a[0] + b[0], a[1] + b[1], a[2] + b[2]]
}
fn mul(a: &P, s: f64) -> P {
    [a[0] * s, a[1] * s, a[2] * s]
}
fn dot(a: &P, b: &P) -> f64 {
    a[0] * b[0] + a[1] * b[1] + a[2] * b[2]
}
fn dist(a: &P, b: &P) -> f64 {
    let d = sub(a, b);
    dot(&d, &d).sqrt()
}
fn seg_dist(a: &P, b: &P, p: &P) -> f64 {
    let ab = sub(b, a);
    let l2 = dot(&ab, &ab);
    let t = if l2 > 0.0 { (dot(&sub(p, a), &ab) / l2).clamp(0.0, 1.0) } else { 0.0 };
    dist(&add(a, &mul(&ab, t)), p)
}
fn brute_dist(v: &[P], p: &P) -> f64 {
    if v.len() == 1 {
        return dist(&v[0], p);
    }
    (0..v.len() - 1).map(|i| seg_dist(&v[i], &v[i + 1], p)).fold(f64::MAX, f64::min)
}
fn cum(v: &[P]) -> Vec<f64> {
    let mut out = vec![0.0];
    for i in 0..v.len() - 1 {
        out.push(out[i] + dist(&v[i], &v[i + 1]));
    }
    out
}
fn point_at(v: &[P], c: &[f64], l: f64) -> P {
    if l <= 0.0 {
        return v[0];
    }
    for i in 0..v.len() - 1 {
        if l <= c[i + 1] {
            let e = c[i + 1] - c[i];
            return add(&v[i], &mul(&sub(&v[i + 1], &v[i]), if e > 0.0 { (l - c[i]) / e } else { 0.0 }));
        }
    }
    v[v.len() - 1]
}
fn length(v: &[P]) -> f64 {
    *cum(v).last().unwrap()
}

/// Minimum distance between segments p1q1 and p2q2 (Ericson 5.1.9)
fn seg_seg_dist(p1: &P, q1: &P, p2: &P, q2: &P) -> f64 {
    let d1 = sub(q1, p1);
    let d2 = sub(q2, p2);
    let r = sub(p1, p2);
    let a = dot(&d1, &d1);
    let e = dot(&d2, &d2);
    let f = dot(&d2, &r);
    let (s, t);
    if a <= 0.0 && e <= 0.0 {
        return dist(p1, p2);
    }
    if a <= 0.0 {
        s = 0.0;
        t = (f / e).clamp(0.0, 1.0);
    } else {
        let c = dot(&d1, &r);
        if e <= 0.0 {
            t = 0.0;
            s = (-c / a).clamp(0.0, 1.0);
        } else {
            let b = dot(&d1, &d2);
            let denom = a * e - b * b;
            let mut s0 = if denom > 0.0 { ((b * f - c * e) / denom).clamp(0.0, 1.0) } else { 0.0 };
            let mut t0 = (b * s0 + f) / e;
            if t0 < 0.0 {
                t0 = 0.0;
                s0 = (-c / a).clamp(0.0, 1.0);
            } else if t0 > 1.0 {
                t0 = 1.0;
                s0 = ((b - c) / a).clamp(0.0, 1.0);
            }
            s = s0;
            t = t0;
        }
    }
    let c1 = add(p1, &mul(&d1, s));
    let c2 = add(p2, &mul(&d2, t));
    // parallel overlapping segments: also test the end points
    dist(&c1, &c2)
        .min(seg_dist(p1, q1, p2))
        .min(seg_dist(p1, q1, q2))
        .min(seg_dist(p2, q2, p1))
        .min(seg_dist(p2, q2, q1))
}

/// No two non-adjacent edges touch and no edge folds back onto its neighbour. `closed` sources
/// need at least three edges.
/// The closed polygon through `pts` (closing edge added) is simple
pub fn is_simple_polygon2(pts: &[engeom::Point2]) -> bool {
    let mut v: Vec<P> = pts.iter().map(|p| [p.x, p.y, 0.0]).collect();
    if v.len() < 3 {
        return false;
    }
    if v[0] != v[v.len() - 1] {
        v.push(v[0]);
    }
    is_simple(&v, true, 1e-9)
}

fn is_simple(v: &[P], closed: bool, eps: f64) -> bool {
    let m = v.len() - 1;
    if closed && m < 3 {
        return false;
    }
    for i in 0..m {
        for j in i + 1..m {
            let adjacent = j == i + 1 || (closed && i == 0 && j == m - 1);
            if adjacent {
                let (a, b, c) = if j == i + 1 { (v[i], v[i + 1], v[j + 1]) } else { (v[j], v[0], v[1]) };
                if seg_dist(&a, &b, &c) <= eps || seg_dist(&b, &c, &a) <= eps {
                    return false;
                }
            } else if seg_seg_dist(&v[i], &v[i + 1], &v[j], &v[j + 1]) <= eps {
                return false;
            }
        }
    }
    true
}

#[derive(Serialize, Deserialize, Clone, Debug)]
pub struct Case {
    pub dim: u8,
    pub verts: Vec<Vec<i32>>,
    pub force_closed: bool,
    pub scale: f64,
    /// count | spacing | maxspacing | simplify | fillgaps | rdp
    pub op: String,
    /// count, or a factor (of L for spacings, of scale for tolerances)
    pub param: f64,
    /// closed within the tolerance but not exactly: the last vertex is displaced by this fraction of the
    /// curve tolerance (0 = as listed)
    #[serde(default)]
    pub nudge: f64,
    /// curve tolerance: 0 = the default 1e-9 * scale, negative = exactly zero, positive = this factor of scale
    #[serde(default)]
    pub ctol: f64,
    /// the source is itself a derived curve: 0 = as built, 1 = reversed, 2 = simplified with 0.3 * scale first
    #[serde(default)]
    pub derived: u8,
}

struct Src {
    simple: bool,
    v: Vec<P>,
    c: Vec<f64>,
    closed: bool,
    tol: f64,
    eps: f64,
}

/// Outcome of calling the real operation: vertices and closedness of the result
type Out = Result<(Vec<P>, bool), String>;

fn to2(v: &[Point2]) -> Vec<P> {
    v.iter().map(|p| [p.x, p.y, 0.0]).collect()
}
fn to3(v: &[Point3]) -> Vec<P> {
    v.iter().map(|p| [p.x, p.y, p.z]).collect()
}

fn is_subsequence(sub_: &[P], of: &[P]) -> bool {
    let mut k = 0;
    for p in sub_ {
        while k < of.len() && of[k] != *p {
            k += 1;
        }
        if k == of.len() {
            return false;
        }
        k += 1;
    }
    true
}

fn judge_out(case: &Case, s: &Src, out: Out, l: &mut Local) {
    let mk = || serde_json::to_value(case).unwrap();
    let big_l = *s.c.last().unwrap();
    let op = case.op.as_str();
    l.eval();
    if matches!(op, "count" | "spacing" | "maxspacing") && !s.simple {
        // spacing and span are not well defined where the source overlaps itself: samples coincide,
        // are merged by the curve constructor, and the result may not even be a curve
        l.gray("resampling a self-touching source");
        return;
    }
    // Requests that cannot leave three distinct positions on a closed curve may be rejected
    let degenerate_closed = s.closed
        && match op {
            "count" => case.param < 4.0,
            "spacing" | "maxspacing" => case.param >= 0.5,
            _ => false,
        };
    let (r, r_closed) = match out {
        Ok(x) => x,
        Err(msg) => {
            let panicked = msg.starts_with("panic:");
            if degenerate_closed && !panicked {
                l.gray("degenerate request on a closed curve rejected");
                return;
            }
            l.check(
                &format!("{} succeeds", op),
                if panicked { "panic" } else { "err" },
                false,
                mk,
                || format!("{} (L={:e}, closed={})", msg, big_l, s.closed),
            );
            return;
        }
    };
    l.check(&format!("{} succeeds", op), "", true, mk, String::new);
    l.outcome(hash_of(&(op, r.len().min(40), r_closed)));
    if degenerate_closed {
        l.gray("degenerate request on a closed curve: only success judged");
        return;
    }
    let on_curve = r.iter().all(|p| brute_dist(&s.v, p) <= s.eps);
    l.check(&format!("{}: every output vertex on the source", op), "", on_curve, mk, || {
        format!("worst {:e}", r.iter().map(|p| brute_dist(&s.v, p)).fold(0.0, f64::max))
    });
    let len_out = length(&r);
    match op {
        "count" | "maxspacing" | "spacing" => {
            l.check(&format!("{}: closedness kept", op), "", r_closed == s.closed, mk, || {
                format!("source closed {} result closed {}", s.closed, r_closed)
            });
            if op == "spacing" {
                // a closed result carries a closing vertex that may or may not be one of the samples
                let sp = case.param * big_l;
                let mut candidates = vec![r.clone()];
                if s.closed && r.len() > 2 && dist(&r[0], r.last().unwrap()) <= s.tol {
                    let mut b = r.clone();
                    b.pop();
                    candidates.push(b);
                }
                let mut best = (f64::MAX, 0.0, 0usize);
                let mut ok = false;
                for rr in &candidates {
                    let n = rr.len();
                    let margin = (big_l - (n as f64 - 1.0) * sp) / 2.0;
                    if !(margin >= -s.eps && margin < sp + s.eps) {
                        continue;
                    }
                    let worst = (0..n)
                        .map(|k| dist(&point_at(&s.v, &s.c, (margin.max(0.0) + k as f64 * sp).min(big_l)), &rr[k]))
                        .fold(0.0, f64::max);
                    if worst < best.0 {
                        best = (worst, margin, n);
                    }
                    ok |= worst <= s.eps.max(1e-9 * big_l);
                }
                l.check("spacing: centred samples one spacing apart with equal margins below one spacing", "", ok, mk, || {
                    format!("spacing {:e}, L {:e}, {} vertices: best interpretation deviates {:e} (margin {:e}, n {})", sp, big_l, r.len(), best.0, best.1, best.2)
                });
                l.check("spacing: length not larger than the source", "", len_out <= big_l + s.eps, mk, || {
                    format!("result length {:e} source {:e}", len_out, big_l)
                });
                return;
            }
            let rr = r.clone();
            let n = rr.len();
            let (first, step) = match op {
                "count" => {
                    let want = case.param as usize;
                    let step = big_l / (want as f64 - 1.0);
                    // consecutive reference points further apart than the curve tolerance => no de-duplication
                    let _ = step;
                    l.check("count: vertex count matches the request", "", n == want, mk, || format!("asked {} got {}", want, n));
                    (0.0, big_l / (n.max(2) as f64 - 1.0))
                }
                "maxspacing" => {
                    let m = case.param * big_l;
                    let step = big_l / (n.max(2) as f64 - 1.0);
                    l.check("maxspacing: spacing within the maximum", "", n >= 2 && step <= m * (1.0 + 1e-12), mk, || {
                        format!("max {:e} spacing {:e} ({} vertices, L={:e})", m, step, n, big_l)
                    });
                    (0.0, step)
                }
                _ => {
                    let sp = case.param * big_l;
                    let margin = (big_l - (n as f64 - 1.0) * sp) / 2.0;
                    l.check("spacing: equal margins smaller than one spacing", "", margin >= -s.eps && margin < sp + s.eps, mk, || {
                        format!("spacing {:e} vertices {} margin {:e}", sp, n, margin)
                    });
                    (margin, sp)
                }
            };
            if n >= 2 {
                let mut worst = 0.0f64;
                for k in 0..n {
                    let e = point_at(&s.v, &s.c, (first + k as f64 * step).min(big_l));
                    worst = worst.max(dist(&e, &rr[k]));
                }
                l.check(&format!("{}: evenly spaced over the whole source", op), "", worst <= s.eps.max(1e-9 * big_l), mk, || {
                    format!("vertex deviates {:e} from its expected arc position (first {:e}, step {:e}, n {}, L {:e})", worst, first, step, n, big_l)
                });
            }
            l.check(&format!("{}: length not larger than the source", op), "", len_out <= big_l + s.eps, mk, || {
                format!("result length {:e} source {:e}", len_out, big_l)
            });
        }
        "simplify" | "rdp" => {
            let e = case.param * case.scale;
            l.check(&format!("{}: result is a subsequence of the source vertices", op), "", is_subsequence(&r, &s.v), mk, || format!("{:?}", r));
            let ends = !r.is_empty() && r[0] == s.v[0] && r.last() == s.v.last();
            l.check(&format!("{}: both end points kept", op), "", ends, mk, || {
                format!("first {:?} last {:?} vs source {:?} {:?}", r.first(), r.last(), s.v[0], s.v.last())
            });
            if op == "simplify" {
                l.check("simplify: closedness kept", "", r_closed == s.closed, mk, || format!("source closed {} result {}", s.closed, r_closed));
            }
            let worst = s.v.iter().map(|p| brute_dist(&r, p)).fold(0.0, f64::max);
            l.check(&format!("{}: discarded vertices within tolerance of the result", op), "", worst <= e * (1.0 + 1e-9) + s.eps, mk, || {
                format!("tolerance {:e}, farthest discarded vertex {:e}", e, worst)
            });
        }
        "fillgaps" => {
            let m = case.param * case.scale;
            l.check("fillgaps: originals kept in order", "", is_subsequence(&s.v, &r), mk, || format!("{:?}", r));
            let worst = (0..r.len() - 1).map(|i| dist(&r[i], &r[i + 1])).fold(0.0, f64::max);
            l.check("fillgaps: no gap above the maximum", "", worst <= m * (1.0 + 1e-12), mk, || format!("max {:e} gap {:e}", m, worst));
            l.check("fillgaps: length unchanged", "", (len_out - big_l).abs() <= s.eps, mk, || format!("{:e} vs {:e}", len_out, big_l));
        }
        _ => {}
    }
}

fn wrap<T>(f: impl FnOnce() -> std::result::Result<T, String>) -> std::result::Result<T, String> {
    match guarded(f) {
        Ok(r) => r,
        Err(p) => Err(format!("panic: {}", p)),
    }
}

/// The one-dimensional sibling: a series (a polyline over an abscissa) resampled to n evenly spaced values. Every
/// new knot lies on the original, the result spans it from the first to the last abscissa exactly, and nothing
/// is NaN. `verts[0]` = [series index, n], op "series".
fn judge_series(case: &Case, l: &mut Local) {
    use engeom::func1::Series1;
    let mk = || serde_json::to_value(case).unwrap();
    let (si, n) = (case.verts[0][0] as usize, case.verts[0][1] as usize);
    // clustered knots (several originals between two new values when n is small) and plain ranges whose step is
    // not exactly representable
    let table: [(&[f64], &[f64]); 6] = [
        (&[0.0, 0.3], &[1.0, -2.0]),
        (&[0.5, 3.7], &[0.0, 4.0]),
        (&[0.0, 10.0], &[2.0, -1.0]),
        (&[0.0, 0.1, 0.15, 0.2, 0.22, 0.9, 1.0], &[0.0, 1.0, -1.0, 2.0, 0.5, 3.0, -2.0]),
        (&[-1.0, -0.98, -0.97, 0.0, 2.5], &[1.0, 5.0, -3.0, 0.0, 1.0]),
        (&[0.0, 1.0, 1.01, 1.02, 1.03, 1.04, 7.3], &[0.0, 1.0, 0.0, 1.0, 0.0, 1.0, 0.0]),
    ];
    let (xs, ys) = table[si % table.len()];
    let s = match Series1::try_new(xs.to_vec(), ys.to_vec()) {
        Ok(s) => s,
        Err(_) => return,
    };
    let f = |x: f64| -> f64 {
        let k = (0..xs.len() - 1).rev().find(|k| xs[*k] <= x).unwrap_or(0);
        let t = (x - xs[k]) / (xs[k + 1] - xs[k]);
        ys[k] + (ys[k + 1] - ys[k]) * t
    };
    l.eval();
    l.bucket("series resampled to evenly spaced abscissae");
    match guarded(|| s.resampled_n(n)) {
        Ok(r) => {
            let rx = r.x.to_vec();
            // (the last abscissa may fall an ulp short of the end; it must not fall beyond it, where the series is undefined)
            let span = xs[xs.len() - 1] - xs[0];
            let spans = rx.len() == n && rx[0] == xs[0] && rx[n - 1] <= xs[xs.len() - 1] && xs[xs.len() - 1] - rx[n - 1] <= 1e-12 * span;
            let finite = r.y.iter().all(|y| y.is_finite());
            let step = (xs[xs.len() - 1] - xs[0]) / (n as f64 - 1.0);
            let even = rx.windows(2).all(|w| (w[1] - w[0] - step).abs() <= 1e-9 * (1.0 + step));
            let worst = rx.iter().zip(r.y.iter()).map(|(x, y)| (y - f(*x)).abs()).fold(0.0, f64::max);
            l.outcome(hash_of(&(si, n.min(40), 17u8)));
            l.check("series resampling: every new knot lies on the original, the result spans it exactly and holds no NaN", "", spans && finite && even && worst <= 1e-9, mk, || format!("series {} n {}: spans {} finite {} evenly spaced {} worst deviation {:e}; last x {:?} y {:?}", si, n, spans, finite, even, worst, rx.last(), r.y.last()));
        }
        Err(e) => {
            l.check("series resampling: every new knot lies on the original, the result spans it exactly and holds no NaN", "panic", false, mk, || e.clone());
        }
    }
}

pub fn judge(case: &Case, l: &mut Local) {
    if case.op == "series" {
        judge_series(case, l);
        return;
    }
    let tol = if case.ctol < 0.0 { 0.0 } else if case.ctol > 0.0 { case.ctol * case.scale } else { 1e-9 * case.scale };
    let eps = 1e-9 * case.scale * 3.0;
    let op = case.op.as_str();
    if case.ctol < 0.0 {
        l.bucket("curve tolerance exactly zero");
    } else if case.ctol > 0.0 {
        l.bucket("coarse curve tolerance, finer simplification");
    }
    if case.dim == 2 {
        let mut pts: Vec<Point2> = case.verts.iter().map(|c| gen::p2([c[0], c[1]], case.scale)).collect();
        if case.nudge != 0.0 {
            let n = pts.len();
            pts[n - 1] += engeom::Vector2::new(0.6, 0.8) * (case.nudge * tol);
            l.bucket("source closed only within the tolerance");
        }
        if op == "rdp" || op == "fillgaps" {
            let v = to2(&pts);
            let s = Src { simple: is_simple(&v, false, eps), c: cum(&v), v, closed: false, tol, eps };
            let out = if op == "rdp" {
                wrap(|| Ok((to2(&ramer_douglas_peucker(&pts, case.param * case.scale)), false)))
            } else {
                wrap(|| Ok((to2(&fill_gaps(&pts, case.param * case.scale)), false)))
            };
            l.bucket(op);
            judge_out(case, &s, out, l);
            return;
        }
        let c = match Curve2::from_points(&pts, tol, case.force_closed) {
            Ok(c) => c,
            Err(_) => return,
        };
        let c = match case.derived {
            1 => match guarded(|| c.reversed()) { Ok(x) => x, Err(_) => return },
            2 => match guarded(|| c.simplify(0.3 * case.scale)) { Ok(x) => x, Err(_) => return },
            _ => c,
        };
        if case.derived != 0 {
            l.bucket("source that is itself a derived curve");
        }
        let v = to2(c.points());
        let big_l = c.length();
        l.distinct(hash_of(&(hash_f64s(&v.concat()), c.is_closed())));
        l.bucket(if c.is_closed() { "closed source" } else { "open source" });
        l.bucket(if big_l < 1.0 { "total length below one unit" } else { "total length above one unit" });
        l.sample(|| json!({"case": serde_json::to_value(case).unwrap(), "source_length": big_l, "closed": c.is_closed()}));
        let s = Src { simple: is_simple(&v, c.is_closed(), eps), c: cum(&v), v, closed: c.is_closed(), tol, eps };
        let conv = |r: engeom::Result<Curve2>| r.map(|x| (to2(x.points()), x.is_closed())).map_err(|e| e.to_string());
        let out = match op {
            "count" => wrap(|| conv(c.resample(Resample::ByCount(case.param as usize)))),
            "spacing" => wrap(|| conv(c.resample(Resample::BySpacing(case.param * big_l)))),
            "maxspacing" => wrap(|| conv(c.resample(Resample::ByMaxSpacing(case.param * big_l)))),
            "simplify" => wrap(|| {
                let x = c.simplify(case.param * case.scale);
                Ok((to2(x.points()), x.is_closed()))
            }),
            _ => return,
        };
        l.bucket(op);
        if s.simple {
            l.bucket("simple source");
        } else {
            l.bucket("self-touching source");
        }
        judge_out(case, &s, out, l);
    } else {
        let pts: Vec<Point3> = case.verts.iter().map(|c| gen::p3([c[0], c[1], c[2]], case.scale)).collect();
        if op == "rdp" || op == "fillgaps" {
            let v = to3(&pts);
            let s = Src { simple: is_simple(&v, false, eps), c: cum(&v), v, closed: false, tol, eps };
            let out = if op == "rdp" {
                wrap(|| Ok((to3(&ramer_douglas_peucker(&pts, case.param * case.scale)), false)))
            } else {
                wrap(|| Ok((to3(&fill_gaps(&pts, case.param * case.scale)), false)))
            };
            l.bucket(op);
            judge_out(case, &s, out, l);
            return;
        }
        let c = match Curve3::from_points(&pts, tol) {
            Ok(c) => c,
            Err(_) => return,
        };
        let c = match case.derived {
            2 => match guarded(|| c.simplify(0.3 * case.scale)) { Ok(x) => x, Err(_) => return },
            _ => c,
        };
        if case.derived != 0 {
            l.bucket("source that is itself a derived curve");
        }
        let v = to3(c.points());
        let big_l = c.length();
        l.distinct(hash_of(&(hash_f64s(&v.concat()), 3u8)));
        l.bucket("3D source");
        l.bucket(if big_l < 1.0 { "total length below one unit" } else { "total length above one unit" });
        let s = Src { simple: is_simple(&v, false, eps), c: cum(&v), v, closed: false, tol, eps };
        let out = match op {
            "count" => wrap(|| Ok((to3(c.resample(Resample::ByCount(case.param as usize)).points()), false))),
            "spacing" => wrap(|| Ok((to3(c.resample(Resample::BySpacing(case.param * big_l)).points()), false))),
            "maxspacing" => wrap(|| Ok((to3(c.resample(Resample::ByMaxSpacing(case.param * big_l)).points()), false))),
            "simplify" => wrap(|| Ok((to3(c.simplify(case.param * case.scale).points()), false))),
            _ => return,
        };
        l.bucket(op);
        judge_out(case, &s, out, l);
    }
}

pub fn requests() -> Vec<(&'static str, f64)> {
    let mut r = Vec::new();
    for n in [2.0, 3.0, 5.0, 10.0, 37.0] {
        r.push(("count", n));
    }
    for f in [0.9, 0.5, 1.0 / 2.5, 1.0 / 3.0, 0.25, 0.125, 1.0 / 7.3] {
        r.push(("spacing", f));
    }
    for f in [2.0, 1.0, 0.5, 1.0 / 2.5, 1.0 / 7.3] {
        r.push(("maxspacing", f));
    }
    for e in [0.0, 1e-6, 0.3, 0.8, 1.5, 5.0] {
        r.push(("simplify", e));
        r.push(("rdp", e));
    }
    for m in [0.3, 1.0, 1.5, 10.0] {
        r.push(("fillgaps", m));
    }
    r
}

pub fn cases(tier: Tier) -> Vec<Case> {
    let mut out = Vec::new();
    let scales = [1e-3, 0.25, 1.0, 7.3, 1e3];
    let lat2 = gen::lattice2(3);
    for s in gen::seqs(lat2.len(), 2, tier.pick(4, 5)) {
        let verts: Vec<Vec<i32>> = s.iter().map(|i| lat2[*i].to_vec()).collect();
        let sc: &[f64] = if s.len() <= 4 { &scales } else { &[0.25, 7.3] };
        for scale in sc {
            for (op, param) in requests() {
                for fc in [false, true] {
                    if fc && (op == "rdp" || op == "fillgaps") {
                        continue;
                    }
                    out.push(Case { dim: 2, verts: verts.clone(), force_closed: fc, scale: *scale, op: op.into(), param, nudge: 0.0, ctol: 0.0, derived: 0 });
                }
            }
        }
    }
    // naturally closed sequences whose last vertex misses the first by half the curve tolerance: closed, but
    // not exactly
    for s in gen::seqs(lat2.len(), 4, tier.pick(4, 5)) {
        if s[0] != s[s.len() - 1] {
            continue;
        }
        let verts: Vec<Vec<i32>> = s.iter().map(|i| lat2[*i].to_vec()).collect();
        for scale in [0.25, 7.3] {
            for (op, param) in requests() {
                if op == "rdp" || op == "fillgaps" {
                    continue;
                }
                out.push(Case { dim: 2, verts: verts.clone(), force_closed: false, scale, op: op.into(), param, nudge: 0.5, ctol: 0.0, derived: 0 });
            }
        }
    }
    let lat3 = gen::lattice3(3);
    // curves whose tolerance is exactly zero (closedness and de-duplication decided by exact equality), and
    // curves built with a coarse tolerance that are simplified with a finer one
    for s in gen::seqs(lat2.len(), 2, 4) {
        let verts: Vec<Vec<i32>> = s.iter().map(|i| lat2[*i].to_vec()).collect();
        for (op, param) in requests() {
            if op == "rdp" || op == "fillgaps" {
                continue;
            }
            for fc in [false, true] {
                for scale in [0.25, 1.0] {
                    out.push(Case { dim: 2, verts: verts.clone(), force_closed: fc, scale, op: op.into(), param, nudge: 0.0, ctol: -1.0, derived: 0 });
                }
                if op == "simplify" {
                    out.push(Case { dim: 2, verts: verts.clone(), force_closed: fc, scale: 1.0, op: op.into(), param, nudge: 0.0, ctol: 0.05, derived: 0 });
                }
            }
        }
    }
    for s in gen::seqs(lat3.len(), 2, 3) {
        let verts: Vec<Vec<i32>> = s.iter().map(|i| lat3[*i].to_vec()).collect();
        for (op, param) in requests() {
            if op == "simplify" {
                out.push(Case { dim: 3, verts: verts.clone(), force_closed: false, scale: 1.0, op: op.into(), param, nudge: 0.0, ctol: 0.05, derived: 0 });
                out.push(Case { dim: 3, verts: verts.clone(), force_closed: false, scale: 1.0, op: op.into(), param, nudge: 0.0, ctol: 0.6, derived: 0 });
            } else if op != "rdp" && op != "fillgaps" {
                out.push(Case { dim: 3, verts: verts.clone(), force_closed: false, scale: 1.0, op: op.into(), param, nudge: 0.0, ctol: -1.0, derived: 0 });
            }
        }
    }
    // sources that are themselves derived curves (reversed; simplified first): whatever a derived curve carries
    // over from its parent must have been refreshed
    for s in gen::seqs(lat2.len(), 3, 4) {
        let verts: Vec<Vec<i32>> = s.iter().map(|i| lat2[*i].to_vec()).collect();
        for (op, param) in requests() {
            if op == "rdp" || op == "fillgaps" {
                continue;
            }
            for derived in [1u8, 2] {
                for fc in [false, true] {
                    out.push(Case { dim: 2, verts: verts.clone(), force_closed: fc, scale: 1.0, op: op.into(), param, nudge: 0.0, ctol: 0.0, derived });
                }
            }
        }
    }
    for s in gen::seqs(lat3.len(), 3, 3) {
        let verts: Vec<Vec<i32>> = s.iter().map(|i| lat3[*i].to_vec()).collect();
        for (op, param) in requests() {
            if op == "rdp" || op == "fillgaps" {
                continue;
            }
            out.push(Case { dim: 3, verts: verts.clone(), force_closed: false, scale: 1.0, op: op.into(), param, nudge: 0.0, ctol: 0.0, derived: 2 });
        }
    }
    // series resampling: six series x every count from 2 to 200
    for si in 0..6 {
        for n in 2..=200 {
            out.push(Case { dim: 1, verts: vec![vec![si, n]], force_closed: false, scale: 1.0, op: "series".into(), param: 0.0, nudge: 0.0, ctol: 0.0, derived: 0 });
        }
    }
    // RDP on sequences with repeated points (the lattice sequences above never repeat consecutively)
    for s in gen::seqs(4, 2, 4) {
        for rep in 0..s.len() {
            let mut verts: Vec<Vec<i32>> = s.iter().map(|i| lat2[*i * 2].to_vec()).collect();
            verts.insert(rep, verts[rep].clone());
            for e in [1e-6, 0.8] {
                out.push(Case { dim: 2, verts: verts.clone(), force_closed: false, scale: 1.0, op: "rdp".into(), param: e, nudge: 0.0, ctol: 0.0, derived: 0 });
            }
        }
    }
    for s in gen::seqs(lat3.len(), 2, 3) {
        let verts: Vec<Vec<i32>> = s.iter().map(|i| lat3[*i].to_vec()).collect();
        let sc: &[f64] = match tier {
            Tier::Quick => &[0.25, 7.3],
            Tier::Thorough => &scales,
        };
        for scale in sc {
            for (op, param) in requests() {
                out.push(Case { dim: 3, verts: verts.clone(), force_closed: false, scale: *scale, op: op.into(), param, nudge: 0.0, ctol: 0.0, derived: 0 });
            }
        }
    }
    out
}

pub fn run(tier: Tier) -> i32 {
    let mut cx = Ctx::new("C05", tier, "exploration");
    cx.rule = "every vertex sequence over the 3x3 / 3x3x3 lattice up to the length bound x {open, force-closed} x scales straddling one unit of total length x the request menu (counts, spacings, max spacings, simplify/RDP tolerances, gap maxima); reference model: arc-length point function by linear scan and brute-force segment distance. distinct = distinct source curves".into();
    cx.bounds = json!({"seq_len_2d": tier.pick(4, 5), "seq_len_3d": 3, "scales": [1e-3, 0.25, 1.0, 7.3, 1e3], "requests": requests().iter().map(|(o, p)| format!("{}:{}", o, p)).collect::<Vec<_>>()});
    cx.require(&["simple source", "self-touching source", "closed source", "source closed only within the tolerance", "open source", "3D source", "total length below one unit", "total length above one unit", "count", "spacing", "maxspacing", "simplify", "rdp", "fillgaps", "curve tolerance exactly zero", "coarse curve tolerance, finer simplification", "source that is itself a derived curve", "series resampled to evenly spaced abscissae"]);
    cx.assume("closed curves: requests that cannot leave three distinct positions may be rejected with Err (gray)");
    cx.assume("resampling clauses are judged on simple sources only (no two non-adjacent edges touch, no fold-back): on a self-overlapping polyline samples coincide and are merged, so span and spacing are not well defined; simplify, RDP and gap filling are judged on every source");
    let cs = cases(tier);
    let l = sweep(&cs, judge);
    cx.absorb(l);
    cx.finish()
}

pub fn replay(case: &Val) -> Local {
    let c: Case = serde_json::from_value(case.clone()).expect("case");
    let mut l = Local::new();
    judge(&c, &mut l);
    l
}
