//! C13 — plane sections and splits of a mesh lie on the plane and on the surface.
//! Exhaustive sweep over meshes x poses x plane menu; the open-section class (known to make the
//! dependency allocate without bound) is probed by representatives in memory-limited subprocesses.
use crate::engine::*;
use crate::gen;
use crate::props::c02;
use crate::refmodel::*;
use engeom::common::SplitResult;
use engeom::geom3::Plane3;
use engeom::verif;
use engeom::{Iso3, Mesh, Point3, UnitVec3, Vector3};
use serde::{Deserialize, Serialize};
use serde_json::json;
use std::collections::BTreeMap;

#[derive(Serialize, Deserialize, Clone, Debug)]
pub struct Case {
    pub mesh: String,
    pub pose: usize,
    pub normal: usize,
    pub frac: f64,
    /// run even if the pair is in the open-section class (worker subprocess only)
    pub force: bool,
}

fn prism(k: usize, r: f64, h: f64) -> (Vec<Point3>, Vec<[u32; 3]>) {
    let mut v = Vec::new();
    for z in [0.0, h] {
        for i in 0..k {
            let a = std::f64::consts::TAU * i as f64 / k as f64 + 0.2;
            v.push(Point3::new(r * a.cos(), r * a.sin(), z));
        }
    }
    let mut f: Vec<[u32; 3]> = Vec::new();
    let kk = k as u32;
    for i in 0..kk {
        let j = (i + 1) % kk;
        f.push([i, j, kk + j]);
        f.push([i, kk + j, kk + i]);
    }
    for i in 1..kk - 1 {
        f.push([0, i + 1, i]);
        f.push([kk, kk + i, kk + i + 1]);
    }
    (v, f)
}

fn octa_sphere(sub: usize) -> (Vec<Point3>, Vec<[u32; 3]>) {
    let (mut v, mut f) = c02::solid("octahedron");
    for _ in 0..sub {
        let mut mid: BTreeMap<(u32, u32), u32> = BTreeMap::new();
        let mut nf = Vec::new();
        for t in f.iter() {
            let mut m = [0u32; 3];
            for k in 0..3 {
                let a = t[k];
                let b = t[(k + 1) % 3];
                let key = (a.min(b), a.max(b));
                m[k] = *mid.entry(key).or_insert_with(|| {
                    let p = Point3::from(((v[a as usize].coords + v[b as usize].coords) * 0.5).normalize());
                    v.push(p);
                    (v.len() - 1) as u32
                });
            }
            nf.push([t[0], m[0], m[2]]);
            nf.push([t[1], m[1], m[0]]);
            nf.push([t[2], m[2], m[1]]);
            nf.push([m[0], m[1], m[2]]);
        }
        f = nf;
    }
    (v, f)
}

fn torus(nu: usize, nv: usize) -> (Vec<Point3>, Vec<[u32; 3]>) {
    let (big, small) = (2.0, 0.7);
    let mut v = Vec::new();
    for i in 0..nu {
        for j in 0..nv {
            let (a, b) = (std::f64::consts::TAU * i as f64 / nu as f64 + 0.1, std::f64::consts::TAU * j as f64 / nv as f64 + 0.3);
            v.push(Point3::new((big + small * b.cos()) * a.cos(), (big + small * b.cos()) * a.sin(), small * b.sin()));
        }
    }
    let mut f = Vec::new();
    for i in 0..nu {
        for j in 0..nv {
            let a = (i * nv + j) as u32;
            let b = (((i + 1) % nu) * nv + j) as u32;
            let c = (((i + 1) % nu) * nv + (j + 1) % nv) as u32;
            let d = (i * nv + (j + 1) % nv) as u32;
            f.push([a, b, c]);
            f.push([a, c, d]);
        }
    }
    (v, f)
}

pub const CLOSED: [&str; 17] = ["tinyfirst", "tinymid", "tinylast", "box1", "box2", "box3", "prism3", "prism6", "cyl6", "cyl16", "sphere1", "sphere2", "torus", "tetra", "lprism", "twoboxes", "hollow"];
pub const OPEN: [&str; 6] = ["tube8", "quad", "hf0", "hf1", "hf2", "hf3"];

/// A polygon with a given triangulation (counter-clockwise triangles over its vertices), extruded to height h
fn extrude(poly: &[(f64, f64)], tris: &[[u32; 3]], h: f64) -> (Vec<Point3>, Vec<[u32; 3]>) {
    let k = poly.len() as u32;
    let mut v: Vec<Point3> = poly.iter().map(|p| Point3::new(p.0, p.1, 0.0)).collect();
    v.extend(poly.iter().map(|p| Point3::new(p.0, p.1, h)));
    let mut f = Vec::new();
    for t in tris {
        f.push([t[0], t[2], t[1]]);
        f.push([t[0] + k, t[1] + k, t[2] + k]);
    }
    for i in 0..k {
        let j = (i + 1) % k;
        f.push([i, j, j + k]);
        f.push([i, j + k, i + k]);
    }
    (v, f)
}

pub fn build(name: &str) -> (Vec<Point3>, Vec<[u32; 3]>, bool, bool) {
    // (vertices, faces, watertight, convex)
    let of = |m: Mesh| (m.vertices().to_vec(), m.faces().to_vec());
    match name {
        "lprism" => {
            // an L-shaped outline (with the vertex that keeps the triangulation free of T-junctions) extruded
            let (v, f) = extrude(&[(0.0, 0.0), (3.0, 0.0), (3.0, 1.0), (1.0, 1.0), (1.0, 3.0), (0.0, 3.0), (0.0, 1.0)], &[[0, 1, 2], [0, 2, 3], [0, 3, 6], [6, 3, 4], [6, 4, 5]], 2.0);
            (v, f, true, false)
        }
        "tinyfirst" | "tinymid" | "tinylast" => {
            // three separate boxes in one mesh, one of them only 0.01 across: a section through all three has a loop
            // that a coarse curve tolerance merges away, listed before, between or after the two that stay
            let parts: [(Mesh, Vector3); 3] = [
                (Mesh::create_box(0.01, 0.01, 0.01, true), Vector3::new(-1.0, 0.5, 0.5)),
                (Mesh::create_box(2.0, 3.0, 4.0, true), Vector3::new(0.0, 0.0, 0.0)),
                (Mesh::create_box(1.0, 1.0, 1.0, true), Vector3::new(5.0, 1.0, 0.0)),
            ];
            let order: [usize; 3] = match name { "tinyfirst" => [0, 1, 2], "tinymid" => [1, 0, 2], _ => [1, 2, 0] };
            let mut v: Vec<Point3> = Vec::new();
            let mut f: Vec<[u32; 3]> = Vec::new();
            for k in order {
                let (v2, f2) = (parts[k].0.vertices().to_vec(), parts[k].0.faces().to_vec());
                let o = v.len() as u32;
                v.extend(v2.iter().map(|p| p + parts[k].1));
                f.extend(f2.iter().map(|t| [t[0] + o, t[1] + o, t[2] + o]));
            }
            (v, f, true, false)
        }
        "twoboxes" => {
            // two separate solids in one mesh
            let (mut v, mut f) = of(Mesh::create_box(2.0, 3.0, 4.0, true));
            let (v2, f2) = of(Mesh::create_box(1.0, 1.0, 1.0, true));
            let off = v.len() as u32;
            v.extend(v2.iter().map(|p| p + Vector3::new(5.0, 1.0, 1.5)));
            f.extend(f2.iter().map(|t| [t[0] + off, t[1] + off, t[2] + off]));
            (v, f, true, false)
        }
        "hollow" => {
            // a box with a box-shaped cavity (the inner surface wound the other way)
            let (mut v, mut f) = of(Mesh::create_box(4.0, 4.0, 4.0, true));
            let (v2, f2) = of(Mesh::create_box(2.0, 1.5, 1.0, true));
            let off = v.len() as u32;
            let c0 = v.iter().fold(Vector3::zeros(), |a, p| a + p.coords) / v.len() as f64;
            let c2 = v2.iter().fold(Vector3::zeros(), |a, p| a + p.coords) / v2.len() as f64;
            v.extend(v2.iter().map(|p| p + (c0 - c2) + Vector3::new(0.3, -0.2, 0.1)));
            f.extend(f2.iter().map(|t| [t[0] + off, t[2] + off, t[1] + off]));
            (v, f, true, false)
        }
        "box1" => {
            let (v, f) = of(Mesh::create_box(2.0, 3.0, 4.0, true));
            (v, f, true, true)
        }
        "box2" => {
            let (v, f) = of(Mesh::create_box(1.0, 1.0, 1.0, true));
            (v, f, true, true)
        }
        "box3" => {
            let (v, f) = of(Mesh::create_box(10.0, 0.5, 2.0, true));
            (v, f, true, true)
        }
        "prism3" => {
            let (v, f) = prism(3, 1.5, 2.0);
            (v, f, true, true)
        }
        "prism6" => {
            let (v, f) = prism(6, 1.0, 3.0);
            (v, f, true, true)
        }
        "cyl6" => {
            let (v, f) = prism(6, 1.0, 2.0);
            (v, f, true, true)
        }
        "cyl16" => {
            let (v, f) = prism(16, 1.0, 2.0);
            (v, f, true, true)
        }
        "sphere1" => {
            let (v, f) = octa_sphere(1);
            (v, f, true, true)
        }
        "sphere2" => {
            let (v, f) = octa_sphere(2);
            (v, f, true, true)
        }
        "torus" => {
            let (v, f) = torus(8, 6);
            (v, f, true, false)
        }
        "tetra" => {
            let (v, f) = c02::solid("tetrahedron");
            (v, f, true, true)
        }
        "tube8" => {
            let (v, f) = of(Mesh::create_cylinder(1.0, 2.0, 8));
            (v, f, false, false)
        }
        "quad" => (
            vec![Point3::new(0.0, 0.0, 0.0), Point3::new(2.0, 0.0, 0.0), Point3::new(2.0, 2.0, 0.0), Point3::new(0.0, 2.0, 0.0)],
            vec![[0, 1, 2], [0, 2, 3]],
            false,
            false,
        ),
        _ => {
            let k: u32 = name[2..].parse().unwrap_or(0);
            let (v, f) = c02::height_field([341, 170, 84, 27][k as usize % 4], k % 2);
            (v, f, false, false)
        }
    }
}

pub fn normals() -> Vec<Vector3> {
    let mut n = Vec::new();
    for x in -1..=1 {
        for y in -1..=1 {
            for z in -1..=1 {
                if x != 0 || y != 0 || z != 0 {
                    n.push(Vector3::new(x as f64, y as f64, z as f64));
                }
            }
        }
    }
    n.extend([Vector3::new(0.2, -0.5, 1.0), Vector3::new(1.0, 0.3, -0.1), Vector3::new(-0.7, 0.1, 0.35), Vector3::new(0.3, 0.1, 1.0), Vector3::new(1.0, 0.9, 0.05), Vector3::new(-0.2, 1.0, 0.6)]);
    n
}

/// offsets as fractions of the extent along the normal; values >= 2 are absolute distances from the
/// lowest (2 + d) or highest (3 + d) vertex: planes nipping a corner or shaving a sliver
pub const FRACS: [f64; 9] = [-0.1, 0.13, 0.37, 0.501, 0.71, 1.1, 2.0005, 2.002, 3.0005];

struct Setup {
    v: Vec<Point3>,
    f: Vec<[u32; 3]>,
    mesh: Mesh,
    plane: Plane3,
    sd: Vec<f64>,
    watertight: bool,
    convex: bool,
    /// the cutting plane in the mesh's own frame: normal and offset
    local: (Vector3, f64),
}

/// Perimeter of the section of the ideal cuboid [0,w] x [0,h] x [0,d] by the plane n . x = off, computed from
/// the requested dimensions alone (the crossings of the twelve edges, ordered around their centroid)
fn cuboid_section_perimeter(dims: [f64; 3], n: &Vector3, off: f64) -> f64 {
    let c = |i: usize| Point3::new(if i & 1 != 0 { dims[0] } else { 0.0 }, if i & 2 != 0 { dims[1] } else { 0.0 }, if i & 4 != 0 { dims[2] } else { 0.0 });
    let mut pts: Vec<Point3> = Vec::new();
    for a in 0..8usize {
        for bit in [1usize, 2, 4] {
            if a & bit == 0 {
                let (p, q) = (c(a), c(a | bit));
                let (sa, sb) = (n.dot(&p.coords) - off, n.dot(&q.coords) - off);
                if (sa > 0.0) != (sb > 0.0) {
                    pts.push(p + (q - p) * (sa / (sa - sb)));
                }
            }
        }
    }
    if pts.len() < 3 {
        return 0.0;
    }
    let cen = pts.iter().fold(Vector3::zeros(), |s, p| s + p.coords) / pts.len() as f64;
    let u = (pts[0].coords - cen).normalize();
    let w = n.normalize().cross(&u);
    pts.sort_by(|a, b| {
        let (va, vb) = (a.coords - cen, b.coords - cen);
        va.dot(&w).atan2(va.dot(&u)).partial_cmp(&vb.dot(&w).atan2(vb.dot(&u))).unwrap()
    });
    (0..pts.len()).map(|i| (pts[(i + 1) % pts.len()] - pts[i]).norm()).sum()
}

fn setup(case: &Case) -> Setup {
    let (v0, f, watertight, convex) = build(&case.mesh);
    // how the posed mesh object comes about rotates with the plane normal: built from posed vertices, built
    // in its own frame and moved with `transform`, or built through the constructor with options
    let ctor = case.normal % 3;
    let mut iso = gen::iso3_poses()[case.pose % 5];
    if ctor == 1 && case.pose == 2 {
        // a turn about the origin without any translation
        iso = Iso3::from_parts(Vector3::zeros().into(), iso.rotation);
    }
    // plane defined in the mesh's own frame, then moved together with the mesh
    let n = UnitVec3::new_normalize(normals()[case.normal % normals().len()]);
    let ds: Vec<f64> = v0.iter().map(|p| n.dot(&p.coords)).collect();
    let lo = ds.iter().cloned().fold(f64::MAX, f64::min);
    let hi = ds.iter().cloned().fold(f64::MIN, f64::max);
    let d = if case.frac >= 3.0 {
        hi - (case.frac - 3.0)
    } else if case.frac >= 2.0 {
        lo + (case.frac - 2.0)
    } else {
        lo + (hi - lo) * case.frac
    };
    let local = Plane3::new(n, d);
    let plane = local.transform_by(&iso);
    let v: Vec<Point3> = v0.iter().map(|p| iso * p).collect();
    let mesh = match ctor {
        1 => {
            let mut m = Mesh::new(v0.clone(), f.clone(), watertight);
            m.transform(&iso);
            m
        }
        2 => Mesh::new_with_options(v.clone(), f.clone(), watertight, false, false, None).expect("mesh with options"),
        _ => Mesh::new(v.clone(), f.clone(), watertight),
    };
    let sd: Vec<f64> = v.iter().map(|p| plane.signed_distance_to_point(p)).collect();
    Setup { v, f, mesh, plane, sd, watertight, convex, local: (n.into_inner(), d) }
}

/// Does a boundary (count-1) edge straddle the plane? Then the section polyline is open.
fn open_section_class(s: &Setup) -> bool {
    let mut count: BTreeMap<(u32, u32), usize> = BTreeMap::new();
    for t in &s.f {
        for k in 0..3 {
            let (a, b) = (t[k], t[(k + 1) % 3]);
            *count.entry((a.min(b), a.max(b))).or_default() += 1;
        }
    }
    count.iter().any(|((a, b), c)| *c == 1 && ((s.sd[*a as usize] > 1e-6 && s.sd[*b as usize] < -1e-6) || (s.sd[*a as usize] < -1e-6 && s.sd[*b as usize] > 1e-6)))
}

fn area(m: &Mesh) -> f64 {
    m.tri_mesh().triangles().map(|t| t.area()).sum::<f64>()
}

pub fn judge(case: &Case, l: &mut Local) {
    let mk = || serde_json::to_value(case).unwrap();
    let s = setup(case);
    l.distinct(hash_of(&serde_json::to_string(case).unwrap()));
    let min_abs = s.sd.iter().map(|x| x.abs()).fold(f64::MAX, f64::min);
    let degenerate = min_abs < 1e-5;
    let open = open_section_class(&s);
    if open && !case.force {
        l.bucket("open-section class (not executed in-process)");
        return;
    }
    l.eval();
    let crossing = s.sd.iter().any(|x| *x > 0.0) && s.sd.iter().any(|x| *x < 0.0);
    l.bucket(if degenerate { "plane through a vertex (degenerate probe)" } else if !crossing { "plane missing the mesh" } else if case.frac >= 2.0 { "plane nipping a corner or shaving a sliver" } else { "plane crossing the mesh" });
    if case.pose == 1 && case.normal == 3 {
        l.sample(mk);
    }
    verif::set_budget(200_000);
    let r = guarded(|| s.mesh.section(&s.plane, None).map_err(|e| e.to_string()));
    reset_budget();
    let curves = match r {
        Err(e) => {
            l.check("section returns", if e.contains("VERIF_BUDGET") { "budget" } else { "panic" }, false, mk, || e.clone());
            return;
        }
        Ok(Err(e)) => {
            l.check("section returns", "err", false, mk, || e.clone());
            return;
        }
        Ok(Ok(c)) => c,
    };
    // reference: faces with vertices strictly on both sides
    let mut ref_segments = 0usize;
    let mut ref_len = 0.0;
    for t in s.f.iter() {
        let sd = [s.sd[t[0] as usize], s.sd[t[1] as usize], s.sd[t[2] as usize]];
        let pos = sd.iter().filter(|x| **x > 0.0).count();
        let neg = sd.iter().filter(|x| **x < 0.0).count();
        if pos > 0 && neg > 0 {
            ref_segments += 1;
            let mut pts = Vec::new();
            for k in 0..3 {
                let (a, b) = (t[k] as usize, t[(k + 1) % 3] as usize);
                if (s.sd[a] > 0.0) != (s.sd[b] > 0.0) && s.sd[a] != 0.0 && s.sd[b] != 0.0 {
                    let tt = s.sd[a] / (s.sd[a] - s.sd[b]);
                    pts.push(s.v[a] + (s.v[b] - s.v[a]) * tt);
                } else if s.sd[a] == 0.0 {
                    pts.push(s.v[a]);
                }
            }
            if pts.len() >= 2 {
                ref_len += d3(&pts[0], &pts[1]);
            }
        }
    }
    l.outcome(hash_of(&(curves.len(), ref_segments.min(40))));
    let mut nseg = 0usize;
    let mut tot_len = 0.0;
    let mut on_plane = true;
    let mut on_surface = true;
    let mut share_face = true;
    let mut closed = true;
    for c in curves.iter() {
        nseg += c.count() - 1;
        tot_len += c.length();
        let pts = c.points();
        for p in pts {
            on_plane &= s.plane.signed_distance_to_point(p).abs() <= 2e-6;
            on_surface &= mesh_dist(&s.v, &s.f, p) <= 2e-6;
        }
        for w in pts.windows(2) {
            share_face &= s.f.iter().any(|t| {
                let (a, b, cc) = (s.v[t[0] as usize], s.v[t[1] as usize], s.v[t[2] as usize]);
                d3(&tri_closest(&a, &b, &cc, &w[0]), &w[0]) <= 2e-6 && d3(&tri_closest(&a, &b, &cc, &w[1]), &w[1]) <= 2e-6
            });
        }
        closed &= d3(&c.at_front().point(), &c.at_back().point()) <= 1e-6;
    }
    // the same cutting plane given by three of its points, counter-clockwise about its normal: same normal, same
    // offset, hence the same sides
    {
        let n = s.plane.normal.into_inner();
        let o = Point3::from(n * s.plane.d);
        let u = if n.x.abs() < 0.9 { Vector3::x().cross(&n).normalize() } else { Vector3::y().cross(&n).normalize() };
        let w = n.cross(&u);
        let (p1, p2, p3) = (o + u * 0.7 - w * 0.2, o + u * 1.9 + w * 0.4, o - u * 0.3 + w * 1.1);
        let p3p = Plane3::from((&p1, &p2, &p3));
        let worst = s.v.iter().map(|q| (p3p.signed_distance_to_point(q) - s.plane.signed_distance_to_point(q)).abs()).fold(0.0, f64::max);
        l.check("the cutting plane given by three of its points in counter-clockwise order has the same sides", "", worst <= 1e-9 * (1.0 + s.plane.d.abs()), mk, || format!("signed distances differ by up to {:e}", worst));
    }
    // the same loops walked station by station through the curve's iterator: every vertex once, in order
    let walked = curves.iter().all(|c| {
        let st: Vec<Point3> = c.iter().map(|s| s.point()).collect();
        st.len() == c.count() && st.iter().zip(c.points().iter()).all(|(a, b)| d3(a, b) == 0.0)
    });
    l.check("walking a section curve by its iterator visits every vertex once, in order", "", walked, mk, || format!("{:?} stations for {:?} vertices", curves.iter().map(|c| c.iter().count()).collect::<Vec<_>>(), curves.iter().map(|c| c.count()).collect::<Vec<_>>()));
    l.check("every section vertex lies on the plane", "", on_plane, mk, String::new);
    l.check("every section vertex lies on the mesh surface", "", on_surface, mk, String::new);
    l.check("consecutive section vertices are joined across one face", "", share_face, mk, String::new);
    if !degenerate {
        if s.watertight {
            l.check("sections of a watertight mesh are closed", "", closed, mk, || format!("{} curves", curves.len()));
        }
        l.check("each plane-face crossing is used exactly once", "", nseg == ref_segments, mk, || format!("{} segments for {} crossing faces in {} curves", nseg, ref_segments, curves.len()));
        l.check("total section length equals the sum of the crossing segments", "", (tot_len - ref_len).abs() <= 1e-6 * (1.0 + ref_len), mk, || format!("{} vs {}", tot_len, ref_len));
        // for the generated boxes the expected section also follows from the requested dimensions alone
        if let Some(dims) = match case.mesh.as_str() { "box1" => Some([2.0, 3.0, 4.0]), "box2" => Some([1.0, 1.0, 1.0]), "box3" => Some([10.0, 0.5, 2.0]), _ => None } {
            let want = cuboid_section_perimeter(dims, &s.local.0, s.local.1);
            l.check("the section of a generated box is the section of the requested cuboid", "", (tot_len - want).abs() <= 1e-6 * (1.0 + want), mk, || format!("section length {} but the {:?} cuboid gives {}", tot_len, dims, want));
        }
        if s.convex && ref_segments > 0 {
            l.check("a convex solid has a single section loop", "", curves.len() == 1, mk, || format!("{} curves", curves.len()));
        }
        if ref_segments == 0 {
            l.check("no curves when the plane misses the mesh", "", curves.is_empty(), mk, || format!("{} curves", curves.len()));
        }
    }

    if !degenerate {
        // the plane with its normal inverted occupies the same position: it cuts the same section
        l.eval();
        let inv = s.plane.inverted_normal();
        verif::set_budget(200_000);
        let ri = guarded(|| s.mesh.section(&inv, None).map_err(|e| e.to_string()));
        reset_budget();
        match ri {
            Ok(Ok(ci)) => {
                let li: f64 = ci.iter().map(|c| c.length()).sum();
                let ni: usize = ci.iter().map(|c| c.count() - 1).sum();
                let on = ci.iter().all(|c| c.points().iter().all(|p| s.plane.signed_distance_to_point(p).abs() <= 2e-6));
                l.bucket("section by the plane with inverted normal");
                l.check("the plane with its normal inverted cuts the same section", "", on && ci.len() == curves.len() && ni == nseg && (li - tot_len).abs() <= 1e-6 * (1.0 + tot_len), mk, || {
                    format!("inverted: {} curves, {} segments, length {}, on the plane {}; direct: {} curves, {} segments, length {}", ci.len(), ni, li, on, curves.len(), nseg, tot_len)
                });
            }
            Ok(Err(e)) => {
                l.check("section returns", "err", false, mk, || format!("inverted plane: {}", e));
            }
            Err(e) => {
                l.check("section returns", if e.contains("VERIF_BUDGET") { "budget" } else { "panic" }, false, mk, || format!("inverted plane: {}", e));
            }
        }
        // a section curve moved rigidly is the curve through the moved vertices, on the moved plane
        let iso = gen::iso3_poses()[(case.normal + 1) % 5];
        let back = iso.inverse();
        for c in curves.iter() {
            l.eval();
            match guarded(|| c.transformed_by(&iso)) {
                Ok(m) => {
                    let same = m.count() == c.count() && m.points().iter().zip(c.points().iter()).all(|(q, p)| d3(q, &(iso * p)) <= 1e-9 * (1.0 + q.coords.norm()));
                    let on = m.points().iter().all(|q| s.plane.signed_distance_to_point(&(back * q)).abs() <= 2e-6);
                    l.bucket("section curve moved rigidly");
                    l.check("a moved section curve passes through the moved vertices and lies on the moved plane", "", same && on && (m.length() - c.length()).abs() <= 1e-9 * (1.0 + c.length()), mk, || {
                        format!("vertices moved {} on the moved plane {} length {} vs {}", same, on, m.length(), c.length())
                    });
                }
                Err(e) => {
                    l.check("a moved section curve passes through the moved vertices and lies on the moved plane", "panic", false, mk, || e.clone());
                }
            }
        }
    }

    // the optional tolerance is the *curve* tolerance of the result (vertices closer than it are merged);
    // it must not move the cut: every vertex still lies on the plane and on the surface, and nothing
    // longer than the merged pieces is lost
    for t in [5e-3, 0.05] {
        l.eval();
        verif::set_budget(200_000);
        let rc = guarded(|| s.mesh.section(&s.plane, Some(t)).map_err(|e| e.to_string()));
        reset_budget();
        match rc {
            Ok(Ok(coarse)) => {
                let mut on_plane = true;
                let mut on_surface = true;
                let mut len = 0.0;
                for c in coarse.iter() {
                    len += c.length();
                    for p in c.points() {
                        on_plane &= s.plane.signed_distance_to_point(p).abs() <= 2e-6;
                        on_surface &= mesh_dist(&s.v, &s.f, p) <= 2e-6;
                    }
                }
                l.bucket("section with a coarse curve tolerance");
                l.outcome(hash_of(&("coarse", coarse.len(), curves.len())));
                l.check("with a coarse curve tolerance every section vertex still lies on the plane and on the surface", "", on_plane && on_surface, mk, || format!("tol {}: on plane {} on surface {}", t, on_plane, on_surface));
                let slack = 2.0 * t * (nseg + 2 * curves.len()) as f64 + 1e-6;
                l.check("a coarse curve tolerance loses at most the merged pieces", "", coarse.len() <= curves.len() && len <= tot_len + 1e-6 && len >= tot_len - slack, mk, || {
                    format!("tol {}: {} curves of total length {} against {} curves of length {} (allowed loss {})", t, coarse.len(), len, curves.len(), tot_len, slack)
                });
            }
            Ok(Err(e)) => {
                l.check("section returns", "err", false, mk, || e.clone());
            }
            Err(e) => {
                l.check("section returns", if e.contains("VERIF_BUDGET") { "budget" } else { "panic" }, false, mk, || e.clone());
            }
        }
    }

    // split
    l.eval();
    match guarded(|| s.mesh.split(&s.plane)) {
        Err(e) => {
            l.check("split returns", "panic", false, mk, || e.clone());
        }
        Ok(SplitResult::Pair(a, b)) => {
            if !degenerate {
                l.check("split reports a pair only when vertices lie on both sides", "", crossing, mk, String::new);
                l.check("areas of the two parts sum to the original area", "", (area(&a) + area(&b) - area(&s.mesh)).abs() <= 1e-6 * area(&s.mesh), mk, || format!("{} + {} vs {}", area(&a), area(&b), area(&s.mesh)));
            }
            let sa: Vec<f64> = a.vertices().iter().map(|p| s.plane.signed_distance_to_point(p)).collect();
            let sb: Vec<f64> = b.vertices().iter().map(|p| s.plane.signed_distance_to_point(p)).collect();
            let a_neg = sa.iter().all(|x| *x <= 2e-6);
            let a_pos = sa.iter().all(|x| *x >= -2e-6);
            let b_neg = sb.iter().all(|x| *x <= 2e-6);
            let b_pos = sb.iter().all(|x| *x >= -2e-6);
            l.check("each part of a split lies on its own side of the plane", "", (a_neg && b_pos) || (a_pos && b_neg), mk, String::new);
        }
        Ok(SplitResult::Negative) => {
            if !degenerate {
                l.check("a mesh reported wholly on one side is on that side", "negative", s.sd.iter().all(|x| *x <= 1e-6), mk, String::new);
            }
        }
        Ok(SplitResult::Positive) => {
            if !degenerate {
                l.check("a mesh reported wholly on one side is on that side", "positive", s.sd.iter().all(|x| *x >= -1e-6), mk, String::new);
            }
        }
    }
}

/// Summary used for the commutation clause: (curve count, total length)
fn summary(case: &Case) -> Option<(usize, f64)> {
    let s = setup(case);
    if open_section_class(&s) {
        return None;
    }
    guarded(|| s.mesh.section(&s.plane, None).ok()).ok().flatten().map(|c| (c.len(), c.iter().map(|x| x.length()).sum()))
}

pub fn worker(case_json: &str) -> i32 {
    let case: Case = serde_json::from_str(case_json).expect("case");
    let mut l = Local::new();
    judge(&case, &mut l);
    println!("{}", json!({"returned": true, "violations": l.viol.len()}));
    0
}

fn representatives() -> Vec<Case> {
    vec![
        Case { mesh: "quad".into(), pose: 0, normal: 21, frac: 0.37, force: true },
        Case { mesh: "hf0".into(), pose: 0, normal: 21, frac: 0.37, force: true },
        Case { mesh: "tube8".into(), pose: 0, normal: 26, frac: 0.501, force: true },
    ]
}

/// Runs one open-section representative in a subprocess with an address-space limit and a watchdog
fn probe(case: &Case) -> Result<(), String> {
    let exe = std::env::current_exe().map_err(|e| e.to_string())?;
    let js = serde_json::to_string(case).unwrap();
    let mut child = std::process::Command::new("sh")
        .arg("-c")
        .arg("ulimit -v 2000000; exec \"$0\" worker C13 \"$1\"")
        .arg(exe)
        .arg(js)
        .stdout(std::process::Stdio::piped())
        .stderr(std::process::Stdio::null())
        .spawn()
        .map_err(|e| e.to_string())?;
    let start = std::time::Instant::now();
    loop {
        match child.try_wait() {
            Ok(Some(st)) => {
                return if st.success() { Ok(()) } else { Err(format!("worker ended with {:?} after {:.1}s (address space limited to 2 GB)", st, start.elapsed().as_secs_f64())) };
            }
            Ok(None) => {
                if start.elapsed().as_secs() >= 20 {
                    let _ = child.kill();
                    let _ = child.wait();
                    return Err("worker still running after the 20 s watchdog".into());
                }
                std::thread::sleep(std::time::Duration::from_millis(50));
            }
            Err(e) => return Err(e.to_string()),
        }
    }
}

pub fn cases(tier: Tier) -> Vec<Case> {
    let mut out = Vec::new();
    let nn = normals().len();
    for name in CLOSED.iter().chain(OPEN.iter()) {
        for pose in 0..5 {
            // (the quick tier rotates through the poses with the seed, but always takes the boxes in the pose that
            // lies a kilometre from the origin: tolerances tied to the position rather than the size show there)
            let far_box = pose == 3 && name.starts_with("box");
            if tier == Tier::Quick && (pose + seed() as usize) % 5 >= 3 && !far_box {
                continue;
            }
            for normal in 0..nn {
                for frac in FRACS {
                    out.push(Case { mesh: name.to_string(), pose, normal, frac, force: false });
                }
                // planes through the tiny box of the three-box mesh (it sits 0.5 .. 0.51 above the lowest vertex
                // along the coordinate axes)
                if name.starts_with("tiny") {
                    out.push(Case { mesh: name.to_string(), pose, normal, frac: 2.505, force: false });
                }
            }
        }
    }
    out
}

fn commute_groups() -> Vec<(String, usize, f64)> {
    let nn = normals().len();
    CLOSED.iter().flat_map(|m| (0..nn).flat_map(move |n| FRACS.iter().map(move |f| (m.to_string(), n, *f)))).collect()
}

fn judge_commute(g: &(String, usize, f64), poses: usize, l: &mut Local) {
    let (m, n, f) = g;
    let base = summary(&Case { mesh: m.clone(), pose: 0, normal: *n, frac: *f, force: false });
    for pose in 1..poses {
        l.eval();
        let c = Case { mesh: m.clone(), pose, normal: *n, frac: *f, force: false };
        let got = summary(&c);
        let s = setup(&c);
        if s.sd.iter().any(|x| x.abs() < 1e-5) {
            l.gray("degenerate probe in the commutation clause");
            continue;
        }
        l.bucket("section under rigid motion");
        let ok = match (base, got) {
            (Some(a), Some(b)) => a.0 == b.0 && (a.1 - b.1).abs() <= 1e-6 * (1.0 + a.1),
            (None, None) => true,
            _ => false,
        };
        l.check("sectioning commutes with rigid motion of mesh and plane together", "", ok, || serde_json::to_value(&c).unwrap(), || format!("{:?} vs {:?}", base, got));
    }
}

fn forced_cases(tier: Tier) -> Vec<Case> {
    cases(tier).iter().filter(|c| OPEN.contains(&c.mesh.as_str())).map(|c| Case { force: true, ..c.clone() }).collect()
}

/// Worker entry of the isolated sweeps: `vcheck worker-range C13 <tier> <label> <start> <end>`
pub fn worker_range(tier: Tier, label: &str, start: usize, end: usize) -> i32 {
    match label {
        "main" => {
            let cs = cases(tier);
            isolated_worker(start, end.min(cs.len()), |i, l| judge(&cs[i], l))
        }
        "forced" => {
            let cs = forced_cases(tier);
            isolated_worker(start, end.min(cs.len()), |i, l| judge(&cs[i], l))
        }
        "commute" => {
            let gs = commute_groups();
            let poses = tier.pick(3, 5);
            isolated_worker(start, end.min(gs.len()), |i, l| judge_commute(&gs[i], poses, l))
        }
        _ => 2,
    }
}

const WORKER_MEM_KB: u64 = 3_000_000;
const ITEM_TIMEOUT_S: u64 = 30;

/// Runs one of the three sweeps in memory-limited worker processes; an item that takes its worker down
/// (abort on allocation failure, kill by the watchdog) is a violation of "section returns"
fn isolated(tier: Tier, label: &str, n: usize, case_of: &dyn Fn(usize) -> Val) -> Local {
    let args = vec!["worker-range".to_string(), "C13".to_string(), tier.name().to_string(), label.to_string()];
    let (mut l, cas) = sweep_isolated(&args, n, 128, WORKER_MEM_KB, ITEM_TIMEOUT_S);
    for c in cas {
        l.eval();
        l.check("section and split return", "worker lost", false, || case_of(c.item), || c.what.clone());
    }
    l
}

/// The chaining step of `section`, called directly with the segments of one OPEN path in every order: parry
/// never hands an open chain to `section` (recorded finding), so the branch that grows a chain backwards is only
/// reachable this way. One chain comes back, visiting the path's vertices in order.
fn judge_open_chain(item: &Vec<usize>, l: &mut Local) {
    use engeom::common::indices::chained_indices;
    let k = item.len();
    let segs: Vec<[u32; 2]> = item.iter().map(|i| [10 + *i as u32, 11 + *i as u32]).collect();
    l.eval();
    l.bucket("open chain of section segments in a shuffled order");
    let want: Vec<u32> = (10..=10 + k as u32).collect();
    // the same path together with a second open path and a closed triangle, its segments listed first, in the
    // middle and last: three chains come back, whatever was chained before them
    for place in 0..3usize {
        let other: Vec<[u32; 2]> = vec![[40, 41], [42, 43], [41, 42], [50, 51], [51, 52], [52, 50]];
        let mut all: Vec<[u32; 2]> = Vec::new();
        match place {
            0 => { all.extend(other.iter().cloned()); all.extend(segs.iter().cloned()); }
            1 => { all.extend(other[..3].iter().cloned()); all.extend(segs.iter().cloned()); all.extend(other[3..].iter().cloned()); }
            _ => { all.extend(segs.iter().cloned()); all.extend(other.iter().cloned()); }
        }
        if let Ok(ch) = guarded(|| chained_indices(&all)) {
            let mut got: Vec<Vec<u32>> = ch.clone();
            got.sort();
            let has_path = got.iter().any(|c| *c == want);
            let has_other = got.iter().any(|c| *c == vec![40, 41, 42, 43]);
            let has_loop = got.iter().any(|c| c.len() == 4 && c[0] == c[3] && c.iter().all(|x| (50..=52).contains(x)));
            l.check("consecutive section vertices are joined across one face", "several chains", got.len() == 3 && has_path && has_other && has_loop, || json!({"mesh": "open-chain", "pose": 0, "normal": 0, "frac": 0.0, "force": false, "order": item}), || format!("segments {:?}: chains {:?}", all, ch));
        }
    }
    match guarded(|| chained_indices(&segs)) {
        Ok(ch) => {
            l.outcome(hash_of(&(ch.len(), k, 19u8)));
            l.check("consecutive section vertices are joined across one face", "open chain", ch.len() == 1 && ch[0] == want, || json!({"mesh": "open-chain", "pose": 0, "normal": 0, "frac": 0.0, "force": false, "order": item}), || format!("segments {:?}: chains {:?}", segs, ch));
        }
        Err(e) => {
            l.check("section returns", "panic", false, || json!({"mesh": "open-chain", "pose": 0, "normal": 0, "frac": 0.0, "force": false, "order": item}), || e.clone());
        }
    }
}

pub fn run(tier: Tier) -> i32 {
    let mut cx = Ctx::new("C13", tier, "exploration");
    cx.rule = "meshes: 3 boxes, 3- and 6-gon prisms, capped 6- and 16-gon cylinders, octahedral spheres (1 and 2 subdivisions), 8x6 torus, tetrahedron, an extruded L, two and three separate boxes in one mesh (one of them 0.01 across), a box with a box-shaped cavity (watertight) and open tube, quad, 4 height fields x 3 (thorough 5) poses x 32 plane normals (26 lattice + 6 skew) x offset fractions (-0.1 .. 1.1 and absolute offsets just off a vertex) x curve tolerance {default, 5e-3, 0.05}; each (mesh, plane) pair is classified by a reference computation before the call: pairs whose section polyline would be open (a boundary edge straddles the plane) form the open-section class, probed by 3 representatives; every sweep runs in worker processes limited to 3 GB of address space with a 30 s per-case watchdog, so that an abort or runaway allocation inside the library or parry is reported for the case in progress instead of ending the check. distinct = distinct (mesh, pose, plane) cases".into();
    cx.bounds = json!({"meshes": CLOSED.len() + OPEN.len(), "poses": tier.pick(3, 5), "normals": normals().len(), "fractions": FRACS, "worker_address_space_kb": WORKER_MEM_KB, "per_case_watchdog_s": ITEM_TIMEOUT_S});
    cx.require(&["plane nipping a corner or shaving a sliver", "plane crossing the mesh", "plane missing the mesh", "plane through a vertex (degenerate probe)", "open-section class (not executed in-process)", "section with a coarse curve tolerance", "section by the plane with inverted normal", "section curve moved rigidly", "open chain of section segments in a shuffled order"]);
    cx.assume("planes within 1e-5 of a mesh vertex are degenerate probes: only 'returns, vertices on the plane and on the surface' is judged there");
    let cs = cases(tier);
    let l = isolated(tier, "main", cs.len(), &|i| serde_json::to_value(&cs[i]).unwrap());
    cx.absorb(l);

    // commutation with rigid motion: every pose gives the same curve count and total length
    let groups = commute_groups();
    let l2 = isolated(tier, "commute", groups.len(), &|i| json!({"mesh": groups[i].0, "pose": 0, "normal": groups[i].1, "frac": groups[i].2, "force": false}));
    cx.absorb(l2);

    // open-section representatives in memory-limited subprocesses
    let mut all_returned = true;
    let mut l3 = Local::new();
    let reps = representatives();
    let results: Vec<Result<(), String>> = std::thread::scope(|sc| {
        let hs: Vec<_> = reps.iter().map(|r| sc.spawn(move || probe(r))).collect();
        hs.into_iter().map(|h| h.join().unwrap_or(Err("probe thread failed".into()))).collect()
    });
    for (rep, res) in reps.iter().zip(results.iter()) {
        l3.eval();
        l3.bucket("open-section representative probed in a subprocess");
        all_returned &= res.is_ok();
        l3.check("section returns", "open-result", res.is_ok(), || serde_json::to_value(rep).unwrap(), || format!("Mesh::section on {} with an open result: {}", rep.mesh, res.clone().err().unwrap_or_default()));
    }
    cx.absorb(l3);
    cx.extra.insert("open_class_representatives_returned".into(), json!(all_returned));
    if all_returned {
        // the class is safe to execute: judge every member in-process
        let forced = forced_cases(tier);
        let l4 = isolated(tier, "forced", forced.len(), &|i| serde_json::to_value(&forced[i]).unwrap());
        cx.absorb(l4);
    }
    // open chains handed to the chaining step directly: every order of 3..6 segments (7 in the thorough tier)
    let mut orders: Vec<Vec<usize>> = Vec::new();
    for k in 3..=tier.pick(6, 7) {
        orders.extend(crate::props::c15::perms(k));
    }
    let lo = sweep(&orders, judge_open_chain);
    cx.absorb(lo);
    cx.finish()
}

pub fn replay(case: &Val) -> Local {
    if let Some(o) = case.get("order") {
        let mut l = Local::new();
        judge_open_chain(&o.as_array().map(|a| a.iter().filter_map(|x| x.as_u64()).map(|x| x as usize).collect()).unwrap_or_default(), &mut l);
        return l;
    }
    let c: Case = serde_json::from_value(case.clone()).expect("case");
    let mut l = Local::new();
    if c.force {
        let r = probe(&c);
        l.check("section returns", "open-result", r.is_ok(), || case.clone(), || r.clone().err().unwrap_or_default());
    } else {
        // first in a memory-limited subprocess (the case may be one that took its worker down), then here
        let r = probe(&c);
        if l.check("section and split return", "worker lost", r.is_ok(), || case.clone(), || r.clone().err().unwrap_or_default()) {
            judge(&c, &mut l);
        }
    }
    l
}
