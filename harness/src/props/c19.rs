//! C19 — basis, frame and plane constructions are orthonormal and right-handed.
use crate::engine::*;
use crate::gen;
use crate::refmodel::{d2, d3};
use engeom::common::svd_basis::{iso2_from_basis, iso3_from_basis, iso3_from_xyo};
use engeom::geom3::{IsoExtensions3, Plane3};
use engeom::{Iso2, Iso3, Point2, Point3, SurfacePoint3, SvdBasis2, SvdBasis3, UnitVec3, Vector2, Vector3};
use parry3d_f64::na::Matrix3;
use serde::{Deserialize, Serialize};
use serde_json::json;

#[derive(Serialize, Deserialize, Clone, Debug)]
pub struct Case {
    /// frame | basisframe | svd3 | svd2 | plane
    pub kind: String,
    pub a: usize,
    pub b: usize,
    pub idx: Vec<usize>,
}

fn vecs() -> Vec<Vector3> {
    let mut v = Vec::new();
    for x in -2..=2 {
        for y in -2..=2 {
            for z in -2..=2 {
                if x != 0 || y != 0 || z != 0 {
                    v.push(Vector3::new(x as f64, y as f64, z as f64));
                }
            }
        }
    }
    v
}

type Ctor = fn(&Vector3, &Vector3, Option<Point3>) -> engeom::Result<Iso3>;

fn ctors() -> Vec<(&'static str, Ctor, usize, usize)> {
    vec![
        ("xy", <Iso3 as IsoExtensions3>::try_from_basis_xy, 0, 1),
        ("xz", <Iso3 as IsoExtensions3>::try_from_basis_xz, 0, 2),
        ("yz", <Iso3 as IsoExtensions3>::try_from_basis_yz, 1, 2),
        ("yx", <Iso3 as IsoExtensions3>::try_from_basis_yx, 1, 0),
        ("zx", <Iso3 as IsoExtensions3>::try_from_basis_zx, 2, 0),
        ("zy", <Iso3 as IsoExtensions3>::try_from_basis_zy, 2, 1),
    ]
}

fn judge_frame(case: &Case, l: &mut Local) {
    let mk = || serde_json::to_value(case).unwrap();
    let vs = vecs();
    let (a0, b0) = (vs[case.a], vs[case.b]);
    let parallel = a0.cross(&b0).norm() < 1e-12;
    let axes = [Vector3::x(), Vector3::y(), Vector3::z()];
    l.bucket(if parallel { "parallel pair" } else if a0.dot(&b0) == 0.0 { "orthogonal pair" } else { "oblique pair" });
    // the arguments are directions: their lengths (the difference of two points 1e-11 apart, a lever of 1e8) must
    // not matter
    for (sa, sb) in [(1.0, 1.0), (1e-11, 1.0), (1.0, 1e-11), (1e-11, 1e-11), (1e8, 1e-3)] {
    let (a, b) = (a0 * sa, b0 * sb);
    if sa != 1.0 || sb != 1.0 {
        l.bucket("vector pair of very different or very small lengths");
    }
    for (name, ctor, pi, si) in ctors() {
        for origin in [None, Some(Point3::new(1.0, 2.0, 3.0))] {
            l.eval();
            let r = match guarded(|| ctor(&a, &b, origin)) {
                Ok(r) => r,
                Err(m) => {
                    l.check("frame constructor returns", "panic", false, mk, || format!("{}: {}", name, m));
                    continue;
                }
            };
            match r {
                Err(_) => {
                    l.outcome(hash_of(&(name, false)));
                    l.check("independent vectors give a frame", name, parallel, mk, || format!("{} rejected {:?} {:?}", name, a, b));
                }
                Ok(iso) => {
                    l.outcome(hash_of(&(name, true)));
                    if parallel {
                        l.check("parallel or zero input is rejected", name, false, mk, || format!("{} accepted {:?} {:?}", name, a, b));
                        continue;
                    }
                    let m = iso.rotation.to_rotation_matrix();
                    let mm = m.matrix();
                    let orth = (mm.transpose() * mm - Matrix3::identity()).abs().max();
                    let det = mm.determinant();
                    let prim = (iso * axes[pi] - a.normalize()).norm();
                    let sec = iso * axes[si];
                    let half = sec.dot(&b) > 0.0;
                    let coplanar = sec.dot(&a.cross(&b).normalize()).abs();
                    let oerr = d3(&(iso * Point3::origin()), &origin.unwrap_or(Point3::origin()));
                    let ok = orth <= 1e-12 && (det - 1.0).abs() <= 1e-12 && prim <= 1e-12 && half && coplanar <= 1e-12 && oerr <= 1e-12;
                    l.check("frame is a proper rotation with the primary axis on the first argument and the secondary in the half-plane of the second", name, ok, mk, || {
                        format!("{}({:?}, {:?}): orthonormality {:e}, det {}, primary axis error {:e}, secondary in half-plane {}, out of plane {:e}, origin error {:e}", name, a, b, orth, det, prim, half, coplanar, oerr)
                    });
                }
            }
        }
    }
    }
}

/// Exact proper rotations: the 24 signed axis permutations, plus a few general ones
fn rotations() -> Vec<Matrix3<f64>> {
    let mut out = Vec::new();
    let e = [Vector3::x(), Vector3::y(), Vector3::z()];
    for p in [[0, 1, 2], [0, 2, 1], [1, 0, 2], [1, 2, 0], [2, 0, 1], [2, 1, 0]] {
        for s in 0..8 {
            let cols: Vec<Vector3> = (0..3).map(|i| e[p[i]] * if s & (1 << i) != 0 { -1.0 } else { 1.0 }).collect();
            let m = Matrix3::from_columns(&cols);
            if (m.determinant() - 1.0).abs() < 1e-12 {
                out.push(m);
            }
        }
    }
    for iso in gen::iso3_menu().iter().step_by(7) {
        out.push(*iso.rotation.to_rotation_matrix().matrix());
    }
    // 180 degrees about oblique axes
    for ax in [Vector3::new(1.0, 1.0, 0.0), Vector3::new(1.0, 1.0, 1.0), Vector3::new(1.0, 2.0, -3.0)] {
        out.push(*Iso3::rotation(ax.normalize() * std::f64::consts::PI).rotation.to_rotation_matrix().matrix());
    }
    out
}

fn judge_basisframe(case: &Case, l: &mut Local) {
    let mk = || serde_json::to_value(case).unwrap();
    let rots = rotations();
    let m = rots[case.a % rots.len()];
    let origin = [Point3::origin(), Point3::new(1.0, 2.0, 3.0), Point3::new(1e3, -7e2, 4e2)][case.b % 3];
    let basis = [m.column(0).into_owned(), m.column(1).into_owned(), m.column(2).into_owned()];
    let scale = 1.0 + origin.coords.norm();
    l.eval();
    l.bucket(if (m.trace() + 1.0).abs() < 1e-9 { "half-turn rotation" } else { "other rotation" });
    match guarded(|| iso3_from_basis(&basis, &origin)) {
        Err(e) => {
            l.check("iso3_from_basis returns", "panic", false, mk, || e.clone());
        }
        Ok(iso) => {
            let mut worst = d3(&(iso * origin), &Point3::origin());
            for i in 0..3 {
                let mut ei = Vector3::zeros();
                ei[i] = 1.0;
                worst = worst.max((iso * (origin + basis[i]) - Point3::from(ei)).norm());
            }
            l.outcome(hash_of(&(case.a, worst <= 1e-9 * scale)));
            l.check("iso3_from_basis maps the origin to zero and the basis vectors onto the axes", "", worst <= 1e-9 * scale, mk, || format!("basis {:?}: worst error {:e}", basis, worst));
        }
    }
    l.eval();
    let (x0, y) = (UnitVec3::new_normalize(basis[0]), UnitVec3::new_normalize(basis[1] + basis[0] * 0.3));
    match guarded(|| iso3_from_xyo(&x0, &y, &origin)) {
        Err(e) => {
            l.check("iso3_from_xyo returns", "panic", false, mk, || e.clone());
        }
        Ok(iso) => {
            let px = iso * (origin + x0.into_inner());
            let py = iso * (origin + y.into_inner());
            let ok = (px - Point3::new(1.0, 0.0, 0.0)).norm() <= 1e-9 * scale && py.y > 0.0 && py.z.abs() <= 1e-9 * scale && d3(&(iso * origin), &Point3::origin()) <= 1e-9 * scale;
            l.check("iso3_from_xyo maps x onto the x axis and y into the upper xy half-plane", "", ok, mk, || format!("x -> {:?}, y -> {:?}", px, py));
        }
    }
    // 2D
    l.eval();
    let ang = [0.0, 0.3, std::f64::consts::FRAC_PI_2, std::f64::consts::PI, -2.0, -std::f64::consts::FRAC_PI_2, 3.0][case.a % 7];
    let b0 = if case.a % 7 == 3 { Vector2::new(-1.0, 0.0) } else { Vector2::new(ang.cos(), ang.sin()) };
    let b1 = Vector2::new(-b0.y, b0.x);
    let o2 = Point2::new(origin.x, origin.y);
    match guarded(|| iso2_from_basis(&[b0, b1], &o2)) {
        Err(e) => {
            l.check("iso2_from_basis returns", "panic", false, mk, || e.clone());
        }
        Ok(iso) => {
            let iso: Iso2 = iso;
            let ok = d2(&(iso * (o2 + b0)), &Point2::new(1.0, 0.0)) <= 1e-9 * scale && d2(&(iso * (o2 + b1)), &Point2::new(0.0, 1.0)) <= 1e-9 * scale && d2(&(iso * o2), &Point2::origin()) <= 1e-9 * scale;
            l.check("iso2_from_basis maps the origin to zero and the basis onto the axes", "", ok, mk, || format!("b0 {:?}: b0 -> {:?}", b0, iso * (o2 + b0)));
        }
    }
}

fn exact_rank3(p: &[Point3]) -> usize {
    let d: Vec<Vector3> = p.iter().skip(1).map(|q| q - p[0]).collect();
    let nz: Vec<&Vector3> = d.iter().filter(|v| v.norm() > 0.0).collect();
    if nz.is_empty() {
        return 0;
    }
    let a = nz[0];
    let crosses: Vec<Vector3> = nz.iter().map(|v| a.cross(v)).filter(|c| c.norm() > 0.0).collect();
    if crosses.is_empty() {
        return 1;
    }
    let n = crosses[0];
    if nz.iter().all(|v| v.dot(&n) == 0.0) {
        2
    } else {
        3
    }
}

const WEIGHTS: [[f64; 6]; 4] = [[1.0, 1.0, 1.0, 1.0, 1.0, 1.0], [2.0, 2.0, 2.0, 2.0, 2.0, 2.0], [1.0, 2.0, 0.5, 3.0, 1.5, 0.75], [3.0, 6.0, 1.5, 9.0, 4.5, 2.25]];

fn axes_agree3(a: &SvdBasis3, b: &SvdBasis3) -> bool {
    // per axis up to sign where the singular-value gaps are clear
    for i in 0..3 {
        let gap_ok = (i == 0 || (a.sv[i - 1] - a.sv[i]).abs() > 1e-6 * (1.0 + a.sv[0])) && (i == 2 || (a.sv[i] - a.sv[i + 1]).abs() > 1e-6 * (1.0 + a.sv[0]));
        if gap_ok && a.sv[i] > 1e-9 && (a.basis[i].dot(&b.basis[i]).abs() - 1.0).abs() > 1e-8 {
            return false;
        }
    }
    true
}

fn judge_svd3(case: &Case, l: &mut Local) {
    let mk = || serde_json::to_value(case).unwrap();
    let lat = gen::lattice3(3);
    let pts: Vec<Point3> = case.idx.iter().map(|i| gen::p3(lat[*i], 1.0)).collect();
    let n = pts.len();
    let rank = exact_rank3(&pts);
    l.bucket(["coincident point set", "collinear point set", "planar point set", "generic point set"][rank]);
    let iso = Iso3::new(Vector3::new(3.0, -2.0, 5.0), Vector3::new(0.4, -1.1, 0.7));
    let mut results: Vec<SvdBasis3> = Vec::new();
    let wsets: Vec<Option<Vec<f64>>> = std::iter::once(None).chain(WEIGHTS.iter().map(|w| Some(w[..n].to_vec()))).collect();
    for w in wsets.iter() {
        l.eval();
        let b = match guarded(|| SvdBasis3::from_points(&pts, w.as_deref())) {
            Ok(b) => b,
            Err(e) => {
                l.check("principal-axis decomposition returns", "panic", false, mk, || e.clone());
                return;
            }
        };
        let ws: Vec<f64> = w.clone().unwrap_or(vec![1.0; n]);
        let tw: f64 = ws.iter().sum();
        let mut c = Vector3::zeros();
        for (p, wi) in pts.iter().zip(ws.iter()) {
            c += p.coords * *wi;
        }
        c /= tw;
        l.check("centre is the (weighted) mean", "", (b.center.coords - c).norm() <= 1e-12, mk, || format!("w {:?}: {:?} vs {:?}", w, b.center, c));
        let mut orth: f64 = 0.0;
        for i in 0..3 {
            for j in 0..3 {
                orth = orth.max((b.basis[i].dot(&b.basis[j]) - if i == j { 1.0 } else { 0.0 }).abs());
            }
        }
        l.check("basis vectors are orthonormal", "", orth <= 1e-10, mk, || format!("w {:?}: deviation {:e}", w, orth));
        l.check("singular values are non-increasing", "", b.sv[0] >= b.sv[1] - 1e-12 && b.sv[1] >= b.sv[2] - 1e-12 && b.sv[2] >= -1e-12, mk, || format!("{:?}", b.sv));
        // with or without weights: each squared singular value is the sum of the squared weighted projections
        // of the points onto its axis, taken about the reported centre
        {
            let mut worst = 0.0f64;
            for i in 0..3 {
                let proj: f64 = pts.iter().zip(ws.iter()).map(|(p, wi)| (wi * (p - b.center).dot(&b.basis[i])).powi(2)).sum();
                worst = worst.max((b.sv[i].powi(2) - proj).abs() / (1.0 + b.sv[0].powi(2)));
            }
            l.check("squared singular values equal the summed squared weighted projections about the centre", "", worst <= 1e-9, mk, || format!("w {:?}: singular values {:?}, worst relative error {:e}", w, b.sv, worst));
        }
        let unit = ws.iter().all(|x| *x == 1.0);
        if unit {
            let mut worst = 0.0f64;
            for i in 0..3 {
                let var: f64 = pts.iter().map(|p| (p - b.center).dot(&b.basis[i]).powi(2)).sum::<f64>() / n as f64;
                worst = worst.max((b.sv[i].powi(2) / n as f64 - var).abs() / (1e-300 + (b.sv[0].powi(2) / n as f64).max(1.0)));
                if b.n == n {
                    worst = worst.max((b.basis_variances()[i] - var).abs());
                } else {
                    worst = f64::MAX;
                }
            }
            l.check("squared singular values over n equal the variance along each axis", ["rank0", "rank1", "rank2", "rank3"][rank], worst <= 1e-9, mk, || {
                format!("points {:?}: singular values {:?}, worst relative variance error {:e}", pts, b.sv, worst)
            });
            l.check("rank reflects the dimension of the point set", "", b.rank(1e-9) == rank, mk, || format!("rank {} expected {} (sv {:?})", b.rank(1e-9), rank, b.sv));
            // with a zero tolerance exactly the directions of non-zero extent count (a coincident set has none)
            let positive = b.sv.iter().filter(|s| **s > 0.0).count();
            if positive < 3 {
                l.bucket("exactly zero singular value");
            }
            l.check("rank with a zero tolerance counts the directions of non-zero extent", "", b.rank(0.0) == positive && (rank > 0 || b.rank(0.0) == 0), mk, || format!("rank(0) {} for singular values {:?}", b.rank(0.0), b.sv));
        }
        // standard deviations are the roots of the variances; vectors (differences of points) go to the basis
        // without the centre
        let sd_ok = (0..3).all(|i| (b.basis_stdevs()[i] - b.basis_variances()[i].sqrt()).abs() <= 1e-12 * (1.0 + b.sv[0]));
        let vec_ok = pts.iter().all(|p| ((b.point_to_basis(p) - b.point_to_basis(&pts[0])) - b.vec_to_basis(&(p - pts[0]))).norm() <= 1e-10);
        l.check("standard deviations are the roots of the variances and difference vectors map like differences of points", "", sd_ok && vec_ok, mk, || format!("stdevs {:?} variances {:?}", b.basis_stdevs(), b.basis_variances()));
        let rt = pts.iter().map(|p| d3(&b.point_from_basis(&b.point_to_basis(p)), p)).fold(0.0, f64::max);
        l.check("points round-trip through the basis", "", rt <= 1e-10, mk, || format!("{:e}", rt));
        l.outcome(hash_of(&(rank, w.is_some())));
        results.push(b);
    }
    // singular values are compared as the statement gives them a meaning: through their squares (variances times n);
    // a vanishing singular value is only determined to the square root of the rounding error of its square
    let sv_same = |a: f64, b: f64, top: f64| (a * a - b * b).abs() <= 1e-9 * (1.0 + top * top);
    let close = |a: &SvdBasis3, b: &SvdBasis3| (a.center - b.center).norm() <= 1e-10 && axes_agree3(a, b);
    l.check("unit weights equal no weights", "", close(&results[0], &results[1]) && (0..3).all(|i| sv_same(results[0].sv[i], results[1].sv[i], results[0].sv[0])), mk, || format!("{:?} vs {:?}", results[0].sv, results[1].sv));
    l.check("uniformly scaling the weights leaves centre and axes unchanged", "uniform", close(&results[1], &results[2]), mk, || {
        format!("weights 1 -> centre {:?} axes {:?}; weights 2 -> centre {:?} axes {:?}", results[1].center, results[1].basis, results[2].center, results[2].basis)
    });
    l.check("uniformly scaling the weights leaves centre and axes unchanged", "pattern", close(&results[3], &results[4]), mk, || {
        format!("pattern -> axes {:?}; 3 x pattern -> axes {:?}", results[3].basis, results[4].basis)
    });
    // equivariance
    l.eval();
    let moved: Vec<Point3> = pts.iter().map(|p| iso * p).collect();
    let bm = SvdBasis3::from_points(&moved, None);
    let mut ok = d3(&bm.center, &(iso * results[0].center)) <= 1e-9;
    for i in 0..3 {
        ok &= sv_same(bm.sv[i], results[0].sv[i], results[0].sv[0]);
    }
    let rotated = SvdBasis3 { basis: [iso * results[0].basis[0], iso * results[0].basis[1], iso * results[0].basis[2]], sv: results[0].sv, center: iso * results[0].center, n };
    ok &= axes_agree3(&rotated, &bm);
    l.check("decomposition is equivariant under rigid motion", "", ok, mk, || format!("sv {:?} vs {:?}", bm.sv, results[0].sv));
    // weighted equivariance of the singular values
    let bw = SvdBasis3::from_points(&moved, Some(&WEIGHTS[2][..n]));
    l.check("weighted decomposition is equivariant under rigid motion", "", (0..3).all(|i| sv_same(bw.sv[i], results[3].sv[i], results[3].sv[0])), mk, || format!("{:?} vs {:?}", bw.sv, results[3].sv));
    // frame from the basis
    if rank == 3 {
        let f: Iso3 = (&results[0]).into();
        let ok = d3(&(f * results[0].center), &Point3::origin()) <= 1e-9 && (f * results[0].basis[0] - Vector3::x()).norm() <= 1e-9 && (f * results[0].basis[1] - Vector3::y()).norm() <= 1e-9;
        l.check("isometry from the basis maps centre to zero and the first two axes onto x and y", "", ok, mk, || format!("{:?}", f));
    }
}

fn judge_svd2(case: &Case, l: &mut Local) {
    let mk = || serde_json::to_value(case).unwrap();
    let lat = gen::lattice2(3);
    let pts: Vec<Point2> = case.idx.iter().map(|i| gen::p2(lat[*i], 1.0)).collect();
    let n = pts.len();
    l.eval();
    l.bucket("2D point set");
    let b = match guarded(|| SvdBasis2::from_points(&pts, None)) {
        Ok(b) => b,
        Err(e) => {
            l.check("principal-axis decomposition returns", "panic", false, mk, || e.clone());
            return;
        }
    };
    let mut c = Vector2::zeros();
    for p in &pts {
        c += p.coords / n as f64;
    }
    let mut worst = (b.center.coords - c).norm();
    worst = worst.max((b.basis[0].dot(&b.basis[1])).abs()).max((b.basis[0].norm() - 1.0).abs()).max((b.basis[1].norm() - 1.0).abs());
    for i in 0..2 {
        let var: f64 = pts.iter().map(|p| (p - b.center).dot(&b.basis[i]).powi(2)).sum::<f64>() / n as f64;
        worst = worst.max((b.sv[i].powi(2) / n as f64 - var).abs());
    }
    l.outcome(hash_of(&(b.rank(1e-9), 2u8)));
    l.check("2D decomposition: mean centre, orthonormal axes, variances", "", worst <= 1e-9 && b.sv[0] >= b.sv[1] - 1e-12, mk, || format!("points {:?}: sv {:?} worst {:e}", pts, b.sv, worst));
    let w = &WEIGHTS[2][..n];
    let w3 = &WEIGHTS[3][..n];
    let (bw, bw3) = (SvdBasis2::from_points(&pts, Some(w)), SvdBasis2::from_points(&pts, Some(w3)));
    let gap = (bw.sv[0] - bw.sv[1]).abs() > 1e-6 * (1.0 + bw.sv[0]);
    let ok = (bw.center - bw3.center).norm() <= 1e-10 && (!gap || bw.sv[0] < 1e-9 || (bw.basis[0].dot(&bw3.basis[0]).abs() - 1.0).abs() <= 1e-8);
    l.check("2D: uniformly scaling the weights leaves centre and axes unchanged", "", ok, mk, || format!("{:?} vs {:?}", bw.basis, bw3.basis));
}

fn judge_plane(case: &Case, l: &mut Local) {
    let mk = || serde_json::to_value(case).unwrap();
    let lat = gen::lattice3(3);
    let (a, b, c) = (gen::p3(lat[case.idx[0]], 1.0), gen::p3(lat[case.idx[1]], 1.0), gen::p3(lat[case.idx[2]], 1.0));
    if (b - a).cross(&(c - a)).norm() < 1e-9 {
        l.bucket("collinear triple (skipped)");
        return;
    }
    l.eval();
    l.bucket("plane through three points");
    let pl = Plane3::from((&a, &b, &c));
    let q = Point3::new(0.3, -1.7, 2.2);
    let worst = [a, b, c].iter().map(|p| pl.signed_distance_to_point(p).abs()).fold(0.0, f64::max);
    l.outcome(hash_of(&(pl.signed_distance_to_point(&q) > 0.0)));
    l.check("plane contains its three defining points", "", worst <= 1e-12 && (pl.normal.norm() - 1.0).abs() <= 1e-12, mk, || format!("{:e}", worst));
    let pr = pl.project_point(&q);
    l.check("projection lands on the plane and is idempotent", "", pl.signed_distance_to_point(&pr).abs() <= 1e-12 && d3(&pl.project_point(&pr), &pr) <= 1e-12 && ((q - pr).cross(&pl.normal.into_inner())).norm() <= 1e-12, mk, String::new);
    let inv = pl.inverted_normal();
    l.check("normal inversion flips the signed distance", "", (inv.signed_distance_to_point(&q) + pl.signed_distance_to_point(&q)).abs() <= 1e-12 && (inv.distance_to_point(&q) - pl.distance_to_point(&q)).abs() <= 1e-12, mk, String::new);
    // from point + normal, from surface point
    let n = pl.normal;
    let p2 = Plane3::from((&n, &a));
    let p3 = Plane3::from(&SurfacePoint3::new(b, n));
    l.check("planes from point+normal and from a surface point contain their defining point", "", p2.signed_distance_to_point(&a).abs() <= 1e-12 && p3.signed_distance_to_point(&b).abs() <= 1e-12 && (p2.signed_distance_to_point(&q) - pl.signed_distance_to_point(&q)).abs() <= 1e-12, mk, String::new);
    let sp = SurfacePoint3::new_normalize(q, Vector3::new(0.3, 0.2, 1.0));
    if let Some(t) = pl.intersection_distance(&sp) {
        l.check("intersection distance lands on the plane", "", pl.signed_distance_to_point(&sp.at_distance(t)).abs() <= 1e-9 * (1.0 + t.abs()), mk, || format!("t {}", t));
    }
    // a moved plane contains the moved defining points, whatever the mix of rotation and translation
    for iso in [Iso3::new(Vector3::new(3.0, -2.0, 5.0), Vector3::new(0.4, -1.1, 0.7)), Iso3::new(Vector3::new(0.0, 0.0, 4.0), Vector3::new(1.2, 0.0, 0.0)), Iso3::new(Vector3::new(-7.0, 1.0, 0.5), Vector3::zeros())] {
        let pm = pl.transform_by(&iso);
        let worst = [a, b, c].iter().map(|p| pm.signed_distance_to_point(&(iso * p)).abs()).fold(0.0, f64::max);
        l.check("a moved plane contains its moved defining points", "", worst <= 1e-9 && (pm.normal.into_inner() - iso.rotation * pl.normal.into_inner()).norm() <= 1e-12, mk, || format!("{:e}", worst));
    }
    // the same triangle a thousand and a million times smaller, and much larger, at an offset: the plane has
    // the same normal and still contains its three points
    for (sc, off) in [(1e-3, Vector3::zeros()), (1e-6, Vector3::new(3.0, -2.0, 5.0)), (1e4, Vector3::new(-40.0, 7.0, 1.0))] {
        l.eval();
        let (sa, sb, scc) = (Point3::from(a.coords * sc + off), Point3::from(b.coords * sc + off), Point3::from(c.coords * sc + off));
        let ps = Plane3::from((&sa, &sb, &scc));
        let worst = [sa, sb, scc].iter().map(|p| ps.signed_distance_to_point(p).abs()).fold(0.0, f64::max);
        l.bucket("plane through a scaled triple");
        l.check("plane contains its three defining points", "scaled", worst <= 1e-9 * sc * (1.0 + off.norm() / sc * 1e-3) && (ps.normal.into_inner() - pl.normal.into_inner()).norm() <= 1e-6, mk, || format!("scale {:e}: normal {:?} vs {:?}, points off by {:e}", sc, ps.normal, pl.normal, worst));
    }
}

pub fn judge(case: &Case, l: &mut Local) {
    l.distinct(hash_of(&(case.kind.as_str(), case.a, case.b, &case.idx)));
    if case.a == 5 && case.b == 17 {
        l.sample(|| serde_json::to_value(case).unwrap());
    }
    match case.kind.as_str() {
        "frame" => judge_frame(case, l),
        "basisframe" => judge_basisframe(case, l),
        "svd3" => judge_svd3(case, l),
        "svd2" => judge_svd2(case, l),
        "plane" => judge_plane(case, l),
        _ => {}
    }
}

fn multisets(n: usize, m: usize) -> Vec<Vec<usize>> {
    let mut out = Vec::new();
    let mut cur = vec![0usize; m];
    loop {
        out.push(cur.clone());
        let mut i = m;
        loop {
            if i == 0 {
                return out;
            }
            i -= 1;
            if cur[i] + 1 < n {
                let v = cur[i] + 1;
                for c in cur.iter_mut().skip(i) {
                    *c = v;
                }
                break;
            }
        }
    }
}

pub fn cases(tier: Tier) -> Vec<Case> {
    let mut out = Vec::new();
    let nv = vecs().len();
    for a in 0..nv {
        for b in 0..nv {
            out.push(Case { kind: "frame".into(), a, b, idx: vec![] });
        }
    }
    for a in 0..rotations().len() * 7 {
        for b in 0..3 {
            out.push(Case { kind: "basisframe".into(), a, b, idx: vec![] });
        }
    }
    let sizes: &[usize] = if tier == Tier::Quick { &[4, 5] } else { &[4, 5, 6] };
    for m in sizes.iter().copied() {
        for (k, idx) in multisets(27, m).into_iter().enumerate() {
            if tier == Tier::Quick && (k as u64 + seed()) % 4 != 0 {
                continue;
            }
            out.push(Case { kind: "svd3".into(), a: 5, b: k % 64, idx });
        }
    }
    for m in [3usize, 4, 5, 6] {
        for idx in multisets(9, m) {
            out.push(Case { kind: "svd2".into(), a: 0, b: 0, idx });
        }
    }
    for a in 0..27 {
        for b in 0..27 {
            for c in 0..27 {
                out.push(Case { kind: "plane".into(), a: 0, b: 0, idx: vec![a, b, c] });
            }
        }
    }
    out
}

pub fn run(tier: Tier) -> i32 {
    let mut cx = Ctx::new("C19", tier, "exploration");
    cx.rule = "frames: every ordered pair of the 124 non-zero vectors of {-2..2}^3 (parallel pairs included) x 6 two-vector constructors x 2 origins; basis-to-isometry builders over the 24 exact signed-permutation rotations (incl. every exact half turn), general and oblique half-turn rotations x 3 origins; principal axes: every multiset of 4 and 5 (thorough: also 6) points of the 3x3x3 lattice (every 4th in the quick tier) x {no weights, unit, 2x unit, pattern, 3x pattern} and every multiset of 3..6 points of the 3x3 lattice; planes: every ordered triple of the 3x3x3 lattice. distinct = distinct cases".into();
    cx.bounds = json!({"vectors": vecs().len(), "rotations": rotations().len(), "svd3_multiset_sizes": if tier == Tier::Quick { vec![4, 5] } else { vec![4, 5, 6] }, "svd3_subsampling": tier.pick(4, 1)});
    cx.require(&["parallel pair", "orthogonal pair", "oblique pair", "half-turn rotation", "other rotation", "coincident point set", "collinear point set", "planar point set", "generic point set", "exactly zero singular value", "2D point set", "plane through three points", "plane through a scaled triple", "vector pair of very different or very small lengths"]);
    cx.assume("axes are compared per axis up to sign where the singular-value gap exceeds 1e-6, singular values and centres always; weighted singular values are not given a variance meaning");
    let cs = cases(tier);
    let l = sweep(&cs, judge);
    cx.absorb(l);
    cx.finish()
}

pub fn replay(case: &Val) -> Local {
    let c: Case = serde_json::from_value(case.clone()).expect("case");
    let mut l = Local::new();
    judge(&c, &mut l);
    l
}
