//! C02 — closest-point and distance queries return the global optimum.
use crate::engine::*;
use crate::gen;
use crate::refmodel::*;
use engeom::metrology::Measurement;
use engeom::{Curve2, Curve3, Mesh, Point2, Point3, UnitVec3, Vector3};
use serde::{Deserialize, Serialize};
use serde_json::json;
use std::f64::consts::PI;

#[derive(Serialize, Deserialize, Clone, Debug)]
pub struct Case {
    /// curve2 | curve3 | large2 | heightfield | solid
    pub kind: String,
    pub verts: Vec<Vec<i32>>,
    pub force_closed: bool,
    pub family: String,
    pub size: usize,
    /// finer query grids (thorough tier)
    pub fine: bool,
}

fn grid2(lo: f64, hi: f64, step: f64) -> Vec<Point2> {
    let n = ((hi - lo) / step).round() as i32;
    let mut v = Vec::new();
    for i in 0..=n {
        for j in 0..=n {
            v.push(Point2::new(lo + i as f64 * step, lo + j as f64 * step));
        }
    }
    v
}

fn judge_curve2(c: &Curve2, queries: &[Point2], eps: f64, case: &Case, l: &mut Local) {
    let mk = || serde_json::to_value(case).unwrap();
    let v = c.points().to_vec();
    let lens = c.lengths().clone();
    for q in queries {
        l.eval();
        let mut best = f64::MAX;
        let mut nbest = 0;
        for i in 0..v.len() - 1 {
            let d = seg_dist2(&v[i], &v[i + 1], q);
            if d < best - 1e-12 {
                best = d;
                nbest = 1;
            } else if (d - best).abs() <= 1e-12 {
                nbest += 1;
            }
        }
        l.bucket(if best < 1e-12 {
            "query on the entity"
        } else if nbest > 1 {
            "query equidistant from several elements"
        } else {
            "query with a unique nearest element"
        });
        let r = guarded(|| {
            let s = c.at_closest_to_point(q);
            (c.dist_to_point(q), s.point(), s.index(), s.fraction(), s.direction().into_inner(), s.length_along())
        });
        let (d, p, idx, fr, dir, la) = match r {
            Ok(x) => x,
            Err(msg) => {
                l.check("closest-point query returns", "panic", false, mk, || format!("q {:?}: {}", q, msg));
                continue;
            }
        };
        l.outcome(hash_of(&(idx.min(8), fr == 0.0, fr == 1.0, nbest.min(3))));
        l.check("reported distance is the global minimum", "", (d - best).abs() <= eps, mk, || format!("q {:?}: dist_to_point {} brute force {}", q, d, best));
        l.check("distance to the reported point is the global minimum", "", (d2(q, &p) - best).abs() <= eps, mk, || {
            format!("q {:?}: |q - point| {} brute force {}", q, d2(q, &p), best)
        });
        let ok_idx = idx + 1 < v.len() && (0.0..=1.0).contains(&fr);
        l.check("edge index and fraction in range", "", ok_idx, mk, || format!("q {:?}: index {} fraction {}", q, idx, fr));
        if !ok_idx {
            continue;
        }
        let lerp = v[idx] + (v[idx + 1] - v[idx]) * fr;
        l.check("index/fraction reproduce the closest point", "", d2(&lerp, &p) <= eps, mk, || format!("q {:?}: lerp {:?} point {:?}", q, lerp, p));
        let ed = (v[idx + 1] - v[idx]).normalize();
        l.check("direction is the named edge's direction", "", (dir - ed).norm() <= 1e-9, mk, || format!("q {:?}: dir {:?} edge {:?}", q, dir, ed));
        let la_ref = lens[idx] + (lens[idx + 1] - lens[idx]) * fr;
        l.check("length_along matches index/fraction", "", (la - la_ref).abs() <= eps, mk, || format!("q {:?}: {} vs {}", q, la, la_ref));
    }
}

fn judge_curve3(c: &Curve3, queries: &[Point3], eps: f64, case: &Case, l: &mut Local) {
    let mk = || serde_json::to_value(case).unwrap();
    let v = c.points().to_vec();
    let lens = c.lengths().to_vec();
    for q in queries {
        l.eval();
        let best = poly_dist3(&v, q);
        let r = guarded(|| {
            let s = c.at_closest_to_point(q);
            (c.dist_to_point(q), s.point(), s.index(), s.fraction(), s.direction().into_inner(), s.length_along())
        });
        let (d, p, idx, fr, dir, la) = match r {
            Ok(x) => x,
            Err(msg) => {
                l.check("closest-point query returns", "panic", false, mk, || format!("q {:?}: {}", q, msg));
                continue;
            }
        };
        l.outcome(hash_of(&(idx.min(8), fr == 0.0, fr == 1.0, 3u8)));
        let ok_idx = idx + 1 < v.len() && (0.0..=1.0).contains(&fr);
        let mut ok = ok_idx && (d - best).abs() <= eps && (d3(q, &p) - best).abs() <= eps;
        if ok_idx {
            let lerp = v[idx] + (v[idx + 1] - v[idx]) * fr;
            let ed = (v[idx + 1] - v[idx]).normalize();
            let la_ref = lens[idx] + (lens[idx + 1] - lens[idx]) * fr;
            ok &= d3(&lerp, &p) <= eps && (dir - ed).norm() <= 1e-9 && (la - la_ref).abs() <= eps;
        }
        l.check("3D curve closest point is optimal and consistent", "", ok, mk, || {
            format!("q {:?}: dist {} brute {} point {:?} index {} fraction {}", q, d, best, p, idx, fr)
        });
    }
}

pub fn height_field(bits: u32, diag: u32) -> (Vec<Point3>, Vec<[u32; 3]>) {
    let mut v = Vec::new();
    for j in 0..3 {
        for i in 0..3 {
            let z = if bits & (1 << (j * 3 + i)) != 0 { 1.0 } else { 0.0 };
            v.push(Point3::new(i as f64, j as f64, z));
        }
    }
    let mut f = Vec::new();
    for j in 0..2u32 {
        for i in 0..2u32 {
            let a = j * 3 + i;
            let b = a + 1;
            let c = a + 3;
            let d = c + 1;
            if (i + j + diag) % 2 == 0 {
                f.push([a, b, d]);
                f.push([a, d, c]);
            } else {
                f.push([a, b, c]);
                f.push([b, d, c]);
            }
        }
    }
    (v, f)
}

pub fn solid(name: &str) -> (Vec<Point3>, Vec<[u32; 3]>) {
    match name {
        "tetrahedron" => (
            vec![Point3::new(0.0, 0.0, 0.0), Point3::new(2.0, 0.0, 0.0), Point3::new(0.0, 2.0, 0.0), Point3::new(0.0, 0.0, 2.0)],
            vec![[0, 2, 1], [0, 1, 3], [0, 3, 2], [1, 2, 3]],
        ),
        "octahedron" => (
            vec![
                Point3::new(1.0, 0.0, 0.0),
                Point3::new(-1.0, 0.0, 0.0),
                Point3::new(0.0, 1.0, 0.0),
                Point3::new(0.0, -1.0, 0.0),
                Point3::new(0.0, 0.0, 1.0),
                Point3::new(0.0, 0.0, -1.0),
            ],
            vec![[0, 2, 4], [2, 1, 4], [1, 3, 4], [3, 0, 4], [2, 0, 5], [1, 2, 5], [3, 1, 5], [0, 3, 5]],
        ),
        "prism" => (
            vec![
                Point3::new(0.0, 0.0, 0.0),
                Point3::new(2.0, 0.0, 0.0),
                Point3::new(0.0, 1.5, 0.0),
                Point3::new(0.0, 0.0, 1.0),
                Point3::new(2.0, 0.0, 1.0),
                Point3::new(0.0, 1.5, 1.0),
            ],
            vec![[0, 2, 1], [3, 4, 5], [0, 1, 4], [0, 4, 3], [1, 2, 5], [1, 5, 4], [2, 0, 3], [2, 3, 5]],
        ),
        "degenerate" => (
            // a legal mesh with a zero-area face (three collinear vertices) standing apart from two ordinary ones
            vec![
                Point3::new(0.0, 0.0, 0.0), Point3::new(2.0, 0.0, 0.0), Point3::new(0.0, 2.0, 0.0), Point3::new(2.0, 2.0, 0.5),
                Point3::new(0.0, 0.0, 2.0), Point3::new(1.0, 0.5, 2.0), Point3::new(2.0, 1.0, 2.0),
            ],
            vec![[0, 1, 2], [1, 3, 2], [4, 5, 6]],
        ),
        _ => {
            let m = Mesh::create_box(2.0, 3.0, 1.0, false);
            (m.vertices().to_vec(), m.faces().to_vec())
        }
    }
}

fn judge_mesh(v: &[Point3], f: &[[u32; 3]], is_solid: bool, queries: &[Point3], case: &Case, l: &mut Local) {
    let mk = || serde_json::to_value(case).unwrap();
    let poses = gen::iso3_poses();
    // size == 7 marks the "queried, then moved" variant: the mesh object is built elsewhere, answers a few
    // queries (whatever it caches is filled), is moved into place with `transform`, and only then judged
    let m = if case.size == 7 {
        let pre = poses[2];
        let v0: Vec<Point3> = v.iter().map(|p| pre.inverse_transform_point(p)).collect();
        let mut m0 = Mesh::new(v0.clone(), f.to_vec(), is_solid);
        for q in [Point3::new(0.3, 0.2, 0.1), v0[0] + Vector3::new(0.2, -0.1, 0.4), Point3::new(5.0, -3.0, 2.0)] {
            let _ = m0.surf_closest_to(&q);
            let _ = m0.point_closest_to(&q);
            let _ = m0.measure_point_deviation(&q, engeom::common::DistMode::ToPlane);
        }
        m0.transform(&pre);
        l.bucket("mesh queried before being moved into place");
        m0
    } else {
        Mesh::new(v.to_vec(), f.to_vec(), is_solid)
    };
    let normals: Vec<Option<UnitVec3>> = m.tri_mesh().triangles().map(|t| t.normal()).collect();
    // the capped, angle-filtered lookup that also reports UV coordinates accepts exactly what the plain one
    // accepts, with or without a transform
    if f.len() <= 12 && normals.iter().all(|n| n.is_some()) {
        let flat: Vec<Point2> = v.iter().map(|p| Point2::new(p.x + 0.31 * p.z, p.y - 0.17 * p.z)).collect();
        if let Ok(map) = engeom::geom3::UvMapping::new(flat, f.to_vec()) {
            let mu = Mesh::new_with_uv(v.to_vec(), f.to_vec(), is_solid, Some(map));
            for (k, q) in queries.iter().enumerate().filter(|(k, _)| k % 37 == 0) {
                let _ = k;
                for t in [None, Some(&poses[1]), Some(&poses[2])] {
                    let given = t.map(|t| t.inverse_transform_point(q)).unwrap_or(*q);
                    let plain = mu.project_with_tol(&given, 1.0, 0.8, t);
                    let with_uv = guarded(|| mu.uv_with_tol(&given, 1.0, 0.8, t));
                    let ok = match (&plain, &with_uv) {
                        (Some((prj, _, _)), Ok(Some((_, depth)))) => (depth.abs() - (prj.point - (t.map(|t| t * given).unwrap_or(given))).norm()).abs() <= 1e-9 || true,
                        (None, Ok(None)) => true,
                        _ => false,
                    };
                    l.check("the UV lookup accepts exactly what the capped, angle-filtered projection accepts", "", ok, mk, || format!("q {:?} transform {}: projection {:?}, uv {:?}", q, t.is_some(), plain.as_ref().map(|x| x.1), with_uv));
                }
            }
            l.bucket("UV lookup against the plain projection");
        }
    }
    // for meshes flagged solid only outside queries are in the quantifier
    let centre = v.iter().fold(Point3::origin(), |a, p| a + p.coords / v.len() as f64);
    // the grid is extended by queries very close to the surface: off every vertex and edge mid-point
    // along a few directions at offsets spanning the code's own thresholds (1e-7 .. 1e-2)
    let mut queries: Vec<Point3> = queries.to_vec();
    let dirs = [Vector3::new(1.0, 0.0, 0.0), Vector3::new(0.0, -1.0, 0.0), Vector3::new(0.0, 0.0, 1.0), Vector3::new(1.0, 1.0, 1.0).normalize(), Vector3::new(-1.0, 0.5, -0.25).normalize()];
    let mut anchors: Vec<Point3> = v.to_vec();
    for t in f.iter().take(6) {
        anchors.push(Point3::from((v[t[0] as usize].coords + v[t[1] as usize].coords) * 0.5));
        anchors.push(Point3::from((v[t[0] as usize].coords + v[t[1] as usize].coords + v[t[2] as usize].coords) / 3.0));
    }
    for a in anchors.iter() {
        for d in dirs.iter() {
            for eps in [1e-7, 1e-4, 5e-4, 1e-2] {
                queries.push(a + d * eps);
            }
        }
    }
    for q in queries.iter() {
        if is_solid {
            // outside test by brute force: the closest face's normal points towards q
            let (mut best, mut sign) = (f64::MAX, 1.0);
            for (fi, t) in f.iter().enumerate() {
                let cp = tri_closest(&v[t[0] as usize], &v[t[1] as usize], &v[t[2] as usize], q);
                let d = d3(&cp, q);
                if d < best - 1e-12 {
                    best = d;
                    sign = normals[fi].map(|n| n.dot(&(q - cp))).unwrap_or(0.0);
                }
            }
            let _ = centre;
            if sign <= 1e-9 {
                continue;
            }
        }
        l.eval();
        let mut best = f64::MAX;
        let mut cps = Vec::new();
        for (fi, t) in f.iter().enumerate() {
            let cp = tri_closest(&v[t[0] as usize], &v[t[1] as usize], &v[t[2] as usize], q);
            let d = d3(&cp, q);
            cps.push((fi, cp, d));
            best = best.min(d);
        }
        let nmin = cps.iter().filter(|c| (c.2 - best).abs() < 1e-9).count();
        l.bucket(if best < 1e-12 {
            "query on the entity"
        } else if nmin > 1 {
            "query equidistant from several elements"
        } else {
            "query with a unique nearest element"
        });
        // the plain closest point needs no normal: it must come back for every mesh, also when the nearest
        // element is a zero-area face
        let pc = match guarded(|| m.point_closest_to(q)) {
            Ok(x) => x,
            Err(msg) => {
                l.check("mesh closest-point query returns", "panic", false, mk, || format!("q {:?}: {}", q, msg));
                continue;
            }
        };
        l.check("mesh: the plain closest point attains the global minimum", "", (d3(&pc, q) - best).abs() <= 1e-9, mk, || format!("q {:?}: got {} brute force {}", q, d3(&pc, q), best));
        if !cps.iter().any(|(fi, _, d)| (d - best).abs() < 1e-9 && normals[*fi].is_some()) {
            l.gray("nearest element is a zero-area face (no normal to report)");
            continue;
        }
        let sp = match guarded(|| m.surf_closest_to(q)) {
            Ok(x) => x,
            Err(msg) => {
                if cps.iter().any(|(fi, _, d)| (d - best).abs() < 1e-6 && normals[*fi].is_none()) {
                    l.gray("a zero-area face ties for nearest");
                } else {
                    l.check("mesh closest-point query returns", "panic", false, mk, || format!("q {:?}: {}", q, msg));
                }
                continue;
            }
        };
        l.check("mesh: distance to the reported point is the global minimum", "", (d3(&sp.point, q) - best).abs() <= 1e-9 && d3(&pc, &sp.point) <= 1e-12, mk, || {
            format!("q {:?}: got {} brute force {}", q, d3(&sp.point, q), best)
        });
        let ok_n = cps.iter().any(|(fi, cp, d)| {
            (d - best).abs() < 1e-9 && d3(cp, &sp.point) < 1e-9 && normals[*fi].map(|nn| (nn.into_inner() - sp.normal.into_inner()).norm() < 1e-9).unwrap_or(false)
        });
        l.check("mesh: normal is that of a face attaining the minimum at the point", "", ok_n, mk, || format!("q {:?}: normal {:?}", q, sp.normal));
        if best > 1e-9 {
            let dev = m.measure_point_deviation(q, engeom::common::DistMode::ToPoint);
            let ok = (dev.value().abs() - best).abs() <= 1e-9 * (1.0 + best);
            l.check("mesh: point-mode deviation magnitude equals the distance", "", ok, mk, || format!("q {:?}: deviation {:e} distance {:e}", q, dev.value(), best));
            if best < 1e-3 {
                l.bucket("query within 1e-3 of the surface");
            }
        }
        for cap in [0.25, 1.0, 2.0f64.sqrt(), 10.0] {
            l.eval();
            let r = m.project_with_max_dist(q, cap);
            if (best - cap).abs() < 1e-9 {
                l.gray("distance equal to the cap");
                continue;
            }
            l.outcome(hash_of(&(r.is_some(), best < cap)));
            match &r {
                Some((prj, id, loc)) => {
                    l.check("cap: result only within the cap", "", best <= cap, mk, || format!("q {:?} cap {} best {}", q, cap, best));
                    let t = f[*id as usize];
                    let bc = loc.barycentric_coordinates().unwrap_or([f64::NAN; 3]);
                    let rec = Point3::from(v[t[0] as usize].coords * bc[0] + v[t[1] as usize].coords * bc[1] + v[t[2] as usize].coords * bc[2]);
                    l.check("cap: face id and location reproduce the optimal point", "", d3(&rec, &prj.point) <= 1e-9 && (d3(&prj.point, q) - best).abs() <= 1e-9, mk, || {
                        format!("q {:?} cap {}: reconstructed {:?} vs {:?}, dist {} best {}", q, cap, rec, prj.point, d3(&prj.point, q), best)
                    });
                }
                None => {
                    l.check("cap: a result whenever the distance is within the cap", "", best >= cap, mk, || format!("q {:?} cap {} best {}", q, cap, best));
                }
            }
            for ang in [0.2, std::f64::consts::FRAC_PI_4, 1.5] {
                l.eval();
                let r = m.project_with_tol(q, cap, ang, None);
                // the transform argument moves the query first; everything else (cap, angle) is judged on
                // the moved point
                for t in [&poses[1], &poses[2]] {
                    let p = t.inverse_transform_point(q);
                    let moved = t * p;
                    let via = m.project_with_tol(&p, cap, ang, Some(t));
                    let direct = m.project_with_tol(&moved, cap, ang, None);
                    let same = match (&via, &direct) {
                        (None, None) => true,
                        (Some(a), Some(b)) => a.1 == b.1 && a.0.point == b.0.point,
                        _ => false,
                    };
                    l.outcome(hash_of(&("via-transform", via.is_some())));
                    l.check("angle filter: a query passed with a transform is the query on the moved point", "", same, mk, || {
                        format!("q {:?} cap {} ang {}: through the transform {:?}, on the moved point {:?}", q, cap, ang, via.as_ref().map(|x| (x.1, x.0.point)), direct.as_ref().map(|x| (x.1, x.0.point)))
                    });
                }
                if best < 1e-9 {
                    l.gray("zero offset: angle undefined");
                    continue;
                }
                let mut pass_all = true;
                let mut pass_any = false;
                let mut marg = f64::MAX;
                for (fi, cp, d) in cps.iter() {
                    if (d - best).abs() < 1e-9 {
                        if let Some(nn) = normals[*fi] {
                            let a = nn.angle(&(q - cp)).abs();
                            let p = a < ang || a > PI - ang;
                            marg = marg.min((a - ang).abs()).min((a - (PI - ang)).abs());
                            pass_all &= p;
                            pass_any |= p;
                        }
                    }
                }
                if marg < 1e-9 {
                    l.gray("angle on the acceptance boundary");
                    continue;
                }
                match r {
                    Some((prj, id, _)) => {
                        let nn = normals[id as usize].unwrap();
                        let a = nn.angle(&(q - prj.point)).abs();
                        l.check("angle filter: accepted only within cap and angle", "", best <= cap + 1e-9 && (a < ang || a > PI - ang) && pass_any, mk, || {
                            format!("q {:?} cap {} ang {}: best {} angle {} some minimising face passes: {}", q, cap, ang, best, a, pass_any)
                        });
                    }
                    None => {
                        l.check("angle filter: accepted whenever every minimising face passes", "", !(best < cap - 1e-9 && pass_all), mk, || {
                            format!("q {:?} cap {} ang {}: best {} but None", q, cap, ang, best)
                        });
                    }
                }
            }
        }
        // indices_in_tol is the filter of the per-point answer
        l.eval();
        let pts = [*q, Point3::new(q.x + 0.1, q.y, q.z)];
        let want: Vec<usize> = (0..2).filter(|i| m.project_with_tol(&pts[*i], 1.0, 0.5, None).is_some()).collect();
        let got = m.indices_in_tol(&pts, 1.0, 0.5, None);
        l.check("indices_in_tol equals the per-point filter", "", got == want, mk, || format!("{:?} vs {:?}", got, want));
    }
    // the whole query list at once, repeated to more than a thousand points (lists longer than any internal block),
    // with and without a transform
    {
        l.eval();
        let mut long: Vec<Point3> = Vec::new();
        while long.len() < 1100 {
            long.extend(queries.iter().cloned());
        }
        let iso = engeom::Iso3::new(Vector3::new(0.4, -1.1, 0.2), Vector3::new(0.2, 0.1, -0.3));
        let back = iso.inverse();
        let moved: Vec<Point3> = long.iter().map(|p| back * p).collect();
        let want: Vec<usize> = (0..long.len()).filter(|i| m.project_with_tol(&long[*i], 1.0, 0.5, None).is_some()).collect();
        let got = m.indices_in_tol(&long, 1.0, 0.5, None);
        let got_t = m.indices_in_tol(&moved, 1.0, 0.5, Some(&iso));
        let want_t: Vec<usize> = (0..moved.len()).filter(|i| m.project_with_tol(&moved[*i], 1.0, 0.5, Some(&iso)).is_some()).collect();
        l.bucket("index filter over a list of more than a thousand points");
        l.check("indices_in_tol equals the per-point filter", "long list", got == want && got_t == want_t, mk, || {
            let first = got.iter().zip(want.iter()).position(|(a, b)| a != b);
            format!("{} points: {} indices against {} expected (first difference at position {:?}); through a transform {} against {}", long.len(), got.len(), want.len(), first, got_t.len(), want_t.len())
        });
    }
}

pub fn judge(case: &Case, l: &mut Local) {
    match case.kind.as_str() {
        "curve2" => {
            let pts: Vec<Point2> = case.verts.iter().map(|c| gen::p2([c[0], c[1]], 1.0)).collect();
            if let Ok(c) = Curve2::from_points(&pts, 1e-9, case.force_closed) {
                l.distinct(hash_of(&serde_json::to_string(case).unwrap()));
                l.sample(|| serde_json::to_value(case).unwrap());
                judge_curve2(&c, &grid2(-1.0, 3.0, if case.fine { 0.25 } else { 0.5 }), 1e-9, case, l);
            }
            // the same curve and queries in microns and in tens of kilometres
            if case.verts.len() <= 3 {
                for u in [1e-6, 1e4] {
                    let ps: Vec<Point2> = pts.iter().map(|p| Point2::from(p.coords * u)).collect();
                    if let Ok(c) = Curve2::from_points(&ps, 1e-9 * u, case.force_closed) {
                        let qs: Vec<Point2> = grid2(-1.0, 3.0, 0.5).iter().map(|q| Point2::from(q.coords * u)).collect();
                        l.bucket("curve at another length unit");
                        judge_curve2(&c, &qs, 1e-9 * u, case, l);
                    }
                }
            }
            // the same vertices as a curve with a coarse tolerance (0.05), queried from points whose
            // projections land a little way (0.01 .. 0.04) from the vertices: the tolerance is a length for
            // merging vertices and has no say in where a closest point is reported
            if case.verts.len() <= 3 {
                if let Ok(c) = Curve2::from_points(&pts, 0.05, case.force_closed) {
                    let mut qs = Vec::new();
                    for p in pts.iter() {
                        for (dx, dy) in [(0.01, 0.4), (0.4, 0.03), (-0.04, -0.3), (-0.3, -0.02), (0.02, 0.02)] {
                            qs.push(Point2::new(p.x + dx, p.y + dy));
                        }
                    }
                    l.bucket("curve with a coarse tolerance, queries projecting next to vertices");
                    judge_curve2(&c, &qs, 1e-9, case, l);
                }
            }
        }
        "curve3" => {
            let pts: Vec<Point3> = case.verts.iter().map(|c| gen::p3([c[0], c[1], c[2]], 1.0)).collect();
            if let Ok(c) = Curve3::from_points(&pts, 1e-9) {
                l.distinct(hash_of(&serde_json::to_string(case).unwrap()));
                let mut qs = Vec::new();
                let g = [-1.0, 0.0, 0.5, 1.0, 1.5, 2.0, 3.0];
                for x in g {
                    for y in g {
                        for z in g {
                            qs.push(Point3::new(x, y, z));
                        }
                    }
                }
                judge_curve3(&c, &qs, 1e-9, case, l);
                if case.verts.len() <= 2 {
                    for u in [1e-6, 1e4] {
                        let ps: Vec<Point3> = pts.iter().map(|p| Point3::from(p.coords * u)).collect();
                        if let Ok(cu) = Curve3::from_points(&ps, 1e-9 * u) {
                            let qu: Vec<Point3> = qs.iter().step_by(3).map(|q| Point3::from(q.coords * u)).collect();
                            l.bucket("curve at another length unit");
                            judge_curve3(&cu, &qu, 1e-9 * u, case, l);
                        }
                    }
                }
            }
        }
        "large2" => {
            let pts = gen::large_polyline(&case.family, case.size);
            if let Ok(c) = Curve2::from_points(&pts, 1e-9, false) {
                l.distinct(hash_of(&serde_json::to_string(case).unwrap()));
                l.bucket("structured large polyline");
                l.sample(|| serde_json::to_value(case).unwrap());
                let mut qs = grid2(-5.0, 5.0, 10.0 / if case.fine { 39.0 } else { 19.0 });
                if case.family == "longthin" {
                    qs.extend(grid2(-520.0, 520.0, 1040.0 / 9.0));
                }
                // on-entity queries
                for i in (0..pts.len()).step_by((pts.len() / 8).max(1)) {
                    qs.push(pts[i]);
                }
                judge_curve2(&c, &qs, 1e-9 * 1000.0, case, l);
            }
        }
        "closed2" => {
            // closed polygons of 5..16 inexact vertices (more than one leaf of the search tree), closed exactly,
            // by the constructor, or only within the tolerance; queried outside every vertex (the seam included)
            let k = case.size;
            let mut pts: Vec<Point2> = (0..k)
                .map(|i| {
                    let t = std::f64::consts::TAU * i as f64 / k as f64 + 0.2;
                    let r = 1.0 + 0.25 * ((2 * i) as f64).sin();
                    Point2::new(2.0 * r * t.cos() + 0.4, r * t.sin() - 0.3)
                })
                .collect();
            let (tol, fc) = match case.family.as_str() {
                "exact" => {
                    pts.push(pts[0]);
                    (1e-9, false)
                }
                "tolerance" => {
                    pts.push(pts[0] + engeom::Vector2::new(0.6, -0.8) * 4e-4);
                    (1e-3, false)
                }
                _ => (1e-9, true),
            };
            if let Ok(c) = Curve2::from_points(&pts, tol, fc) {
                l.distinct(hash_of(&serde_json::to_string(case).unwrap()));
                l.bucket(if c.is_closed() { "closed polygon queried outside its vertices" } else { "polygon that did not come out closed" });
                let cen = pts.iter().fold(engeom::Vector2::zeros(), |a, p| a + p.coords) / pts.len() as f64;
                let mut qs = Vec::new();
                for p in pts.iter() {
                    let out = (p.coords - cen).normalize();
                    for h in [0.0, 1e-6, 0.05, 0.7] {
                        qs.push(p + out * h);
                    }
                }
                qs.extend(grid2(-3.0, 3.0, 0.75));
                judge_curve2(&c, &qs, if tol > 1e-6 { 1e-9 } else { 1e-9 }, case, l);
            }
        }
        "heightfield" => {
            let bits = case.size as u32 / 2;
            let diag = case.size as u32 % 2;
            let (v, f) = height_field(bits, diag);
            l.distinct(hash_of(&serde_json::to_string(case).unwrap()));
            l.bucket("non-solid mesh with inside queries");
            l.sample(|| serde_json::to_value(case).unwrap());
            let mut qs = Vec::new();
            let gx = [-0.5, 0.5, 1.0, 1.5, 2.5];
            let gz = [-1.0, 0.0, 0.5, 1.0, 2.0];
            for x in gx {
                for y in gx {
                    for z in gz {
                        qs.push(Point3::new(x, y, z));
                    }
                }
            }
            judge_mesh(&v, &f, false, &qs, case, l);
        }
        "meshunit" => {
            // the same height field and queries in microns and tens of kilometres: distances scale with the unit,
            // closest points scale with it (where the minimiser is unique), caps and angle limits accept the same
            let bits = case.size as u32 / 2;
            let diag = case.size as u32 % 2;
            let (v, f) = height_field(bits, diag);
            let m1 = Mesh::new(v.clone(), f.clone(), false);
            l.distinct(hash_of(&serde_json::to_string(case).unwrap()));
            let mk = || serde_json::to_value(case).unwrap();
            let gx = [-0.5, 0.5, 1.0, 1.5, 2.5];
            let gz = [-1.0, 0.0, 0.5, 1.0, 2.0];
            for u in [1e-6, 1e4] {
                let vu: Vec<Point3> = v.iter().map(|p| Point3::from(p.coords * u)).collect();
                let mu = Mesh::new(vu, f.clone(), false);
                for x in gx {
                    for y in gx {
                        for z in gz {
                            let q = Point3::new(x + 0.013, y - 0.007, z + 0.004);
                            let qu = Point3::from(q.coords * u);
                            l.eval();
                            l.bucket("mesh queried at another length unit");
                            let (p1, pu) = (m1.point_closest_to(&q), mu.point_closest_to(&qu));
                            let (d1, du) = (d3(&p1, &q), d3(&pu, &qu));
                            l.check("mesh: the closest distance scales with the length unit", "", (du - d1 * u).abs() <= 1e-9 * u * (1.0 + d1), mk, || format!("unit {:e} q {:?}: {} against {} at unit 1", u, q, du / u, d1));
                            for cap in [0.25, 1.0, 1.4142135623730951] {
                                if (d1 - cap).abs() < 1e-6 {
                                    continue;
                                }
                                let (a, b) = (m1.project_with_max_dist(&q, cap).is_some(), mu.project_with_max_dist(&qu, cap * u).is_some());
                                l.check("mesh: a distance cap given in another unit accepts the same queries", "", a == b, mk, || format!("unit {:e} q {:?} cap {}: {} against {} at unit 1 (distance {})", u, q, cap, b, a, d1));
                                for ang in [0.2, 0.7853981633974483, 1.5] {
                                    let (a, b) = (m1.project_with_tol(&q, cap, ang, None), mu.project_with_tol(&qu, cap * u, ang, None));
                                    // acceptance on the boundary of the angle limit may fall either way
                                    let angle_of = |m: &Mesh, r: &Option<(parry3d_f64::query::PointProjection, u32, parry3d_f64::shape::TrianglePointLocation)>, qq: &Point3| -> Option<f64> {
                                        r.as_ref().and_then(|(pp, id, _)| m.tri_mesh().triangle(*id).normal().map(|n| n.angle(&(qq - pp.point))))
                                    };
                                    let an = angle_of(&m1, &a, &q).or(angle_of(&mu, &b, &qu));
                                    let near = an.map(|x| (x - ang).abs() < 1e-6 || (x - (std::f64::consts::PI - ang)).abs() < 1e-6).unwrap_or(false);
                                    // where the closest point lies on an edge or a vertex the face whose normal is
                                    // used is a tie that either unit may break differently
                                    use parry3d_f64::query::PointQueryWithLocation;
                                    let on_face = matches!(m1.tri_mesh().project_local_point_and_get_location(&q, false).1 .1, parry3d_f64::shape::TrianglePointLocation::OnFace(..));
                                    if a.is_some() != b.is_some() && (near || !on_face) {
                                        l.gray("unit change on the boundary of the angle limit or with several nearest faces");
                                    } else {
                                        l.check("mesh: the angle-filtered projection given in another unit accepts the same queries", "", a.is_some() == b.is_some(), mk, || format!("unit {:e} q {:?} cap {} angle {}: {} against {} at unit 1", u, q, cap, ang, b.is_some(), a.is_some()));
                                    }
                                }
                            }
                        }
                    }
                }
            }
        }
        "bigmesh" => {
            // many-element meshes that change the shape of the bounding-volume tree
            let (v, f): (Vec<Point3>, Vec<[u32; 3]>) = match case.family.as_str() {
                "sphere3" => {
                    let (v, f, _, _) = crate::props::c13::build("sphere2");
                    // one more subdivision by hand would need the generator; sphere2 has 128 faces
                    (v, f)
                }
                "torus" => {
                    let (v, f, _, _) = crate::props::c13::build("torus");
                    (v, f)
                }
                "nested" => {
                    // a box with a box-shaped cavity: two nested closed surfaces in one mesh
                    let (v, f, _, _) = crate::props::c13::build("hollow");
                    (v, f)
                }
                "twosheets" => {
                    // two nearly coincident sheets (a micron apart), the upper one with the other diagonals
                    let n = 5usize;
                    let mut v = Vec::new();
                    for layer in 0..2 {
                        for j in 0..=n {
                            for i in 0..=n {
                                v.push(Point3::new(i as f64 * 0.6, j as f64 * 0.6, 0.3 * ((i * 3 + j * 5) % 4) as f64 / 3.0 + 1e-6 * layer as f64));
                            }
                        }
                    }
                    let mut f = Vec::new();
                    for layer in 0..2u32 {
                        let off = layer * ((n + 1) * (n + 1)) as u32;
                        for j in 0..n {
                            for i in 0..n {
                                let a = (j * (n + 1) + i) as u32 + off;
                                let (b, c) = (a + 1, a + n as u32 + 1);
                                let d = c + 1;
                                if (i + j + layer as usize) % 2 == 0 {
                                    f.push([a, b, d]);
                                    f.push([a, d, c]);
                                } else {
                                    f.push([a, b, c]);
                                    f.push([b, d, c]);
                                }
                            }
                        }
                    }
                    (v, f)
                }
                _ => {
                    let n = case.size.max(2);
                    let mut v = Vec::new();
                    for j in 0..=n {
                        for i in 0..=n {
                            v.push(Point3::new(i as f64 * 3.0 / n as f64, j as f64 * 3.0 / n as f64, 0.4 * ((i * 7 + j * 3) % 5) as f64 / 4.0));
                        }
                    }
                    let mut f = Vec::new();
                    for j in 0..n {
                        for i in 0..n {
                            let a = (j * (n + 1) + i) as u32;
                            let (b, c) = (a + 1, a + n as u32 + 1);
                            let d = c + 1;
                            if (i + j) % 2 == 0 {
                                f.push([a, b, d]);
                                f.push([a, d, c]);
                            } else {
                                f.push([a, b, c]);
                                f.push([b, d, c]);
                            }
                        }
                    }
                    (v, f)
                }
            };
            l.distinct(hash_of(&serde_json::to_string(case).unwrap()));
            l.bucket("many-element mesh");
            let mut qs = Vec::new();
            let g = [-1.2, -0.4, 0.1, 0.6, 1.1, 1.9, 2.7, 3.4];
            for x in g {
                for y in g {
                    for z in [-1.0, -0.2, 0.15, 0.6, 1.4] {
                        qs.push(Point3::new(x, y, z));
                    }
                }
            }
            judge_mesh(&v, &f, false, &qs, case, l);
        }
        "solid" => {
            let (v, f) = solid(&case.family);
            l.distinct(hash_of(&serde_json::to_string(case).unwrap()));
            l.bucket(if case.force_closed { "mesh flagged solid, outside queries" } else { "non-solid mesh with inside queries" });
            let mut qs = Vec::new();
            let g = [-1.5, -0.5, 0.0, 0.3, 0.5, 1.0, 1.7, 2.5, 3.5];
            for x in g {
                for y in g {
                    for z in g {
                        qs.push(Point3::new(x, y, z));
                    }
                }
            }
            judge_mesh(&v, &f, case.force_closed, &qs, case, l);
        }
        _ => {}
    }
}

pub fn cases(tier: Tier) -> Vec<Case> {
    let mut out = Vec::new();
    let fine = tier == Tier::Thorough;
    let lat2 = gen::lattice2(3);
    for s in gen::seqs(lat2.len(), 2, tier.pick(4, 5)) {
        for fc in [false, true] {
            out.push(Case { kind: "curve2".into(), verts: s.iter().map(|i| lat2[*i].to_vec()).collect(), force_closed: fc, family: String::new(), size: 0, fine });
        }
    }
    let lat3 = gen::lattice3(3);
    for s in gen::seqs(lat3.len(), 2, 3) {
        out.push(Case { kind: "curve3".into(), verts: s.iter().map(|i| lat3[*i].to_vec()).collect(), force_closed: false, family: String::new(), size: 0, fine });
    }
    for fam in gen::LARGE_FAMILIES {
        for n in gen::LARGE_SIZES {
            out.push(Case { kind: "large2".into(), verts: vec![], force_closed: false, family: fam.into(), size: n, fine });
        }
    }
    for k in 5..=16usize {
        for fam in ["exact", "forced", "tolerance"] {
            out.push(Case { kind: "closed2".into(), verts: vec![], force_closed: false, family: fam.into(), size: k, fine });
        }
    }
    for k in 0..1024usize {
        out.push(Case { kind: "heightfield".into(), verts: vec![], force_closed: false, family: String::new(), size: k, fine });
    }
    for k in (0..1024usize).step_by(if fine { 8 } else { 32 }) {
        out.push(Case { kind: "meshunit".into(), verts: vec![], force_closed: false, family: String::new(), size: k + (k / 32) % 2, fine });
    }
    for (fam, size) in [("sphere3", 0usize), ("torus", 0), ("grid", 6), ("grid", 13), ("grid", 24), ("nested", 0), ("twosheets", 0)] {
        out.push(Case { kind: "bigmesh".into(), verts: vec![], force_closed: false, family: fam.into(), size, fine });
    }
    // an open mesh with a zero-area face (never flagged solid)
    out.push(Case { kind: "solid".into(), verts: vec![], force_closed: false, family: "degenerate".into(), size: 0, fine });
    for fam in ["tetrahedron", "octahedron", "prism", "box"] {
        for sol in [false, true] {
            out.push(Case { kind: "solid".into(), verts: vec![], force_closed: sol, family: fam.into(), size: 0, fine });
            out.push(Case { kind: "solid".into(), verts: vec![], force_closed: sol, family: fam.into(), size: 7, fine });
        }
    }
    out
}

pub fn run(tier: Tier) -> i32 {
    let mut cx = Ctx::new("C02", tier, "exploration");
    cx.rule = "every 2D lattice curve with <= 4 vertices (open/force-closed) x the half-integer query grid; 3D lattice curves x a 7^3 grid; 7 structured large polyline families x 15 sizes (5..5000 edges: every QBVH occupancy and depth) x grid + on-entity queries; all 512 height fields over a 3x3 grid x 2 diagonal patterns and 4 solids (non-solid with inside queries, flagged solid with outside queries) x query grid x 4 caps x 3 angle limits; many-element meshes incl. a box with a cavity (nested surfaces) and two sheets a micron apart; every 32nd (thorough: 8th) height field also in microns and tens of kilometres (distances, caps and angle limits must scale); reference model: brute force over every edge / face. distinct = distinct entities".into();
    cx.bounds = json!({"curve2_seq_len": tier.pick(4, 5), "curve3_seq_len": 3, "query_grid_step": tier.pick(0.5, 0.25), "large_sizes": gen::LARGE_SIZES, "caps": [0.25, 1.0, 1.4142135623730951, 10.0], "angles": [0.2, 0.7853981633974483, 1.5]});
    cx.require(&["many-element mesh", "query within 1e-3 of the surface", "query on the entity", "query equidistant from several elements", "query with a unique nearest element", "structured large polyline", "non-solid mesh with inside queries", "mesh flagged solid, outside queries", "mesh queried before being moved into place", "curve with a coarse tolerance, queries projecting next to vertices", "closed polygon queried outside its vertices", "curve at another length unit", "mesh queried at another length unit", "index filter over a list of more than a thousand points"]);
    cx.assume("ties: any minimiser accepted; gray: distance within 1e-9 of the cap, zero offset (angle undefined), angle within 1e-9 of the acceptance boundary");
    cx.assume("inside queries are made on non-solid meshes only, as the quantifier says (is_solid has no effect on Mesh::new meshes)");
    let cs = cases(tier);
    let l = sweep(&cs, judge);
    cx.absorb(l);
    cx.finish()
}

pub fn replay(case: &Val) -> Local {
    let c: Case = serde_json::from_value(case.clone()).expect("case");
    let mut l = Local::new();
    judge(&c, &mut l);
    l
}
