//! C09 — least-squares fits are optimal.
use crate::engine::*;
use crate::refmodel::d2;
use engeom::common::BestFit;
use engeom::func1::{Func1, Polynomial};
use engeom::geom2::verif_observe_circle_fit;
use engeom::{Circle2, Point2, Series1};
use parry3d_f64::na::DMatrix;
use serde::{Deserialize, Serialize};
use serde_json::json;

#[derive(Serialize, Deserialize, Clone, Debug)]
pub struct Case {
    /// poly | ortho | circle | circle_hist | three | ransac
    pub kind: String,
    pub k: usize,
    pub a: usize,
    pub b: usize,
    pub c: usize,
    pub d: usize,
}

fn xsets() -> Vec<Vec<f64>> {
    vec![
        vec![-1.0, -0.6, -0.1, 0.2, 0.5, 0.7, 1.0, 1.3, 1.35],
        vec![0.0, 0.3, 0.5, 1.1, 1.6, 2.0, 2.2, 2.3, 2.9],
        vec![-1.0, -0.9, -0.85, 0.1, 0.9, 0.95, 1.0, 1.05, 1.5],
        vec![1.0, 1.4, 1.9, 2.2, 2.6, 3.0, 3.1, 3.3, 3.35],
        vec![-2.0, -1.0, 0.0, 1.0, 2.0, 3.0, 4.0, 5.0, 6.0],
    ]
}

fn weights(which: usize, n: usize) -> Option<Vec<f64>> {
    match which {
        0 => None,
        1 => Some(vec![1.0; n]),
        2 => Some((0..n).map(|i| [0.5, 1.0, 2.0, 3.0][i % 4]).collect()),
        3 => Some((0..n).map(|i| 3.0 * [0.5, 1.0, 2.0, 3.0][i % 4]).collect()),
        _ => Some((0..n).map(|i| 0.1 + i as f64).collect()),
    }
}

const COEF: [f64; 5] = [-2.0, -1.0, 0.0, 1.0, 3.0];

fn poly_case<const K: usize>(case: &Case, l: &mut Local) {
    let mk = || serde_json::to_value(case).unwrap();
    let xs_full = &xsets()[case.a];
    let take = [K, K + 1, K + 3][case.b].min(xs_full.len());
    // the last set is replaced by a symmetric one of the requested size (vanishing odd moments)
    let sym: Vec<f64> = (0..take).map(|i| i as f64 - (take as f64 - 1.0) / 2.0).collect();
    let xs: &[f64] = if case.a == 4 { &sym } else { &xs_full[..take] };
    let ws = weights(case.c, take);
    let mut cs = [0.0; K];
    let mut code = case.d;
    for c in cs.iter_mut() {
        *c = COEF[code % 5];
        code /= 5;
    }
    let truth = Polynomial::<K>::new(cs);
    let ys: Vec<f64> = xs.iter().map(|x| truth.f(*x)).collect();
    // condition number of the weighted normal matrix
    let mut m = DMatrix::<f64>::zeros(K, K);
    for r in 0..K {
        for c in 0..K {
            m[(r, c)] = xs.iter().enumerate().map(|(i, x)| ws.as_ref().map(|w| w[i]).unwrap_or(1.0) * x.powi((r + c) as i32)).sum();
        }
    }
    let sv = m.clone().svd(false, false).singular_values;
    let cond = sv[0] / sv[K - 1];
    l.eval();
    if !(cond < 1e8) {
        l.gray("normal matrix with condition number above 1e8");
        return;
    }
    let kth_moment: f64 = xs.iter().map(|x| x.powi(K as i32)).sum();
    l.bucket(if kth_moment.abs() > 1e-9 { "abscissae with a non-zero moment of order K" } else { "abscissae with a vanishing moment of order K" });
    l.bucket(if ws.is_some() { "weighted" } else { "unweighted" });
    let fit = match guarded(|| Polynomial::<K>::least_squares(xs, &ys, ws.as_deref())) {
        Ok(f) => f,
        Err(e) => {
            l.check("polynomial fit returns", "panic", false, mk, || format!("K {} xs {:?}: {}", K, xs, e));
            return;
        }
    };
    let scale = cs.iter().fold(1.0f64, |a, b| a.max(b.abs()));
    let tol = (1e5 * cond * f64::EPSILON * scale).max(1e-12);
    let err = (0..K).map(|i| (fit.c[i] - cs[i]).abs()).fold(0.0, f64::max);
    l.outcome(hash_of(&(K, case.a, err <= tol)));
    l.check("exact samples of a polynomial are fitted by that polynomial", "", err <= tol, mk, || {
        format!("K {} xs {:?} w {:?} c {:?} -> {:?} (cond {:e}, tol {:e})", K, xs, ws, cs, fit.c, cond, tol)
    });
    // uniform scaling of the weights changes nothing, unit weights equal no weights
    if case.c == 2 {
        let f3 = Polynomial::<K>::least_squares(xs, &ys, weights(3, take).as_deref());
        let diff = (0..K).map(|i| (fit.c[i] - f3.c[i]).abs()).fold(0.0, f64::max);
        l.check("uniformly scaling the weights changes nothing", "", diff <= tol, mk, || format!("difference {:e}", diff));
    }
    // the weighted optimum does not depend on the unit of the weights (inverse variances of 1e-12, counts of 1e9)
    if let Some(w) = ws.as_ref() {
        for unit in [1e-12, 1e9] {
            let scaled: Vec<f64> = w.iter().map(|x| x * unit).collect();
            match guarded(|| Polynomial::<K>::least_squares(xs, &ys, Some(&scaled[..]))) {
                Ok(fu) => {
                    let diff = (0..K).map(|i| (fit.c[i] - fu.c[i]).abs()).fold(0.0, f64::max);
                    l.check("uniformly scaling the weights changes nothing", "unit", diff <= tol, mk, || format!("weights times {:e}: difference {:e}", unit, diff));
                }
                Err(e) => {
                    l.check("polynomial fit returns", "panic", false, mk, || format!("weights times {:e}: {}", unit, e));
                }
            }
        }
        // weights of very different sizes: every sample still counts (the fit of exact samples is that polynomial)
        let mixed: Vec<f64> = w.iter().enumerate().map(|(i, x)| if i % 2 == 0 { x * 1e-11 } else { x * 1e-9 }).collect();
        if let Ok(fm) = guarded(|| Polynomial::<K>::least_squares(xs, &ys, Some(&mixed[..]))) {
            let errm = (0..K).map(|i| (fm.c[i] - cs[i]).abs()).fold(0.0, f64::max);
            if take > K {
                l.check("exact samples of a polynomial are fitted by that polynomial", "mixed small weights", errm <= tol * 1e3, mk, || format!("weights {:?}: {:?} against {:?}", mixed, fm.c, cs));
            }
        }
    }
    if case.c == 1 {
        let f0 = Polynomial::<K>::least_squares(xs, &ys, None);
        let diff = (0..K).map(|i| (fit.c[i] - f0.c[i]).abs()).fold(0.0, f64::max);
        l.check("unit weights equal the unweighted fit", "", diff <= tol, mk, || format!("difference {:e}", diff));
    }
}

fn ortho_case<const K: usize>(case: &Case, l: &mut Local) {
    let mk = || serde_json::to_value(case).unwrap();
    let xs = &xsets()[case.a][..K + 2];
    let n = xs.len();
    let ws = weights(case.c, n);
    let mut ys = vec![0.0; n];
    let mut code = case.d;
    for y in ys.iter_mut() {
        *y = [-1.0, 0.0, 2.0][code % 3];
        code /= 3;
    }
    l.eval();
    let mut m = DMatrix::<f64>::zeros(K, K);
    for r in 0..K {
        for c in 0..K {
            m[(r, c)] = xs.iter().enumerate().map(|(i, x)| ws.as_ref().map(|w| w[i]).unwrap_or(1.0) * x.powi((r + c) as i32)).sum();
        }
    }
    let sv = m.clone().svd(false, false).singular_values;
    let cond = sv[0] / sv[K - 1];
    if !(cond < 1e8) {
        l.gray("normal matrix with condition number above 1e8");
        return;
    }
    // the routine inverts the normal matrix explicitly: coefficient error ~ cond * eps, moment error ~ |M| times that
    let tol = (1e3 * cond * f64::EPSILON * sv[0] * 3.0).max(1e-9);
    l.bucket("arbitrary data");
    let fit = match guarded(|| Polynomial::<K>::least_squares(xs, &ys, ws.as_deref())) {
        Ok(f) => f,
        Err(e) => {
            l.check("polynomial fit returns", "panic", false, mk, || e.clone());
            return;
        }
    };
    let mut worst = 0.0f64;
    for k in 0..K {
        let s: f64 = (0..n).map(|i| ws.as_ref().map(|w| w[i]).unwrap_or(1.0) * xs[i].powi(k as i32) * (ys[i] - fit.f(xs[i]))).sum();
        worst = worst.max(s.abs());
    }
    l.outcome(hash_of(&(K, worst <= tol)));
    l.check("residuals are orthogonal to every monomial column in the weighted inner product", "", worst <= tol, mk, || format!("K {} xs {:?} ys {:?} w {:?}: largest moment of the residual {:e} (tolerance {:e}, cond {:e})", K, xs, ys, ws, worst, tol, cond));
    if K == 2 && ws.is_none() {
        let sl = Series1::try_new(xs.to_vec(), ys.clone()).unwrap().best_fit_line();
        l.check("series best-fit line agrees with the degree-1 fit", "", (0..2).all(|i| (fit.f(i as f64) - sl.f(i as f64)).abs() <= 1e-9), mk, || {
            format!("ys {:?}: polynomial {:?}, series line f(0)={} f(1)={}", ys, fit.c, sl.f(0.0), sl.f(1.0))
        });
    }
}


/// Two observation vectors agree within 1e-9 (relative to their magnitude)
fn close_vec(a: &[f64], b: &[f64]) -> bool {
    a.len() == b.len() && a.iter().zip(b.iter()).all(|(x, y)| (x - y).abs() <= 1e-9 * (1.0 + x.abs().max(y.abs())))
}

const CENTRES: [(f64, f64); 3] = [(0.0, 0.0), (3.0, -2.0), (100.0, -50.0)];
const RADII: [f64; 3] = [0.5, 2.0, 10.0];
const EXTENTS: [f64; 4] = [60.0, 120.0, 200.0, 360.0];
const STARTS: [f64; 3] = [0.0, 1.0, 4.0];
const COUNTS: [usize; 3] = [5, 8, 20];
const GUESSES: [(f64, f64, f64); 5] = [(0.1, 0.0, 1.0), (-0.3, 0.2, 1.2), (0.2, -0.3, 0.8), (0.0, 0.0, 1.0), (-0.1, -0.1, 0.8)];

fn circle_points(case: &Case) -> (Vec<Point2>, f64, f64, f64) {
    let (cx, cy) = CENTRES[case.a % 3];
    let r = RADII[case.a / 3];
    let ext = EXTENTS[case.b % 4];
    let start = STARTS[case.b / 4];
    let n = COUNTS[case.c % 3];
    let full = ext >= 360.0;
    let pts = (0..n)
        .map(|i| {
            let a = start + ext.to_radians() * i as f64 / (n as f64 - if full { 0.0 } else { 1.0 });
            Point2::new(cx + r * a.cos(), cy + r * a.sin())
        })
        .collect();
    (pts, cx, cy, r)
}

fn circle_case(case: &Case, l: &mut Local) {
    let mk = || serde_json::to_value(case).unwrap();
    let (pts, cx, cy, r) = circle_points(case);
    let (gx, gy, gr) = GUESSES[case.d % 5];
    let mode = if case.d / 5 == 0 { BestFit::All } else { BestFit::Gaussian(2.0) };
    let guess = Circle2::new(cx + gx * r, cy + gy * r, r * gr);
    l.eval();
    l.bucket(if case.b % 4 == 3 { "full circle" } else { "partial arc" });
    match guarded(|| Circle2::fitting_circle(&pts, &guess, mode).map_err(|e| e.to_string())) {
        Err(e) => {
            l.check("circle fit returns", "panic", false, mk, || e.clone());
        }
        Ok(Err(e)) => {
            l.check("circle fit succeeds from a nearby guess", "", false, mk, || e.clone());
        }
        Ok(Ok(c)) => {
            let e = d2(&c.center, &Point2::new(cx, cy)).max((c.r() - r).abs());
            l.outcome(hash_of(&(case.b % 4, e <= 1e-6 * r)));
            l.check("circle fit recovers centre and radius from exact samples", "", e <= 1e-6 * r, mk, || format!("centre ({},{}) r {}: error {:e}", cx, cy, r, e));
        }
    }
    if case.d % 5 == 1 {
        // the smallest sample sets that determine a circle: three, four and five exact samples
        for k in [3usize, 4, 5] {
            l.eval();
            let few: Vec<Point2> = (0..k).map(|i| { let a = 0.4 + i as f64 * 1.9; Point2::new(cx + r * a.cos(), cy + r * a.sin()) }).collect();
            l.bucket("minimal sample set");
            match guarded(|| Circle2::fitting_circle(&few, &guess, mode).map_err(|e| e.to_string())) {
                Ok(Ok(c)) => {
                    let e = d2(&c.center, &Point2::new(cx, cy)).max((c.r() - r).abs());
                    l.check("circle fit recovers centre and radius from exact samples", "minimal sample set", e <= 1e-6 * r, mk, || format!("{} samples: error {:e}", k, e));
                }
                other => {
                    l.check("circle fit succeeds from a nearby guess", "minimal sample set", false, mk, || format!("{} samples: {:?}", k, other.map(|r| r.map(|c| c.r()))));
                }
            }
        }
    }
    if case.b % 4 == 3 && case.d % 5 == 0 {
        // samples whose distances from the centre are exactly equal in floating point (integer Pythagorean
        // points) and a guess that is concentric with them: all residuals coincide, their spread is exactly zero
        l.eval();
        let k = [1.0, 13.0][case.a % 2];
        let (ox, oy) = ([0.0, 40.0][case.c % 2], [0.0, -30.0][case.c % 2]);
        let mut ring = Vec::new();
        for (x, y) in [(3.0, 4.0), (4.0, 3.0), (5.0, 0.0), (0.0, 5.0)] {
            for (sx, sy) in [(1.0, 1.0), (-1.0, 1.0), (1.0, -1.0), (-1.0, -1.0)] {
                let q = Point2::new(ox + k * x * sx, oy + k * y * sy);
                if !ring.iter().any(|r: &Point2| *r == q) {
                    ring.push(q);
                }
            }
        }
        for gr in [0.9, 1.2] {
            let concentric = Circle2::new(ox, oy, 5.0 * k * gr);
            l.bucket("exactly equidistant samples, concentric guess");
            match guarded(|| Circle2::fitting_circle(&ring, &concentric, mode).map_err(|e| e.to_string())) {
                Ok(Ok(c)) => {
                    let e = d2(&c.center, &Point2::new(ox, oy)).max((c.r() - 5.0 * k).abs());
                    l.check("circle fit recovers centre and radius from exact samples", "concentric guess", e <= 1e-6 * 5.0 * k, mk, || format!("centre ({},{}) r {} from a concentric guess of radius {}: got r {} (error {:e})", ox, oy, 5.0 * k, 5.0 * k * gr, c.r(), e));
                }
                other => {
                    l.check("circle fit succeeds from a nearby guess", "concentric guess", false, mk, || format!("{:?}", other.map(|r| r.map(|c| c.r()))));
                }
            }
        }
    }
    if case.d == 0 {
        // deterministic perturbation: the result must be a stationary point of the summed squared radial residuals
        l.eval();
        let pert: Vec<Point2> = pts
            .iter()
            .enumerate()
            .map(|(i, p)| {
                let s = [0.01, -0.02, 0.015, -0.005, 0.0][i % 5] * r;
                let d = (p - Point2::new(cx, cy)).normalize();
                p + d * s
            })
            .collect();
        match guarded(|| Circle2::fitting_circle(&pert, &Circle2::new(cx, cy, r), BestFit::All).map_err(|e| e.to_string())) {
            Ok(Ok(c)) => {
                let mut g = [0.0; 3];
                for p in pert.iter() {
                    let v = p - c.center;
                    let d = v.norm();
                    let res = d - c.r();
                    g[0] += -res * v.x / d;
                    g[1] += -res * v.y / d;
                    g[2] += -res;
                }
                let gn = g.iter().fold(0.0f64, |a, b| a.max(b.abs()));
                l.bucket("perturbed samples");
                l.check("circle fit stops at a stationary point of the summed squared radial residuals", "", gn <= 1e-6 * r, mk, || format!("gradient {:?}", g));
            }
            other => {
                l.check("circle fit succeeds on slightly perturbed samples", "", false, mk, || format!("{:?}", other.map(|r| r.map(|c| c.r()))));
            }
        }
    }
}

/// History independence of the private CircleFit problem (cached weights / residuals)
fn circle_hist_case(case: &Case, l: &mut Local) {
    let mk = || serde_json::to_value(case).unwrap();
    let (pts, cx, cy, r) = circle_points(case);
    let mode = if case.d == 0 { BestFit::All } else { BestFit::Gaussian(2.0) };
    let initial = Circle2::new(cx + 0.1 * r, cy, r * 1.1);
    let alphabet: Vec<[f64; 3]> = vec![
        [cx + 0.1 * r, cy, r * 1.1],
        [cx, cy, r],
        [cx + 0.01 * r, cy - 0.02 * r, r * 0.99],
        [cx + 0.5 * r, cy + 0.4 * r, r * 1.5],
        [cx - r, cy + r, r * 0.4],
    ];
    let m = alphabet.len();
    // all histories of length <= 3
    let mut histories: Vec<Vec<usize>> = vec![vec![]];
    for a in 0..m {
        histories.push(vec![a]);
        for b in 0..m {
            histories.push(vec![a, b]);
            for c in 0..m {
                histories.push(vec![a, b, c]);
            }
        }
    }
    for h in histories {
        l.eval();
        l.transitions += h.len() as u64;
        l.states += 1;
        l.traces += 1;
        let hist: Vec<[f64; 3]> = h.iter().map(|i| alphabet[*i]).collect();
        let got = guarded(|| verif_observe_circle_fit(&pts, &initial, mode, &hist));
        let last: Vec<[f64; 3]> = hist.last().map(|x| vec![*x]).unwrap_or_default();
        // the fresh problem is also *constructed* at the last parameters, so nothing computed at the
        // other initial guess (residual cache, rejection weights) can leak into the comparison
        let fresh_initial = last.first().map(|x| Circle2::new(x[0], x[1], x[2])).unwrap_or(initial);
        let fresh = guarded(|| verif_observe_circle_fit(&pts, &fresh_initial, mode, &last));
        match (got, fresh) {
            (Ok(a), Ok(b)) => {
                let same = close_vec(&a.0, &b.0) && close_vec(&a.1, &b.1) && close_vec(&a.2, &b.2) && (a.3.center - b.3.center).norm() <= 1e-9 * (1.0 + a.3.r()) && (a.3.r() - b.3.r()).abs() <= 1e-9 * (1.0 + a.3.r());
                l.outcome(hash_of(&(h.len(), same)));
                l.bucket("set_params history");
                l.check("the fit problem's observations depend only on the last parameters set", "", same, mk, || format!("history {:?}: residuals {:?} vs fresh {:?}", h, a.1, b.1));
                // params equal what was set, circle equals params
                if let Some(x) = hist.last() {
                    let ok = close_vec(&a.0, x) && close_vec(&[a.3.center.x, a.3.center.y, a.3.r()], x);
                    l.check("parameters and circle equal the last parameters set", "", ok, mk, || format!("{:?} vs {:?}", a.0, x));
                }
            }
            (a, b) => {
                l.check("the fit problem observers return", "panic", false, mk, || format!("{:?} {:?}", a.err(), b.err()));
            }
        }
    }
}

fn three_case(case: &Case, l: &mut Local) {
    let mk = || serde_json::to_value(case).unwrap();
    let lat = |i: usize, s: f64| Point2::new((i % 4) as f64 * s, (i / 4) as f64 * s);
    const SCALES: [f64; 6] = [1.0, 1e-2, 37.5, 1e-3, 1e-5, 1e4];
    let s = SCALES[case.d % SCALES.len()];
    let (a, b, c) = (lat(case.a, s), lat(case.b, s), lat(case.c, s));
    // collinearity is decided on the integer lattice indices, exactly
    let li = |i: usize| ((i % 4) as i64, (i / 4) as i64);
    let (ia, ib, ic) = (li(case.a), li(case.b), li(case.c));
    let det = (ia.0 - ib.0) * (ib.1 - ic.1) - (ib.0 - ic.0) * (ia.1 - ib.1);
    let coincident = ia == ib || ib == ic || ia == ic;
    l.eval();
    let r = guarded(|| Circle2::from_3_points(a, b, c));
    if s < 0.01 {
        l.bucket("triple with coordinates below 0.01");
    }
    match r {
        Err(m) => {
            l.check("three-point circle returns", "panic", false, mk, || m.clone());
        }
        Ok(Ok(ci)) => {
            l.outcome(hash_of(&(true, det == 0)));
            if det == 0 {
                l.bucket("collinear triple");
                l.check("collinear points are rejected", "", false, mk, || format!("{:?} {:?} {:?}", a, b, c));
            } else {
                l.bucket("non-collinear triple");
                let worst = [a, b, c].iter().map(|p| ci.distance_to(p).abs()).fold(0.0, f64::max);
                l.check("the three-point circle passes through its three points", "", worst <= 1e-9 * (s + ci.r()), mk, || format!("off by {:e}", worst));
            }
        }
        Ok(Err(_)) => {
            l.outcome(hash_of(&(false, det == 0)));
            if det == 0 || coincident {
                l.bucket("collinear triple");
                l.check("collinear points are rejected", "", true, mk, String::new);
            } else {
                // whatever the size of the triangle: the lattice angles are never below 18 degrees
                l.bucket("non-collinear triple");
                l.check("non-collinear points give a circle", "", false, mk, || format!("{:?} {:?} {:?} (lattice determinant {}, scale {})", a, b, c, det, s));
            }
        }
    }
}

fn ransac_case(case: &Case, l: &mut Local) {
    let mk = || serde_json::to_value(case).unwrap();
    let (cx, cy, r) = [(0.0, 0.0, 2.0), (5.0, -3.0, 1.0), (-40.0, 20.0, 7.5)][case.a % 3];
    let nin = [8usize, 15, 30][case.b % 3];
    let nout = [0usize, 3, 6, 10][case.c % 4];
    let mut pts: Vec<Point2> = (0..nin)
        .map(|i| {
            let a = 0.3 + std::f64::consts::TAU * i as f64 / nin as f64;
            Point2::new(cx + r * a.cos(), cy + r * a.sin())
        })
        .collect();
    for j in 0..nout {
        pts.push(Point2::new(cx + (j as f64 - 2.0) * 0.9 * r / 2.0, cy + (((j * 7) % 5) as f64 * 0.6 - 1.0) * r / 2.0));
    }
    l.eval();
    l.bucket("contaminated circle");
    let tol = 1e-3 * r;
    let gen = Circle2::new(cx, cy, r);
    let inl = |c: &Circle2| pts.iter().filter(|p| c.distance_to(p).abs() < tol).count();
    match guarded(|| Circle2::ransac(&pts, tol, Some(500), None, None).map_err(|e| e.to_string())) {
        Ok(Ok(c)) => {
            l.outcome(hash_of(&(nout, inl(&c))));
            l.check("the RANSAC circle has at least as many inliers as the generating circle", "", inl(&c) >= inl(&gen), mk, || format!("{} < {}", inl(&c), inl(&gen)));
        }
        other => {
            l.check("RANSAC returns a circle", "", false, mk, || format!("{:?}", other.map(|r| r.map(|c| c.r()))));
        }
    }
    // contamination that is itself a circle with MORE points than the generating one, but outside the radius limits
    for (ro, lo, hi) in [(6.0 * r, None, Some(2.0 * r)), (0.4 * r, Some(0.7 * r), None)] {
        l.eval();
        let nbig = 2 * nin;
        let mut both: Vec<Point2> = Vec::new();
        for i in 0..nbig {
            let a = 0.11 + std::f64::consts::TAU * i as f64 / nbig as f64;
            both.push(Point2::new(cx + 0.3 * r + ro * a.cos(), cy - 0.2 * r + ro * a.sin()));
            if i % 2 == 0 {
                both.push(pts[i / 2]);
            }
        }
        l.bucket("RANSAC against a better supported circle outside the radius limits");
        let inl2 = |c: &Circle2| both.iter().filter(|p| c.distance_to(p).abs() < tol).count();
        match guarded(|| Circle2::ransac(&both, tol, Some(500), lo, hi).map_err(|e| e.to_string())) {
            Ok(Ok(c)) => {
                let within = lo.map(|x| c.r() >= x).unwrap_or(true) && hi.map(|x| c.r() <= x).unwrap_or(true);
                l.check("the RANSAC circle has at least as many inliers as the generating circle", "competing circle outside the limits", within && inl2(&c) >= inl2(&gen), mk, || format!("limits {:?}..{:?}: r {} with {} inliers against {} on the generating circle", lo, hi, c.r(), inl2(&c), inl2(&gen)));
            }
            other => {
                l.check("RANSAC returns a circle", "competing circle outside the limits", false, mk, || format!("limits {:?}..{:?}: {:?}", lo, hi, other.map(|r| r.map(|c| c.r()))));
            }
        }
    }
    // the exactly determined case, and orders in which only a triple containing the last point can succeed
    {
        let (a, b, c) = (pts[0], pts[nin / 3], pts[2 * nin / 3]);
        for (what, set) in [("three points", vec![a, b, c]), ("repeated leading point", vec![a, a, a, b, c]), ("collinear leading points", vec![a, Point2::new(0.5 * (a.x + b.x), 0.5 * (a.y + b.y)), b, Point2::new(1.5 * b.x - 0.5 * a.x, 1.5 * b.y - 0.5 * a.y), c])] {
            l.eval();
            l.bucket("RANSAC on a minimal or badly ordered set");
            match guarded(|| Circle2::ransac(&set, tol, Some(500), None, None).map_err(|e| e.to_string())) {
                Ok(Ok(found)) => {
                    // (with collinear leading points several triples containing the last point define a circle
                    // through three of the five; with three distinct points there is exactly one)
                    let support = set.iter().filter(|p| found.distance_to(p).abs() < tol).count();
                    let on = if what == "collinear leading points" { support >= 3 } else { [a, b, c].iter().all(|p| found.distance_to(p).abs() < tol) };
                    l.check("RANSAC finds a supported circle when every circle-defining triple contains the last point", "", on, mk, || format!("{}: centre {:?} r {} against centre ({}, {}) r {}", what, found.center, found.r(), cx, cy, r));
                }
                other => {
                    l.check("RANSAC finds a supported circle when every circle-defining triple contains the last point", "none", false, mk, || format!("{}: {:?}", what, other.map(|r| r.map(|c| c.r()))));
                }
            }
        }
    }
    // with radius limits that admit the generating circle, over several orders of the same points (the seeded
    // draws then pick other triples): still at least as well supported, and inside the limits
    if nout > 0 {
        let n = pts.len();
        for stride in [1usize, 3, 7, 11] {
            if gcd(stride, n) != 1 {
                continue;
            }
            let order: Vec<Point2> = (0..n).map(|i| pts[(i * stride + 2) % n]).collect();
            for (lo, hi) in [(Some(0.5 * r), Some(1.5 * r)), (None, Some(1.2 * r)), (Some(0.8 * r), None)] {
                l.eval();
                l.bucket("contaminated circle with radius limits");
                match guarded(|| Circle2::ransac(&order, tol, Some(500), lo, hi).map_err(|e| e.to_string())) {
                    Ok(Ok(c)) => {
                        let within = lo.map(|x| c.r() >= x).unwrap_or(true) && hi.map(|x| c.r() <= x).unwrap_or(true);
                        l.check("the RANSAC circle has at least as many inliers as the generating circle", "limits", inl(&c) >= inl(&gen) && within, mk, || format!("stride {} limits {:?}..{:?}: {} inliers at r {} against {}", stride, lo, hi, inl(&c), c.r(), inl(&gen)));
                    }
                    other => {
                        l.check("RANSAC returns a circle", "limits", false, mk, || format!("stride {} limits {:?}..{:?}: {:?}", stride, lo, hi, other.map(|r| r.map(|c| c.r()))));
                    }
                }
            }
        }
    }
}

fn gcd(a: usize, b: usize) -> usize {
    if b == 0 { a } else { gcd(b, a % b) }
}

pub fn judge(case: &Case, l: &mut Local) {
    l.distinct(hash_of(&serde_json::to_string(case).unwrap()));
    if case.d == 7 {
        l.sample(|| serde_json::to_value(case).unwrap());
    }
    match (case.kind.as_str(), case.k) {
        ("poly", 2) => poly_case::<2>(case, l),
        ("poly", 3) => poly_case::<3>(case, l),
        ("poly", 4) => poly_case::<4>(case, l),
        ("poly", 5) => poly_case::<5>(case, l),
        ("poly", 6) => poly_case::<6>(case, l),
        ("ortho", 2) => ortho_case::<2>(case, l),
        ("ortho", 3) => ortho_case::<3>(case, l),
        ("ortho", 4) => ortho_case::<4>(case, l),
        ("circle", _) => circle_case(case, l),
        ("circle_hist", _) => circle_hist_case(case, l),
        ("three", _) => three_case(case, l),
        ("ransac", _) => ransac_case(case, l),
        _ => {}
    }
}

pub fn cases(tier: Tier) -> Vec<Case> {
    let mut out = Vec::new();
    for k in 2..=6usize {
        let total = 5usize.pow(k as u32);
        let step = match (tier, k) {
            (Tier::Quick, 6) => 7,
            _ => 1,
        };
        for a in 0..xsets().len() {
            if a == 4 && k > 4 {
                continue;
            }
            for b in 0..3 {
                for c in 0..5 {
                    for d in (0..total).step_by(step) {
                        out.push(Case { kind: "poly".into(), k, a, b, c, d });
                    }
                }
            }
        }
    }
    for k in 2..=4usize {
        for a in 0..xsets().len() {
            for c in [0, 2, 4] {
                for d in 0..3usize.pow(k as u32 + 2) {
                    out.push(Case { kind: "ortho".into(), k, a, b: 0, c, d });
                }
            }
        }
    }
    for a in 0..9 {
        for b in 0..12 {
            for c in 0..3 {
                for d in 0..10 {
                    out.push(Case { kind: "circle".into(), k: 0, a, b, c, d });
                }
            }
        }
    }
    for a in [0, 4, 8] {
        for b in [1, 3, 6] {
            for d in 0..2 {
                out.push(Case { kind: "circle_hist".into(), k: 0, a, b, c: 1, d });
            }
        }
    }
    for a in 0..16 {
        for b in 0..16 {
            for c in 0..16 {
                for d in 0..6 {
                    out.push(Case { kind: "three".into(), k: 0, a, b, c, d });
                }
            }
        }
    }
    for a in 0..3 {
        for b in 0..3 {
            for c in 0..4 {
                out.push(Case { kind: "ransac".into(), k: 0, a, b, c, d: 0 });
            }
        }
    }
    out
}

pub fn run(tier: Tier) -> i32 {
    let mut cx = Ctx::new("C09", tier, "exploration");
    cx.rule = "polynomials with K = 2..6 coefficients: coefficient vectors from {-2,-1,0,1,3}^K (sub-sampled deterministically for K >= 5 in the quick tier) x 5 abscissa sets (asymmetric, one-sided, clustered, offset, integer) x sizes K, K+1, K+3 x 5 weight patterns; arbitrary ordinates {-1,0,2}^(K+2) for the orthogonality clause; circles: 3 centres x 3 radii x 4 arc extents x 3 starts x 3 counts x 5 guesses x 2 modes; all set_params histories of length <= 3 over a 5-vector alphabet of the private CircleFit problem (hook H4) compared with a fresh problem; every ordered triple of the 4x4 lattice at 3 scales; seeded RANSAC on 36 contaminated sets. distinct = distinct cases".into();
    cx.bounds = json!({"K": [2, 6], "coefficient_alphabet": COEF, "abscissa_sets": xsets().len(), "circle_histories_max_len": 3});
    cx.require(&["abscissae with a non-zero moment of order K", "abscissae with a vanishing moment of order K", "weighted", "unweighted", "arbitrary data", "full circle", "partial arc", "perturbed samples", "set_params history", "collinear triple", "non-collinear triple", "triple with coordinates below 0.01", "contaminated circle", "contaminated circle with radius limits", "exactly equidistant samples, concentric guess", "minimal sample set"]);
    cx.assume("recovery tolerance 1e5 * cond(M) * eps * |c|_inf (the routine inverts the normal matrix explicitly); instances with cond > 1e8 are skipped and counted");
    let cs = cases(tier);
    let l = sweep(&cs, judge);
    cx.absorb(l);
    cx.finish()
}

pub fn replay(case: &Val) -> Local {
    let c: Case = serde_json::from_value(case.clone()).expect("case");
    let mut l = Local::new();
    judge(&c, &mut l);
    l
}
