//! C06 — line-polyline intersection search is complete and sound (differential against the per-edge
//! scan, which is the property's own definition).
use crate::engine::*;
use crate::gen;
use engeom::common::Intersection;
use engeom::geom2::polyline2::{farthest_point_direction_distance, max_intersection, ray_intersect_with_edge, spanning_ray};
use engeom::{Curve2, Point2, SurfacePoint2, Vector2};
use parry2d_f64::query::Ray;
use parry2d_f64::shape::Polyline;
use serde::{Deserialize, Serialize};
use serde_json::json;

#[derive(Serialize, Deserialize, Clone, Debug)]
pub struct Case {
    pub verts: Vec<Vec<i32>>,
    pub family: String,
    pub size: usize,
    /// take every k-th origin of the grid
    pub origin_step: usize,
}

pub const DIRS: [(f64, f64); 17] = [
    (1.0, 0.0),
    (0.0, 1.0),
    (-3.0, 0.0),
    (0.0, -2.0),
    (1.0, 1.0),
    (1.0, -1.0),
    (1.0, 2.0),
    (2.0, 1.0),
    (3.0, -1.0),
    (-1.0, 3.0),
    (-2.0, -3.0),
    (7.0, 3.0),
    (1.0, 1e-9),
    (1e-9, -1.0),
    // zero components carrying a sign: the negation of (0, 1), the reverse of a normal (0, 1)
    (-0.0, 1.0),
    (1.0, -0.0),
    (-0.0, -2.5),
];

/// Independent closed form for the line/edge intersection: parameter on the line and on the edge
fn closed_form(o: &Point2, d: &Vector2, a: &Point2, b: &Point2) -> Option<(f64, f64)> {
    let e = b - a;
    let den = d.x * e.y - d.y * e.x;
    if den.abs() < 1e-9 * d.norm() * e.norm() {
        return None;
    }
    let w = a - o;
    let t = (w.x * e.y - w.y * e.x) / den;
    let s = (w.x * d.y - w.y * d.x) / den;
    Some((t, s))
}

fn side(o: &Point2, d: &Vector2, p: &Point2) -> f64 {
    d.x * (p.y - o.y) - d.y * (p.x - o.x)
}


/// Lines that run almost parallel to long edges of a large outline (coordinates in the tens of thousands,
/// crossing angles of 1e-4 rad and below). Vertices and line points are integers, so which edges are properly
/// crossed is decided in exact integer arithmetic; every such edge must be reported exactly once.
fn judge_shallow(case: &Case, l: &mut Local) {
    let mk = || serde_json::to_value(case).unwrap();
    let k = case.size as i64;
    let vi: Vec<(i64, i64)> = case.verts.iter().map(|c| (c[0] as i64 * k, c[1] as i64 * k)).collect();
    let pts: Vec<Point2> = vi.iter().map(|c| Point2::new(c.0 as f64, c.1 as f64)).collect();
    let curve = match Curve2::from_points(&pts, 1e-9, false) {
        Ok(c) => c,
        Err(_) => return,
    };
    if curve.count() != pts.len() {
        return;
    }
    l.bucket("large outline with shallow lines");
    for swap in [false, true] {
        for a in [-3i64, -1, 1, 2, 5] {
            for b in [-2i64, 1, 3, 7] {
                for base in [0i64, k, 2 * k] {
                    // P and Q far outside the outline on either side, a few units off a lattice line
                    let (p, q) = if swap { ((base + a, -k), (base + b, 4 * k)) } else { ((-k, base + a), (4 * k, base + b)) };
                    l.eval();
                    let side = |u: (i64, i64)| ((q.0 - p.0) as i128) * ((u.1 - p.1) as i128) - ((q.1 - p.1) as i128) * ((u.0 - p.0) as i128);
                    if vi.iter().any(|u| side(*u) == 0) {
                        l.gray("shallow line exactly through a vertex");
                        continue;
                    }
                    let crossed: Vec<usize> = (0..vi.len() - 1).filter(|i| (side(vi[*i]) > 0) != (side(vi[*i + 1]) > 0)).collect();
                    // parameters of the crossings along the line (as fractions of PQ), to rule out crossings so
                    // close together that the routine is entitled to merge them
                    let ts: Vec<f64> = crossed.iter().map(|i| {
                        let (u, v) = (vi[*i], vi[*i + 1]);
                        let (su, sv) = (side(u) as f64, side(v) as f64);
                        let w = su / (su - sv);
                        let x = (u.0 as f64 + (v.0 - u.0) as f64 * w, u.1 as f64 + (v.1 - u.1) as f64 * w);
                        ((x.0 - p.0 as f64) * (q.0 - p.0) as f64 + (x.1 - p.1 as f64) * (q.1 - p.1) as f64) / (((q.0 - p.0) as f64).powi(2) + ((q.1 - p.1) as f64).powi(2))
                    }).collect();
                    let mut sorted = ts.clone();
                    sorted.sort_by(|x, y| x.partial_cmp(y).unwrap());
                    if sorted.windows(2).any(|w| (w[1] - w[0]).abs() < 1e-6) {
                        l.gray("two crossings closer than the routine's merge distance");
                        continue;
                    }
                    let ray = Ray::new(Point2::new(p.0 as f64, p.1 as f64), Vector2::new((q.0 - p.0) as f64, (q.1 - p.1) as f64));
                    match guarded(|| curve.ray_intersections(&ray)) {
                        Ok(got) => {
                            let mut ge: Vec<usize> = got.iter().map(|x| x.1).collect();
                            ge.sort();
                            l.outcome(hash_of(&("shallow", crossed.len().min(4))));
                            l.check("every edge properly crossed by a nearly parallel line is reported once", "", ge == crossed, mk, || format!("line ({},{}) -> ({},{}): edges {:?} reported, {:?} crossed", p.0, p.1, q.0, q.1, ge, crossed));
                        }
                        Err(m) => {
                            l.check("line-polyline search returns", "panic", false, mk, || m.clone());
                        }
                    }
                }
            }
        }
    }
}

/// Polygons whose vertices are not exactly representable (on a wavy circle, at an offset), against every
/// line laid through two of their vertices: such a line only touches the corner of the bounding box of an
/// edge it meets at a vertex, so the accelerated search has to keep that edge as a candidate in spite of
/// rounding. The oracle is the property's own definition: the per-edge routine over every edge.
fn chord_polygon(k: usize, ph: usize) -> Vec<Point2> {
    (0..=k)
        .map(|i| {
            let t = 2.0 * std::f64::consts::PI * (i % k) as f64 / k as f64 + 0.1 * ph as f64;
            let r = 1.0 + 0.3 * ((3 * (i % k)) as f64 + ph as f64).sin();
            Point2::new(r * t.cos() + 0.37 * ph as f64, r * t.sin() - 1.1 * ph as f64)
        })
        .collect()
}

fn judge_chords(case: &Case, l: &mut Local) {
    let mk = || serde_json::to_value(case).unwrap();
    // length unit: the same polygon in metres or in microns (edges of a few tenths of a micron)
    let unit = if case.verts.first().and_then(|x| x.first()).copied().unwrap_or(0) < 0 { 1e-6 } else { 1.0 };
    let pts: Vec<Point2> = chord_polygon(case.size, case.origin_step).iter().map(|p| Point2::from(p.coords * unit)).collect();
    if unit != 1.0 {
        l.bucket("polygon with edges below a micron");
    }
    let curve = match Curve2::from_points(&pts, 1e-9 * unit, false) {
        Ok(c) => c,
        Err(_) => return,
    };
    let v = curve.points().to_vec();
    let pl = Polyline::new(v.clone(), None);
    let ne = v.len() - 1;
    l.distinct(hash_of(&serde_json::to_string(case).unwrap()));
    l.bucket("polygon with inexact vertices against lines through two of them");
    for i in 0..ne {
        for j in 0..ne {
            if i == j {
                continue;
            }
            for s in [0.0, -0.37, 0.5, 1.7, 9.0] {
                let d: Vector2 = v[j] - v[i];
                // the last variant is shifted sideways by 1.3% of the chord: a line in general position
                let side_shift = if s == 9.0 { Vector2::new(-d.y, d.x) * 0.013 } else { Vector2::zeros() };
                let o = v[i] + d * (if s == 9.0 { 0.21 } else { s }) + side_shift;
                let ray = Ray::new(o, d);
                l.eval();
                let fast = match guarded(|| curve.ray_intersections(&ray)) {
                    Ok(f) => f,
                    Err(m) => {
                        l.check("intersection search returns", "panic", false, mk, || format!("vertices {} {} offset {}: {}", i, j, s, m));
                        continue;
                    }
                };
                // independent closed form: no crossing in the interior of an edge is missed, every reported one is real
                let mut complete = true;
                for e in 0..ne {
                    if let Some((tc, sc)) = closed_form(&o, &d, &v[e], &v[e + 1]) {
                        if sc > 1e-6 && sc < 1.0 - 1e-6 {
                            complete &= fast.iter().any(|b| (b.0 - tc).abs() <= 1e-7 * (1.0 + tc.abs()));
                        }
                    }
                }
                l.check("no interior crossing of any edge is missed", "inexact polygon", complete, mk, || format!("unit {:e}, line through vertices {} and {} variant {}: {:?}", unit, i, j, s, fast));
                let sound = fast.iter().all(|(t, e)| {
                    let p = ray.point_at(*t);
                    let ab = v[*e + 1] - v[*e];
                    let u = ((p - v[*e]).dot(&ab) / ab.norm_squared()).clamp(0.0, 1.0);
                    (v[*e] + ab * u - p).norm() <= 1e-7 * unit * 3.0
                });
                l.check("every reported parameter gives a point on the named edge", "inexact polygon", sound, mk, || format!("unit {:e}: {:?}", unit, fast));
                let mut naive: Vec<(f64, usize)> = (0..ne).filter_map(|e| ray_intersect_with_edge(&pl, &ray, e).map(|t| (t, e))).collect();
                naive.sort_by(|a, b| a.0.partial_cmp(&b.0).unwrap());
                naive.dedup_by(|a, b| (a.0 - b.0).abs() < 1e-8);
                l.outcome(hash_of(&("chord", fast.len().min(8), naive.len().min(8))));
                let close = |a: f64, b: f64| (a - b).abs() <= 1e-9 * (1.0 + a.abs());
                let same = fast.len() == naive.len() && fast.iter().zip(naive.iter()).all(|(a, b)| close(a.0, b.0));
                l.check("on a line through two vertices the accelerated search equals the per-edge scan", "", same, mk, || format!("line through vertices {} and {} from offset {}: accelerated {:?} per-edge {:?}", i, j, s, fast, naive));
            }
        }
    }
}

pub fn judge(case: &Case, l: &mut Local) {
    if case.family == "shallow" {
        judge_shallow(case, l);
        return;
    }
    if case.family == "chords" {
        judge_chords(case, l);
        return;
    }
    let mk = || serde_json::to_value(case).unwrap();
    let lattice = case.family.is_empty();
    let pts: Vec<Point2> = if lattice {
        case.verts.iter().map(|c| gen::p2([c[0], c[1]], 1.0)).collect()
    } else {
        gen::large_polyline(&case.family, case.size)
    };
    let curve = match Curve2::from_points(&pts, 1e-9, false) {
        Ok(c) => c,
        Err(_) => return,
    };
    let pts = curve.points().to_vec();
    let pl = Polyline::new(pts.clone(), None);
    let ne = pts.len() - 1;
    let ext = pts.iter().map(|p| p.coords.norm()).fold(1.0, f64::max);
    l.distinct(hash_of(&serde_json::to_string(case).unwrap()));
    l.bucket(if lattice { "lattice polyline" } else { "structured large polyline" });
    l.sample(|| json!({"case": mk(), "edges": ne}));

    let mut origins = Vec::new();
    if lattice {
        for x in -2..=8 {
            for y in -2..=8 {
                origins.push(Point2::new(x as f64 * 0.5, y as f64 * 0.5));
            }
        }
    } else {
        for x in -4..=4 {
            for y in -4..=4 {
                origins.push(Point2::new(x as f64 * 1.25, y as f64 * 1.25));
            }
        }
        // lines through vertices
        for i in (0..pts.len()).step_by((pts.len() / 6).max(1)) {
            origins.push(pts[i]);
        }
    }

    for (oi, o) in origins.iter().enumerate() {
        if oi % case.origin_step != 0 {
            continue;
        }
        for (dx, dy) in DIRS {
            let d = Vector2::new(dx, dy);
            let ray = Ray::new(*o, d);
            l.eval();
            let fast = match guarded(|| curve.ray_intersections(&ray)) {
                Ok(f) => f,
                Err(msg) => {
                    l.check("intersection search returns", "panic", false, mk, || format!("o {:?} d {:?}: {}", o, d, msg));
                    continue;
                }
            };
            let mut naive: Vec<(f64, usize)> = (0..ne).filter_map(|i| ray_intersect_with_edge(&pl, &ray, i).map(|t| (t, i))).collect();
            naive.sort_by(|a, b| a.0.partial_cmp(&b.0).unwrap());
            naive.dedup_by(|a, b| (a.0 - b.0).abs() < 1e-8);
            l.outcome(hash_of(&(fast.len().min(12), dx == 0.0 || dy == 0.0)));
            l.bucket(if fast.is_empty() { "line misses" } else if fast.len() == 2 { "two crossings" } else { "other crossing count" });
            if dx == 0.0 || dy == 0.0 {
                l.bucket("axis-parallel line");
            }

            let close = |a: f64, b: f64| (a - b).abs() <= 1e-9 * (1.0 + a.abs());
            let same = fast.len() == naive.len() && fast.iter().zip(naive.iter()).all(|(a, b)| close(a.0, b.0));
            if !same {
                // classify every unmatched parameter
                let unmatched: Vec<(f64, usize)> = naive
                    .iter()
                    .filter(|a| !fast.iter().any(|b| close(a.0, b.0)))
                    .cloned()
                    .chain(fast.iter().filter(|a| !naive.iter().any(|b| close(a.0, b.0))).cloned())
                    .collect();
                for (t, i) in unmatched {
                    let p = ray.point_at(t);
                    let tolv = 1e-9 * (1.0 + t.abs()) * d.norm() * ext.max(1.0);
                    let vi = if (p - pts[i]).norm() <= (p - pts[i + 1]).norm() { i } else { i + 1 };
                    let at_vertex = (p - pts[vi]).norm() <= tolv;
                    if !at_vertex {
                        l.check("accelerated search equals the per-edge scan", "interior", false, mk, || {
                            format!("o {:?} d {:?}: parameter {} (edge {}) unmatched; fast {:?} naive {:?}", o, d, t, i, fast, naive)
                        });
                    } else if vi == 0 || vi == pts.len() - 1 {
                        l.gray("contact at an end vertex of the polyline");
                    } else {
                        let s0 = side(o, &d, &pts[vi - 1]);
                        let s1 = side(o, &d, &pts[vi + 1]);
                        if s0 * s1 < 0.0 {
                            let reported = fast.iter().any(|b| (b.0 - t).abs() <= 1e-7 * (1.0 + t.abs()));
                            l.check("transversal crossing through a vertex is reported", "", reported, mk, || {
                                format!("o {:?} d {:?}: crossing at vertex {} (t={}) missing; fast {:?}", o, d, vi, t, fast)
                            });
                        } else {
                            l.gray("line grazing a vertex");
                        }
                    }
                }
            } else {
                l.check("accelerated search equals the per-edge scan", "", true, mk, String::new);
            }

            // soundness of every reported pair, independent closed form
            let mut sound = true;
            for (t, i) in fast.iter() {
                let p = ray.point_at(*t);
                let a = pts[*i];
                let ab = pts[*i + 1] - a;
                let s = ((p - a).dot(&ab) / ab.norm_squared()).clamp(0.0, 1.0);
                sound &= (a + ab * s - p).norm() <= 1e-7 * ext;
                if let Some((tc, sc)) = closed_form(o, &d, &a, &pts[*i + 1]) {
                    if (-1e-9..=1.0 + 1e-9).contains(&sc) {
                        sound &= (tc - t).abs() <= 1e-7 * (1.0 + t.abs());
                    }
                }
            }
            l.check("every reported parameter gives a point on the named edge", "", sound, mk, || format!("o {:?} d {:?}: {:?}", o, d, fast));
            // completeness against the independent closed form (robust crossings only)
            let mut complete = true;
            for i in 0..ne {
                if let Some((tc, sc)) = closed_form(o, &d, &pts[i], &pts[i + 1]) {
                    if sc > 1e-6 && sc < 1.0 - 1e-6 {
                        complete &= fast.iter().any(|b| (b.0 - tc).abs() <= 1e-7 * (1.0 + tc.abs()));
                    }
                }
            }
            l.check("no interior crossing of any edge is missed", "", complete, mk, || format!("o {:?} d {:?}: {:?}", o, d, fast));
            l.check("list strictly ascending", "", fast.windows(2).all(|w| w[0].0 < w[1].0), mk, || format!("{:?}", fast));
            // a crossing exactly at an end vertex (exactly representable on lattice inputs) belongs to
            // the closed end edge and must be reported
            if lattice {
                for (ve, other) in [(pts[0], pts[1]), (pts[ne], pts[ne - 1])] {
                    let e = other - ve;
                    if side(o, &d, &ve) == 0.0 && (d.x * e.y - d.y * e.x).abs() > 1e-9 {
                        l.bucket("line exactly through an end vertex");
                        let reported = fast.iter().any(|(t, _)| (ray.point_at(*t) - ve).norm() <= 1e-9 * (1.0 + t.abs()));
                        l.check("a crossing exactly at an end vertex of the polyline is reported", "", reported, mk, || format!("o {:?} d {:?}: end vertex {:?} not among {:?}", o, d, ve, fast));
                    }
                }
            }

            // derived answers
            let sp = curve.try_create_spanning_ray(&ray);
            let sp2 = spanning_ray(&pl, &ray);
            let mut ok = sp.is_some() == (fast.len() == 2) && sp2.is_some() == sp.is_some();
            if let (Some(s), true) = (&sp, fast.len() == 2) {
                let r = s.ray();
                ok &= (r.origin - ray.point_at(fast[0].0)).norm() <= 1e-9 * ext * (1.0 + fast[0].0.abs())
                    && (r.point_at(1.0) - ray.point_at(fast[1].0)).norm() <= 1e-9 * ext * (1.0 + fast[1].0.abs())
                    && r.dir.normalize().dot(&d.normalize()) >= 1.0 - 1e-9;
            }
            l.check("spanning ray exactly when there are two crossings, same sense, on the curve", "", ok, mk, || {
                format!("o {:?} d {:?}: crossings {:?} spanning {:?}", o, d, fast, sp.map(|s| s.ray()))
            });
            let mx = max_intersection(&pl, &ray);
            let mx_ok = match (mx, fast.last()) {
                (Some(a), Some(b)) => (a - b.0).abs() <= 1e-9 * (1.0 + a.abs()),
                (None, None) => true,
                _ => false,
            };
            l.check("largest intersection", "", mx_ok, mk, || format!("{:?} vs {:?}", mx, fast.last()));
            let far = farthest_point_direction_distance(&pl, &ray);
            let want = pts.iter().map(|p| d.normalize().dot(&(p - o))).fold(f64::MIN, f64::max);
            l.check("farthest projected vertex", "", (far - want).abs() <= 1e-9 * ext, mk, || format!("{} vs {}", far, want));
            // the same answer through the curve's own methods, measured from the query's origin
            {
                let sp0 = engeom::SurfacePoint2::new_normalize(*o, d);
                let got = curve.max_dist_in_direction(&sp0);
                let arg = curve.max_point_in_direction(&sp0.normal);
                let ok = (got - want).abs() <= 1e-9 * ext && arg.map(|(_, p)| (d.normalize().dot(&(p - o)) - want).abs() <= 1e-9 * ext).unwrap_or(false);
                l.check("farthest projected vertex through the curve's own methods", "", ok, mk, || format!("{} vs {} (point {:?})", got, want, arg));
            }
            if let Ok(spt) = guarded(|| SurfacePoint2::new_normalize(*o, d)) {
                let ts: Vec<f64> = curve.intersection(&spt);
                let uray = Ray::new(*o, d.normalize());
                let mut want: Vec<f64> = (0..ne).filter_map(|i| ray_intersect_with_edge(&pl, &uray, i)).collect();
                want.sort_by(|a, b| a.partial_cmp(b).unwrap());
                want.dedup_by(|a, b| (*a - *b).abs() < 1e-8);
                let close_u = |a: f64, b: f64| (a - b).abs() <= 1e-9 * (1.0 + a.abs());
                let unmatched: Vec<f64> = want
                    .iter()
                    .filter(|a| !ts.iter().any(|b| close_u(**a, *b)))
                    .chain(ts.iter().filter(|a| !want.iter().any(|b| close_u(**a, *b))))
                    .cloned()
                    .collect();
                let robust = unmatched.iter().any(|t| {
                    let p = uray.point_at(*t);
                    !pts.iter().any(|v| (p - v).norm() <= 1e-9 * (1.0 + t.abs()) * ext.max(1.0))
                });
                if !unmatched.is_empty() && !robust {
                    l.gray("normal line touching a vertex");
                } else {
                    l.check("surface-point normal line intersections equal the per-edge scan", "", unmatched.is_empty(), mk, || {
                        format!("o {:?} d {:?}: {:?} vs {:?}", o, d, ts, want)
                    });
                }
            }
        }
    }
}

pub fn cases(tier: Tier) -> Vec<Case> {
    let mut out = Vec::new();
    let lat = gen::lattice2(4);
    for s in gen::seqs(lat.len(), 2, tier.pick(4, 5)) {
        let step = match (tier, s.len()) {
            (Tier::Quick, 4) => 3,
            (Tier::Thorough, 5) => 5,
            _ => 1,
        };
        out.push(Case { verts: s.iter().map(|i| lat[*i].to_vec()).collect(), family: String::new(), size: 0, origin_step: step });
    }
    // large outlines (lattice sequences times 10^4 and 10^2) against nearly parallel lines
    let lat3 = gen::lattice2(3);
    for s in gen::seqs(lat3.len(), 3, 4) {
        for k in [10_000usize, 100] {
            out.push(Case { verts: s.iter().map(|i| lat3[*i].to_vec()).collect(), family: "shallow".into(), size: k, origin_step: 1 });
        }
    }
    // polygons with inexact vertices against every line through two of their vertices
    for k in 5..=tier.pick(24, 40) {
        for ph in 0..tier.pick(3, 5) {
            out.push(Case { verts: vec![], family: "chords".into(), size: k, origin_step: ph });
            if k % 4 == 1 {
                out.push(Case { verts: vec![vec![-6]], family: "chords".into(), size: k, origin_step: ph });
            }
        }
    }
    for fam in gen::LARGE_FAMILIES {
        for n in gen::LARGE_SIZES {
            out.push(Case { verts: vec![], family: fam.into(), size: n, origin_step: 1 });
        }
    }
    out
}

pub fn run(tier: Tier) -> i32 {
    let mut cx = Ctx::new("C06", tier, "exploration");
    cx.rule = "every vertex sequence over the 4x4 lattice up to the length bound, and 7 structured large families x 15 sizes (5..5000 edges: every QBVH occupancy and depth), x origins on a grid (inside, outside, behind, on vertices) x 17 directions (axis-parallel, zero components of either sign, zero components, non-unit, both signs, nearly parallel to edges); plus wavy polygons of 5..24 (thorough 40) inexact vertices x 3 (5) placements against every line through two of their vertices from 4 origins; oracle = the property's own definition (sort+dedup of the per-edge routine over every edge) plus an independent closed form. distinct = distinct polylines".into();
    cx.bounds = json!({"lattice": 4, "seq_len": tier.pick(4, 5), "origin_subsampling_longest": tier.pick(3, 5), "directions": DIRS.len(), "large_sizes": gen::LARGE_SIZES});
    cx.require(&["line exactly through an end vertex", "lattice polyline", "structured large polyline", "line misses", "two crossings", "other crossing count", "axis-parallel line", "large outline with shallow lines", "polygon with inexact vertices against lines through two of them", "polygon with edges below a micron"]);
    cx.assume("an unmatched parameter is gray only when the contact is at a vertex whose two neighbours lie on the same side of the line (graze) or at an end vertex; a transversal crossing through a vertex must be reported");
    let cs = cases(tier);
    let l = sweep(&cs, judge);
    cx.absorb(l);
    cx.finish()
}

pub fn replay(case: &Val) -> Local {
    let c: Case = serde_json::from_value(case.clone()).expect("case");
    let mut l = Local::new();
    judge(&c, &mut l);
    l
}
