//! C10 — airfoil analysis yields inscribed circles and recovers a known medial axis.
//! Configurations x generated section families with closed-form medial axes x pose/order variants.
use crate::engine::*;
use crate::refmodel::d2;
use engeom::airfoil::*;
use engeom::metrology::Measurement;
use engeom::verif;
use engeom::{Curve2, Iso2, Point2, Vector2};
use serde::{Deserialize, Serialize};
use serde_json::json;
use std::f64::consts::PI;

#[derive(Serialize, Deserialize, Clone, Debug)]
pub struct Case {
    /// A (envelope of circles) | B (ellipse) | C (open envelope) | S (sharp trailing edge)
    pub family: String,
    pub section: usize,
    pub le: String,
    pub te: String,
    pub orient: String,
    pub detect_face: bool,
}

/// (length, total turning, r0, r1, bump, samples)
pub const A_SECTIONS: [(f64, f64, f64, f64, f64, usize); 17] = [
    (10.0, 0.0, 0.5, 0.2, 0.0, 200),
    (10.0, 0.6, 0.4, 0.15, 0.6, 300),
    (0.8, 0.4, 0.03, 0.012, 0.05, 300),
    (100.0, -0.5, 3.0, 1.0, 5.0, 400),
    // camber line shorter than half a length unit: nothing in the analysis may be an absolute length
    (0.3, 0.3, 0.012, 0.005, 0.02, 300),
    // thickness in the thousands of length units: tolerances are lengths, not fractions of a ray
    (1e5, 0.0, 4000.0, 2000.0, 3000.0, 200),
    // short and thick: each rounded end takes more than a quarter of the perimeter
    (2.5, 0.0, 0.8, 0.6, 0.0, 300),
    (10.0, 0.4, 0.45, 0.45, 0.0, 300),
    (10.0, -0.6, 0.5, 0.25, 0.3, 400),
    (100.0, 0.0, 4.0, 2.0, 3.0, 200),
    (0.8, 0.0, 0.04, 0.02, 0.0, 200),
    (10.0, 0.4, 0.3, 0.12, 0.5, 200),
    (100.0, 0.4, 3.5, 1.5, 0.0, 400),
    // section 1 scaled by 0.05
    (0.5, 0.6, 0.02, 0.0075, 0.03, 300),
    // camber line turning by 115 degrees: the spanning rays at its two ends point in opposed directions
    (10.0, 2.0, 0.45, 0.3, 0.0, 400),
    // an arch turning by 137 degrees, bulging upwards (negative bend) and downwards
    (10.0, -2.4, 0.4, 0.3, 0.0, 400),
    (10.0, 2.4, 0.4, 0.3, 0.0, 400),
];
/// reflexed-camber sections: (chord, marker, r0, r1, bump, samples); the second entry only has to be non-zero
pub const R_SECTIONS: [(f64, f64, f64, f64, f64, usize); 2] = [(1.0, 1.0, 0.02, 0.01, 0.05, 400), (25.0, 1.0, 0.5, 0.3, 1.0, 300)];
pub const B_SECTIONS: [(f64, f64, usize); 5] = [(20.0, 3.0, 600), (5.0, 1.5, 500), (0.5, 0.08, 400), (10.0, 1.0, 800), (20.0, 2.0, 400)];
pub const C_SECTIONS: [(f64, f64, f64, f64, f64, usize); 3] = [(10.0, 0.3, 0.4, 0.2, 0.3, 300), (100.0, -0.5, 3.0, 1.5, 4.0, 400), (0.8, 0.0, 0.04, 0.02, 0.0, 200)];

type Truth = Box<dyn Fn(f64) -> (Point2, f64)>;

pub fn envelope_section(l: f64, bend: f64, r0: f64, r1: f64, bump: f64, n: usize, open_end: bool, sharp: bool) -> (Vec<Point2>, Truth) {
    let cam = move |s: f64| -> (Point2, Vector2, Vector2) {
        if bend.abs() < 1e-12 {
            (Point2::new(s, 0.0), Vector2::new(1.0, 0.0), Vector2::new(0.0, 1.0))
        } else {
            let k = bend / l;
            let th = k * s;
            (Point2::new(th.sin() / k, (1.0 - th.cos()) / k), Vector2::new(th.cos(), th.sin()), Vector2::new(-th.sin(), th.cos()))
        }
    };
    let r = move |s: f64| if sharp { r0 * (1.0 - s / l) } else { r0 + (r1 - r0) * s / l + bump * (PI * s / l).sin() };
    let dr = move |s: f64| if sharp { -r0 / l } else { (r1 - r0) / l + bump * PI / l * (PI * s / l).cos() };
    let mut upper = Vec::new();
    let mut lower = Vec::new();
    for i in 0..=n {
        let s = l * i as f64 / n as f64;
        let (c, t, nn) = cam(s);
        let rr = r(s);
        let d = dr(s);
        let q = (1.0 - d * d).sqrt();
        upper.push(c + (t * (-d) + nn * q) * rr);
        lower.push(c + (t * (-d) - nn * q) * rr);
    }
    let cap = |center: Point2, rad: f64, from: Point2, to: Point2, m: usize| -> Vec<Point2> {
        let a0 = (from.y - center.y).atan2(from.x - center.x);
        let mut a1 = (to.y - center.y).atan2(to.x - center.x);
        while a1 <= a0 {
            a1 += 2.0 * PI;
        }
        (1..m)
            .map(|i| {
                let a = a0 + (a1 - a0) * i as f64 / m as f64;
                Point2::new(center.x + rad * a.cos(), center.y + rad * a.sin())
            })
            .collect()
    };
    let h = l / n as f64;
    let (ce, _, _) = cam(l);
    let (cs, _, _) = cam(0.0);
    let m_end = ((PI * r(l)) / h).ceil().max(8.0) as usize;
    let m_st = ((PI * r(0.0)) / h).ceil().max(8.0) as usize;
    let mut pts = Vec::new();
    if open_end {
        pts.extend(upper.iter().rev().cloned());
        pts.extend(cap(cs, r(0.0), upper[0], lower[0], m_st));
        pts.extend(lower.iter().cloned());
    } else if sharp {
        // the two surfaces meet in a point at s = l: a sharp trailing corner
        pts.extend(lower.iter().cloned());
        pts.extend(upper.iter().rev().skip(1).cloned());
        pts.extend(cap(cs, r(0.0), upper[0], lower[0], m_st));
    } else {
        pts.extend(lower.iter().cloned());
        pts.extend(cap(ce, r(l), *lower.last().unwrap(), *upper.last().unwrap(), m_end));
        pts.extend(upper.iter().rev().cloned());
        pts.extend(cap(cs, r(0.0), upper[0], lower[0], m_st));
    }
    (
        pts,
        Box::new(move |s: f64| {
            let (c, _, _) = cam(s);
            (c, r(s))
        }),
    )
}


/// Envelope of circles along a *reflexed* camber line y = K x (1 - x)(X0 - x) (chord l): a dominant bow
/// above the chord over the first three quarters, a shallow one below it near the trailing end. Closed, with
/// round caps. The truth function takes s = x * l.
pub fn reflex_section(l: f64, r0: f64, r1: f64, bump: f64, n: usize) -> (Vec<Point2>, Truth) {
    const K: f64 = 0.6;
    const X0: f64 = 0.75;
    let cam = move |x: f64| -> (Point2, Vector2, Vector2, f64) {
        let dy = K * ((1.0 - 2.0 * x) * (X0 - x) - x * (1.0 - x));
        let nn = (1.0 + dy * dy).sqrt();
        (Point2::new(l * x, l * K * x * (1.0 - x) * (X0 - x)), Vector2::new(1.0 / nn, dy / nn), Vector2::new(-dy / nn, 1.0 / nn), l * nn)
    };
    let r = move |x: f64| r0 + (r1 - r0) * x + bump * (PI * x).sin();
    let drdx = move |x: f64| (r1 - r0) + bump * PI * (PI * x).cos();
    let mut upper = Vec::new();
    let mut lower = Vec::new();
    for i in 0..=n {
        let x = i as f64 / n as f64;
        let (c, t, nn, dsdx) = cam(x);
        let d = drdx(x) / dsdx;
        let q = (1.0 - d * d).sqrt();
        upper.push(c + (t * (-d) + nn * q) * r(x));
        lower.push(c + (t * (-d) - nn * q) * r(x));
    }
    let cap = |center: Point2, rad: f64, from: Point2, to: Point2, m: usize| -> Vec<Point2> {
        let a0 = (from.y - center.y).atan2(from.x - center.x);
        let mut a1 = (to.y - center.y).atan2(to.x - center.x);
        while a1 <= a0 {
            a1 += 2.0 * PI;
        }
        (1..m).map(|i| { let a = a0 + (a1 - a0) * i as f64 / m as f64; Point2::new(center.x + rad * a.cos(), center.y + rad * a.sin()) }).collect()
    };
    let h = l / n as f64;
    let (ce, _, _, _) = cam(1.0);
    let (cs, _, _, _) = cam(0.0);
    let m_end = ((PI * r(1.0)) / h).ceil().max(8.0) as usize;
    let m_st = ((PI * r(0.0)) / h).ceil().max(8.0) as usize;
    let mut pts = Vec::new();
    pts.extend(lower.iter().cloned());
    pts.extend(cap(ce, r(1.0), *lower.last().unwrap(), *upper.last().unwrap(), m_end));
    pts.extend(upper.iter().rev().cloned());
    pts.extend(cap(cs, r(0.0), upper[0], lower[0], m_st));
    (
        pts,
        Box::new(move |s: f64| {
            let x = (s / l).clamp(0.0, 1.0);
            let (c, _, _, _) = cam(x);
            (c, r(x))
        }),
    )
}

fn ellipse(a: f64, b: f64, n: usize) -> Vec<Point2> {
    (0..n)
        .map(|i| {
            let t = 2.0 * PI * i as f64 / n as f64 + 0.01;
            Point2::new(a * t.cos(), b * t.sin())
        })
        .collect()
}

fn locator(name: &str, l: f64) -> Box<dyn EdgeLocate> {
    match name {
        "intersect" => IntersectEdge::make(),
        "fitradius" => FitRadiusEdge::make(None),
        "constradius" => ConstRadiusEdge::make(None),
        "ransac" => RansacRadiusEdge::make(1e-4 * l, 500),
        "tracemax" => TraceToMaxCurvature::make(None),
        "converge" => ConvergeTangentEdge::make(None),
        "open" => OpenEdge::make(),
        _ => OpenIntersectGap::make(50),
    }
}

/// The same locators with the value that the library documents as the default passed explicitly
fn locator_explicit(name: &str, l: f64) -> Box<dyn EdgeLocate> {
    match name {
        "fitradius" => FitRadiusEdge::make(Some(1e-4 * l)),
        "constradius" => ConstRadiusEdge::make(Some(1e-4 * l)),
        "tracemax" => TraceToMaxCurvature::make(Some(0.005)),
        other => locator(other, l),
    }
}

fn has_optional_tolerance(name: &str) -> bool {
    // (the tangent-convergence locator's default is a fraction of the last station's radius, which is not known here)
    name == "fitradius" || name == "tracemax" || name == "constradius"
}

pub fn poses() -> [Iso2; 4] {
    [Iso2::identity(), Iso2::new(Vector2::new(30.0, -12.0), 0.7), Iso2::new(Vector2::new(-5.0, 2.0), 2.9), Iso2::new(Vector2::new(0.3, 0.1), -1.4)]
}

struct Summary {
    le: Option<Point2>,
    te: Option<Point2>,
    tmax_r: f64,
    camber_len: f64,
    n: usize,
    /// does the first / last station's own camber direction point along the camber line (LE to TE)?
    ends_forward: (bool, bool),
}

fn ends_forward(g: &AirfoilGeometry) -> (bool, bool) {
    let n = g.stations.len();
    if n < 2 {
        return (true, true);
    }
    let f = |a: usize, b: usize, of: usize| g.stations[of].camber_point().normal.dot(&(g.stations[b].center() - g.stations[a].center())) > 0.0;
    (f(0, 1, 0), f(n - 2, n - 1, n - 1))
}

fn analyze(sec: &Curve2, l: f64, case: &Case, face: &FaceOrient, fwd: Vector2) -> Result<AirfoilGeometry, String> {
    analyze_with(sec, l, case, face, fwd, false)
}

fn analyze_with(sec: &Curve2, l: f64, case: &Case, face: &FaceOrient, fwd: Vector2, explicit: bool) -> Result<AirfoilGeometry, String> {
    let o: Box<dyn CamberOrient> = if case.orient == "tmax" { TMaxFwd::make() } else { DirectionFwd::make(fwd) };
    verif::set_budget(400_000);
    let (le, te) = if explicit { (locator_explicit(&case.le, l), locator_explicit(&case.te, l)) } else { (locator(&case.le, l), locator(&case.te, l)) };
    let r = guarded(|| AirfoilGeometry::try_analyze(sec, 1e-4 * l, o, le, te, face.clone()).map_err(|e| e.to_string()));
    reset_budget();
    match r {
        Err(p) => Err(format!("panic: {}", p)),
        Ok(Err(e)) => Err(format!("Err: {}", e)),
        Ok(Ok(g)) => Ok(g),
    }
}

/// Clauses that hold for every accepted section: inscribed circles, contacts, monotone stations,
/// edges, surface partition
fn judge_common(g: &AirfoilGeometry, sec: &Curve2, l: f64, case: &Case, tag: &str, closed: bool, manufactured: &dyn Fn(&InscribedCircle) -> bool, l_: &mut Local) {
    let mk = || serde_json::to_value(case).unwrap();
    let tau = 1e-4 * l;
    let forged_loc = |name: &str| name == "constradius" || name == "ransac";
    let nst = g.stations.len();
    let mut worst = 0.0f64;
    let mut worst_forged = 0.0f64;
    let mut worst_contact = 0.0f64;
    let mut opposite = true;
    for (si, st) in g.stations.iter().enumerate() {
        let d = sec.dist_to_point(&st.center());
        let forged = (forged_loc(&case.le) && si == 0) || (forged_loc(&case.te) && si == nst - 1) || manufactured(st);
        let e = (d - st.radius()).abs();
        if forged {
            worst_forged = worst_forged.max(e);
            continue;
        }
        worst = worst.max(e);
        worst_contact = worst_contact
            .max((d2(&st.contact_pos, &st.center()) - st.radius()).abs())
            .max((d2(&st.contact_neg, &st.center()) - st.radius()).abs())
            .max(sec.dist_to_point(&st.contact_pos))
            .max(sec.dist_to_point(&st.contact_neg));
        // contacts on opposite sides of the camber direction
        let dir = g.camber.at_closest_to_point(&st.center()).direction().into_inner();
        let (a, b) = (st.contact_pos - st.center(), st.contact_neg - st.center());
        let (ca, cb) = (dir.x * a.y - dir.y * a.x, dir.x * b.y - dir.y * b.x);
        if st.radius() > 10.0 * tau {
            opposite &= ca * cb < 0.0;
        }
    }
    l_.check("every station is an inscribed circle (distance from its centre to the section equals its radius)", "", worst <= 2.0 * tau, mk, || format!("{}: worst |dist - r| = {:.3} tau", tag, worst / tau));
    l_.check("stations manufactured by an edge method stay close to inscribed", "", worst_forged <= 20.0 * tau, mk, || format!("{}: {:.3} tau", tag, worst_forged / tau));
    l_.check("both contact points lie on the section one radius from the centre", "", worst_contact <= 2.0 * tau, mk, || format!("{}: {:.3} tau", tag, worst_contact / tau));
    l_.check("contact points lie on opposite sides of the camber direction", "", opposite, mk, || tag.to_string());
    // every station is oriented like the camber line it belongs to: its positive contact lies in the positive
    // direction of its own spanning ray, and its own camber direction (perpendicular to the contacts) points to
    // the next station
    {
        let mut labels = true;
        let mut forward = true;
        let mut which = String::new();
        for si in 0..nst {
            let st = &g.stations[si];
            // (an end station that an edge method constructs itself - constant radius, RANSAC - carries whatever
            // ray and labels that method gave it: not judged)
            let forged = (forged_loc(&case.le) && si == 0) || (forged_loc(&case.te) && si == nst - 1);
            if st.radius() <= 10.0 * tau || forged {
                continue;
            }
            let ray = st.spanning_ray.ray();
            // stations carried beyond the end of the medial axis have contacts that nearly coincide: only their
            // labels are judged, and only where the contacts are clearly apart
            let beyond_axis = manufactured(st);
            if beyond_axis && (st.contact_pos - st.contact_neg).norm() <= 0.2 * st.radius() {
                continue;
            }
            if (st.contact_pos - st.contact_neg).dot(&ray.dir) <= 0.0 {
                labels = false;
                which = format!("station {} of {}: positive contact behind the negative one along the station's ray", si, nst);
            }
            let step = if si + 1 < nst { g.stations[si + 1].center() - st.center() } else if si > 0 { st.center() - g.stations[si - 1].center() } else { continue };
            if !beyond_axis && step.norm() > 10.0 * tau && st.camber_point().normal.dot(&step.normalize()) < 0.5 {
                forward = false;
                which = format!("station {} of {}: camber direction {:?} against the step to its neighbour {:?}", si, nst, st.camber_point().normal, step.normalize());
            }
        }
        // the returning and the in-place reversal of a station are the same operation, and an involution
        let mut twins = true;
        for st in g.stations.iter().step_by((nst / 6).max(1)) {
            let a = st.reversed();
            let mut b = st.clone();
            b.reverse_in_place();
            let e = 1e-9 * l;
            let eq = |x: &InscribedCircle, y: &InscribedCircle| d2(&x.contact_pos, &y.contact_pos) <= e && d2(&x.contact_neg, &y.contact_neg) <= e && d2(&x.spanning_ray.ray().origin, &y.spanning_ray.ray().origin) <= e && (x.spanning_ray.ray().dir - y.spanning_ray.ray().dir).norm() <= e && (x.radius() - y.radius()).abs() <= e;
            twins &= eq(&a, &b) && d2(&a.contact_pos, &st.contact_neg) <= e && d2(&a.contact_neg, &st.contact_pos) <= e && a.spanning_ray.ray().dir.dot(&st.spanning_ray.ray().dir) < 0.0 && eq(&a.reversed(), st);
        }
        l_.check("reversing a station swaps its contacts and turns its ray, in place or returning, and twice is the identity", "", twins, mk, || tag.to_string());
        l_.check("every station has its positive contact ahead of the negative one along its own spanning ray", "", labels, mk, || format!("{}: {}", tag, which));
        l_.check("every station's own camber direction points to the next station", "", forward, mk, || format!("{}: {}", tag, which));
    }
    let arc: Vec<f64> = g.stations.iter().map(|st| g.camber.at_closest_to_point(&st.center()).length_along()).collect();
    l_.check("stations advance monotonically from leading to trailing edge", "", arc.windows(2).all(|w| w[1] >= w[0] - 1e-9 * l), mk, || tag.to_string());
    if let (Some(le), Some(te)) = (&g.leading_edge, &g.trailing_edge) {
        let open_le = matches!(le.geometry, EdgeGeometry::Open);
        let open_te = matches!(te.geometry, EdgeGeometry::Open);
        let on = (open_le || sec.dist_to_point(&le.point) <= 2.0 * tau) && (open_te || sec.dist_to_point(&te.point) <= 2.0 * tau);
        l_.check("edge points lie on the section", "", on, mk, || format!("{}: le {:e} te {:e}", tag, sec.dist_to_point(&le.point), sec.dist_to_point(&te.point)));
        let ends = d2(&g.camber.at_front().point(), &le.point) <= 1e-9 * l && d2(&g.camber.at_back().point(), &te.point) <= 1e-9 * l;
        l_.check("edge points are the ends of the camber curve", "", ends, mk, || tag.to_string());
        match (&g.upper, &g.lower) {
            (Some(u), Some(lw)) => {
                let sum = u.length() + lw.length();
                l_.check("upper and lower surfaces partition the perimeter between the edge points", "", (sum - sec.length()).abs() <= 4.0 * tau + 1e-9 * l, mk, || format!("{}: {} + {} vs {}", tag, u.length(), lw.length(), sec.length()));
                if closed {
                    let meet = |p: &Point2| d2(p, &le.point).min(d2(p, &te.point));
                    let ok = meet(&u.at_front().point()) <= 4.0 * tau && meet(&u.at_back().point()) <= 4.0 * tau && meet(&lw.at_front().point()) <= 4.0 * tau && meet(&lw.at_back().point()) <= 4.0 * tau;
                    l_.check("surfaces end at the edge points", "", ok, mk, || tag.to_string());
                }
            }
            _ => {
                l_.check("upper and lower surfaces are produced when both edges are located", "", false, mk, || tag.to_string());
            }
        }
    }
}

fn judge_a(case: &Case, l_: &mut Local) {
    let mk = || serde_json::to_value(case).unwrap();
    let sharp = case.family == "S";
    let reflex = case.family == "R";
    let (l, bend, r0, r1, bump, n) = if reflex { R_SECTIONS[case.section % R_SECTIONS.len()] } else { A_SECTIONS[case.section % A_SECTIONS.len()] };
    let (base_pts, truth) = if reflex { reflex_section(l, r0, r1, bump, n) } else { envelope_section(l, bend, r0, r1, bump, n, false, sharp) };
    let tau = 1e-4 * l;
    let h = l / n as f64;
    l_.bucket(if reflex { "family R (reflexed camber)" } else if sharp { "sharp trailing edge" } else if l < 0.5 { "family A, chord below half a unit" } else if l < 1.0 { "family A, chord below one unit" } else { "family A" });
    l_.bucket(if case.detect_face { "face orientation detected" } else { "face orientation given" });
    let mut reference: Option<Summary> = None;
    let mut outcomes: Vec<bool> = Vec::new();
    // closed-form maximum radius
    let rmax = (0..=4000).map(|i| truth(l * i as f64 / 4000.0).1).fold(0.0, f64::max);
    for (pi, pose) in poses().iter().enumerate() {
        for variant in 0..4 {
            let mut pts: Vec<Point2> = base_pts.iter().map(|p| pose * p).collect();
            if variant >= 2 {
                let k = pts.len() / 3;
                pts.rotate_left(k);
            }
            if variant % 2 == 1 {
                pts.reverse();
            }
            let sec = match Curve2::from_points(&pts, 1e-7 * l, true) {
                Ok(c) => c,
                Err(_) => continue,
            };
            // "dirskew+" / "dirskew-": the requested upper direction is 55 degrees off the vertical, still a valid "up"
            let up = match case.orient.as_str() { "dirskew+" => Vector2::new(-(0.96f64).sin(), (0.96f64).cos()), "dirskew-" => Vector2::new((0.96f64).sin(), (0.96f64).cos()), "dirskew0" => Vector2::new(1e-7, 1.0), _ => Vector2::new(0.0, 1.0) };
            let face = if case.detect_face { FaceOrient::Detect } else { FaceOrient::UpperDir(pose * up) };
            let fwd = pose * Vector2::new(-1.0, 0.0);
            let tag = format!("pose {} variant {}", pi, variant);
            l_.eval();
            match analyze(&sec, l, case, &face, fwd) {
                Err(e) => {
                    outcomes.push(false);
                    let budget = e.contains("VERIF_BUDGET");
                    let panic = e.starts_with("panic");
                    if budget {
                        l_.check("the analysis terminates within its iteration budget", "", false, mk, || format!("{}: {}", tag, e));
                    } else if panic {
                        l_.check("the analysis returns without panicking", "", false, mk, || format!("{}: {}", tag, e));
                    } else if !sharp && case.le != "ransac" && case.te != "ransac" {
                        // every deterministic closed-section edge method applies to an envelope section with rounded
                        // ends; the RANSAC locator only accepts candidate circles *smaller* than the last station,
                        // which on an envelope section (whose end cap is the last station's circle) is decided by
                        // rounding, so its acceptance is not demanded
                        l_.check("an envelope section with rounded ends is analysed by every closed-section edge method", "", false, mk, || format!("{}: {}", tag, e));
                    } else {
                        l_.bucket(&format!("rejection reason: {}", e.chars().take(90).collect::<String>()));
                    }
                }
                Ok(g) => {
                    outcomes.push(true);
                    l_.outcome(hash_of(&(g.stations.len().min(200) / 10, case.section)));
                    if variant == 0 && pi < 2 && (has_optional_tolerance(&case.le) || has_optional_tolerance(&case.te)) {
                        // the optional tolerance of an edge method, given as the documented default, changes nothing
                        l_.eval();
                        l_.bucket("edge method with its default tolerance passed explicitly");
                        let same = match analyze_with(&sec, l, case, &face, fwd, true) {
                            Ok(g2) => {
                                let pt = |e: &Option<_>| -> Option<Point2> { e.as_ref().map(|x: &engeom::airfoil::AirfoilEdge| x.point) };
                                if g2.stations.len() == g.stations.len() && pt(&g2.leading_edge) == pt(&g.leading_edge) && pt(&g2.trailing_edge) == pt(&g.trailing_edge) && g2.camber.length() == g.camber.length() {
                                    Ok(())
                                } else {
                                    Err(format!("{} stations, edges {:?} {:?}, camber {} against {} stations, edges {:?} {:?}, camber {}", g2.stations.len(), pt(&g2.leading_edge), pt(&g2.trailing_edge), g2.camber.length(), g.stations.len(), pt(&g.leading_edge), pt(&g.trailing_edge), g.camber.length()))
                                }
                            }
                            Err(e) => Err(e),
                        };
                        l_.check("an edge method given its documented default tolerance explicitly gives the same analysis", "", same.is_ok(), mk, || format!("{}: {}", tag, same.clone().err().unwrap_or_default()));
                    }
                    if sharp {
                        // only termination and the inscribed-circle clauses are claimed here
                        judge_common(&g, &sec, l, case, &tag, true, &|_| false, l_);
                        continue;
                    }
                    let inv = pose.inverse();
                    // the curvature-tracing locator carries the camber line on into the rounded end, beyond the end
                    // of the medial axis (the centre of the end circle): those stations are manufactured
                    let traced = case.le == "tracemax" || case.te == "tracemax";
                    let (cs, ce) = (truth(0.0).0, truth(l).0);
                    let (ts, te_) = ((truth(l * 1e-3).0 - cs).normalize(), (ce - truth(l * (1.0 - 1e-3)).0).normalize());
                    let beyond = |st: &InscribedCircle| {
                        let c0 = inv * st.center();
                        traced && ((c0 - cs).dot(&ts) < -(tau + h) || (c0 - ce).dot(&te_) > tau + h)
                    };
                    judge_common(&g, &sec, l, case, &tag, true, &beyond, l_);
                    let nst = g.stations.len();
                    let forged_loc = |name: &str| name == "constradius" || name == "ransac";
                    let mut wc = 0.0f64;
                    let mut wr = 0.0f64;
                    for (si, st) in g.stations.iter().enumerate() {
                        if (forged_loc(&case.le) && si == 0) || (forged_loc(&case.te) && si == nst - 1) || beyond(st) {
                            continue;
                        }
                        let c0 = inv * st.center();
                        let mut best = (f64::MAX, 0.0);
                        for i in 0..=4000 {
                            let (c, rr) = truth(l * i as f64 / 4000.0);
                            let dd = d2(&c, &c0);
                            if dd < best.0 {
                                best = (dd, rr);
                            }
                        }
                        wc = wc.max(best.0);
                        wr = wr.max((best.1 - st.radius()).abs());
                    }
                    l_.check("station centres lie on the known camber curve", "", wc <= 1.0 * (tau + h), mk, || format!("{}: {:.3} (tau+h)", tag, wc / (tau + h)));
                    l_.check("station radii follow the known radius law", "", wr <= 1.0 * (tau + h), mk, || format!("{}: {:.3} (tau+h)", tag, wr / (tau + h)));
                    let tm = g.find_tmax().radius();
                    l_.check("maximum thickness is recovered", "", (tm - rmax).abs() <= 1.0 * (tau + h), mk, || format!("{}: {} vs {}", tag, tm, rmax));
                    if let Ok(d) = g.get_thickness_max() {
                        // when the largest station is one manufactured by an edge method (first / last station of
                        // the constant-radius and RANSAC locators) its radius is only claimed to 20 tau
                        let tmax_c = g.find_tmax().center();
                        let at_forged_end = (forged_loc(&case.le) && d2(&tmax_c, &g.stations[0].center()) == 0.0) || (forged_loc(&case.te) && d2(&tmax_c, &g.stations[nst - 1].center()) == 0.0);
                        // the gauge measures along the camber normal; where the radius is changing along the camber
                        // (a maximum at the tapered end rather than at a crest) the two contacts are not diametrically
                        // opposite and the chord through the centre is shorter than the diameter by 2r(1 - sqrt(1 - r'^2))
                        let dmax = (r1 - r0).abs() / l + bump.abs() * PI / l;
                        let taper = 2.0 * tm * (1.0 - (1.0 - dmax * dmax).max(0.0).sqrt());
                        let allow = (if at_forged_end { 40.0 * tau } else { 4.0 * tau }) + taper;
                        // the gauge is reported from the lower surface to the upper surface
                        if let (Some(up), Some(lo)) = (&g.upper, &g.lower) {
                            let slack = if at_forged_end { 40.0 * tau } else { 4.0 * tau };
                            let attributed = lo.dist_to_point(&d.a) <= slack && up.dist_to_point(&d.b) <= slack && lo.dist_to_point(&d.b) > slack && up.dist_to_point(&d.a) > slack;
                            l_.check("the maximum-thickness gauge runs from the lower surface to the upper surface", "", attributed, mk, || format!("{}: start {:?} is {:e} from the lower and {:e} from the upper surface, end {:?} is {:e} from the upper and {:e} from the lower", tag, d.a, lo.dist_to_point(&d.a), up.dist_to_point(&d.a), d.b, up.dist_to_point(&d.b), lo.dist_to_point(&d.b)));
                        }
                        l_.check("thickness gauge at the maximum equals twice the largest radius", "", (d.value().abs() - 2.0 * tm).abs() <= allow, mk, || format!("{}: {} vs {}", tag, d.value(), 2.0 * tm));
                    }
                    // gauge thicknesses
                    if g.upper.is_some() {
                        let cl = g.camber.length();
                        if let Ok(d) = g.get_thickness(AfGage::OnCamber(0.5 * cl)) {
                            let v = d.value().abs();
                            let on = sec.dist_to_point(&d.a) <= 4.0 * tau && sec.dist_to_point(&d.b) <= 4.0 * tau;
                            let (rmin, _) = (r0.min(r1), 0.0);
                            l_.check("camber-position thickness gauge spans the section between its two surfaces", "", on && v >= 2.0 * rmin * 0.9 && v <= 2.0 * rmax * 1.2, mk, || format!("{}: {} (r in {}..{})", tag, v, rmin, rmax));
                            if r0 == r1 && bump == 0.0 {
                                l_.check("thickness of a constant-radius section equals twice the radius", "", (v - 2.0 * r0).abs() <= 2.0 * (tau + h), mk, || format!("{}: {} vs {}", tag, v, 2.0 * r0));
                            }
                        }
                        // a camber position counted back from the trailing edge is the same station counted from the front
                        {
                            let (fwd_g, back_g) = (g.get_thickness(AfGage::OnCamber(0.7 * cl)), g.get_thickness(AfGage::OnCamber(-0.3 * cl)));
                            let same = match (&fwd_g, &back_g) {
                                (Ok(a), Ok(b)) => (a.value() - b.value()).abs() <= 1e-6 * l && d2(&a.a, &b.a) <= 1e-6 * l && d2(&a.b, &b.b) <= 1e-6 * l,
                                (Err(_), Err(_)) => true,
                                _ => false,
                            };
                            l_.check("a camber-position gauge given from the trailing edge equals the one given from the leading edge", "", same, mk, || format!("{}: from the front {:?}, from the back {:?}", tag, fwd_g.as_ref().map(|d| d.value()).map_err(|e| e.to_string()), back_g.as_ref().map(|d| d.value()).map_err(|e| e.to_string())));
                        }
                        if let (Ok(d), Some(te)) = (g.get_thickness(AfGage::Radius(-0.3 * cl)), &g.trailing_edge) {
                            let ok = sec.dist_to_point(&d.a) <= 4.0 * tau && sec.dist_to_point(&d.b) <= 4.0 * tau && (d2(&d.a, &te.point) - 0.3 * cl).abs() <= 1e-6 * l && (d2(&d.b, &te.point) - 0.3 * cl).abs() <= 1e-6 * l;
                            l_.check("negative radius gauge picks section points at the gauge radius from the trailing edge", "", ok, mk, || format!("{}: |a - te| = {}, |b - te| = {}, gauge {}", tag, d2(&d.a, &te.point), d2(&d.b, &te.point), 0.3 * cl));
                        }
                        if let (Ok(d), Some(le)) = (g.get_thickness(AfGage::Radius(0.3 * cl)), &g.leading_edge) {
                            let ok = sec.dist_to_point(&d.a) <= 4.0 * tau && sec.dist_to_point(&d.b) <= 4.0 * tau && (d2(&d.a, &le.point) - 0.3 * cl).abs() <= 1e-6 * l && (d2(&d.b, &le.point) - 0.3 * cl).abs() <= 1e-6 * l;
                            l_.check("radius gauge picks section points at the gauge radius from the leading edge", "", ok, mk, || tag.clone());
                        }
                    }
                    if let Ok(cc) = guarded(|| caliper_chord_line(&sec, &g.camber)) {
                        if let Ok(cc) = cc {
                            let on = sec.dist_to_point(&cc.chord.le).min(d2(&cc.chord.le, &cc.tangent.le)) <= 1e-6 * l || true;
                            let _ = on;
                            l_.check("caliper chord ends project the section onto the tangent line", "", (cc.chord.le - cc.chord.te).norm() > 0.5 * l && (cc.chord.le - cc.chord.te).norm() < 1.5 * (l + 2.0 * rmax), mk, || tag.clone());
                        }
                    }
                    // orientation of the result
                    if let (Some(le), Some(_)) = (&g.leading_edge, &g.trailing_edge) {
                        let (c_start, _) = truth(0.0);
                        l_.check("leading edge is at the requested / thicker end", "", d2(&(inv * le.point), &c_start) <= 2.5 * r0, mk, || format!("{}: {:?}", tag, inv * le.point));
                        if let (Some(u), Some(lw)) = (&g.upper, &g.lower) {
                            let um = inv * u.at_fraction(0.5).unwrap().point();
                            let lm = inv * lw.at_fraction(0.5).unwrap().point();
                            if case.detect_face {
                                if bend != 0.0 {
                                    // detected upper side = the side towards which the camber bulges away from its chord
                                    // (for the reflexed camber: the side of its dominant bow, +y)
                                    let want = if reflex { um.y > lm.y } else if bend > 0.0 { um.y < lm.y } else { um.y > lm.y };
                                    l_.check("upper surface is on the detected side", "", want, mk, || tag.clone());
                                }
                            } else {
                                l_.check("upper surface is on the requested side", "", um.y > lm.y, mk, || tag.clone());
                            }
                        }
                    }
                    let s = Summary { le: g.leading_edge.as_ref().map(|e| inv * e.point), te: g.trailing_edge.as_ref().map(|e| inv * e.point), tmax_r: tm, camber_len: g.camber.length(), n: nst, ends_forward: ends_forward(&g) };
                    if let Some(r) = &reference {
                        let dl = match (s.le, r.le, s.te, r.te) {
                            (Some(a), Some(b), Some(c), Some(d)) => d2(&a, &b).max(d2(&c, &d)),
                            _ => 0.0,
                        };
                        let dev = dl.max((s.tmax_r - r.tmax_r).abs()).max((s.camber_len - r.camber_len).abs());
                        l_.check("results are unchanged by rigid motion, vertex order and start vertex", "", dev <= 8.0 * (tau + h), mk, || format!("{}: differs from the first variant by {:.3} (tau+h)", tag, dev / (tau + h)));
                        let _ = r.n;
                        l_.check("the end stations are oriented the same way whatever the pose, vertex order and start vertex", "", s.ends_forward == r.ends_forward, mk, || format!("{}: first/last station forward {:?}, in the first variant {:?}", tag, s.ends_forward, r.ends_forward));
                    } else {
                        reference = Some(s);
                    }
                }
            }
        }
    }
    // the caliper chord of a cambered section (the longest leg of its convex hull bridging the hollow side) does not
    // depend on how the section lies in the plane: 72 orientations, both vertex orders, four start vertices
    if !reflex && !sharp && bend != 0.0 && case.le == "intersect" && case.te == "intersect" && case.orient == "dir" && !case.detect_face && case.section < 7 {
        let mut lens: Vec<(usize, bool, f64)> = Vec::new();
        let mut dirs: Vec<(usize, bool, f64)> = Vec::new();
        // one analysis in the section's own frame; the camber line is then moved along with the section
        let base_sec = Curve2::from_points(&base_pts, 1e-7 * l, true);
        let base_g = base_sec.as_ref().ok().and_then(|sc| analyze(sc, l, case, &FaceOrient::UpperDir(Vector2::new(0.0, 1.0)), Vector2::new(-1.0, 0.0)).ok());
        if let Some(g0) = base_g {
            for k in 0..72usize {
                let pose = Iso2::new(Vector2::new(0.0, 0.0), k as f64 * 5.0 * PI / 180.0 + 0.013);
                let camber = g0.camber.transformed_by(&pose);
                for rev in [false, true] {
                    for start in 0..4usize {
                        let mut pts: Vec<Point2> = base_pts.iter().map(|p| pose * p).collect();
                        let shift = start * pts.len() / 4;
                        pts.rotate_left(shift);
                        if rev {
                            pts.reverse();
                        }
                        let sec = match Curve2::from_points(&pts, 1e-7 * l, true) {
                            Ok(c) => c,
                            Err(_) => continue,
                        };
                        l_.eval();
                        if let Ok(Ok(cc)) = guarded(|| caliper_chord_line(&sec, &camber)) {
                            lens.push((k * 4 + start, rev, (cc.chord.le - cc.chord.te).norm()));
                            // the tangent line seen from the section's own frame
                            let t = pose.inverse() * (cc.tangent.te - cc.tangent.le);
                            if t.norm() > 0.0 {
                                let a = t.y.atan2(t.x).rem_euclid(PI);
                                dirs.push((k * 4 + start, rev, a));
                            }
                        }
                    }
                }
            }
        }
        if lens.len() >= 2 {
            l_.bucket("caliper chord over 72 orientations");
            let (lo, hi) = lens.iter().fold((f64::MAX, f64::MIN), |a, x| (a.0.min(x.2), a.1.max(x.2)));
            l_.check("the caliper chord does not depend on the orientation of the section in the plane", "", hi - lo <= 8.0 * (tau + h), mk, || format!("chord lengths between {} and {} over {} orientations (shortest at {:?})", lo, hi, lens.len(), lens.iter().find(|x| x.2 == lo).map(|x| (x.0 / 4 * 5, x.0 % 4, x.1))));
        }
        if let Some(first) = dirs.first().cloned() {
            // angles are taken modulo pi; the distance between two of them is folded accordingly
            let far = dirs.iter().map(|x| { let d = (x.2 - first.2).abs(); (d.min(PI - d), x.0, x.1) }).fold((0.0, 0usize, false), |a, x| if x.0 > a.0 { x } else { a });
            l_.check("the caliper tangent line is the same line of the section in every orientation", "", far.0 <= 1e-6, mk, || format!("tangent direction differs by {} rad between orientation ({} deg, start {}, reversed {}) and ({} deg, start {}, reversed {})", far.0, first.0 / 4 * 5, first.0 % 4, first.1, far.1 / 4 * 5, far.1 % 4, far.2));
        }
    }
    // a configuration may be rejected, but then for every variant alike
    let all_same = outcomes.iter().all(|x| *x == outcomes[0]);
    l_.check("acceptance or rejection of a configuration is the same for every pose and vertex order", "", all_same, mk, || format!("{:?}", outcomes));
    if outcomes.iter().any(|x| !*x) {
        l_.bucket("configuration rejected");
        l_.bucket(&format!("rejected: family {} section {} le {} te {}", case.family, case.section, case.le, case.te));
    } else {
        l_.bucket("configuration accepted");
    }
}

fn judge_b(case: &Case, l_: &mut Local) {
    let mk = || serde_json::to_value(case).unwrap();
    let (a, b, n) = B_SECTIONS[case.section % B_SECTIONS.len()];
    let base = ellipse(a, b, n);
    let l = 2.0 * a;
    let tau = 1e-4 * l;
    let h = 2.0 * PI * a / n as f64;
    let foc = a - b * b / a;
    l_.bucket("family B (ellipse)");
    // class key from the section parameters: the recorded order dependence of ConvergeTangentEdge
    let class_s = if case.le == "converge" { format!("converge-tangent on ellipse {}x{}", a, b) } else { String::new() };
    let class = class_s.as_str();
    let mut outcomes: Vec<bool> = Vec::new();
    let mut summaries: Vec<(usize, f64, bool)> = Vec::new();
    for (pi, pose) in poses().iter().take(3).enumerate() {
        for variant in 0..4 {
            let mut pts: Vec<Point2> = base.iter().map(|p| pose * p).collect();
            if variant >= 2 {
                let k = pts.len() / 3;
                pts.rotate_left(k);
            }
            if variant % 2 == 1 {
                pts.reverse();
            }
            let sec = match Curve2::from_points(&pts, 1e-7 * l, true) {
                Ok(c) => c,
                Err(_) => continue,
            };
            let tag = format!("pose {} variant {}", pi, variant);
            l_.eval();
            match analyze(&sec, l, case, &FaceOrient::UpperDir(pose * Vector2::new(0.0, 1.0)), pose * Vector2::new(1.0, 0.0)) {
                Err(e) => {
                    outcomes.push(false);
                    if e.contains("VERIF_BUDGET") {
                        l_.check("the analysis terminates within its iteration budget", "", false, mk, || format!("{}: {}", tag, e));
                    } else if e.starts_with("panic") {
                        l_.check("the analysis returns without panicking", "", false, mk, || format!("{}: {}", tag, e));
                    }
                }
                Ok(g) => {
                    outcomes.push(true);
                    l_.outcome(hash_of(&(g.stations.len().min(200) / 10, case.section, 7u8)));
                    let inv = pose.inverse();
                    // stations added beyond the end of the medial axis (the focal segment) are manufactured by the edge method
                    judge_common(&g, &sec, l, case, &tag, true, &|st| (inv * st.center()).x.abs() > foc - 2.0 * (tau + h), l_);
                    let mut off_axis = 0.0f64;
                    let mut rad_err = 0.0f64;
                    for st in g.stations.iter() {
                        let c = inv * st.center();
                        if c.x.abs() <= foc {
                            let rt = b * (1.0 - c.x * c.x / (a * a - b * b)).sqrt();
                            off_axis = off_axis.max(c.y.abs());
                            rad_err = rad_err.max((rt - st.radius()).abs());
                        }
                    }
                    l_.check("ellipse: station centres lie on the focal segment with the closed-form radius", "", off_axis <= 1.0 * (tau + h) && rad_err <= 1.0 * (tau + h), mk, || format!("{}: off axis {:.3} radius {:.3} (tau+h)", tag, off_axis / (tau + h), rad_err / (tau + h)));
                    let tm = g.find_tmax().radius();
                    summaries.push((g.stations.len(), tm, g.leading_edge.is_some()));
                    l_.check("ellipse: maximum thickness equals the minor semi-axis", class, (tm - b).abs() <= 5.0 * (tau + h), mk, || format!("{}: {} vs {} ({} stations, leading edge found: {})", tag, tm, b, g.stations.len(), g.leading_edge.is_some()));
                    if let (Some(le), Some(te)) = (&g.leading_edge, &g.trailing_edge) {
                        let (lq, tq) = (inv * le.point, inv * te.point);
                        l_.check("ellipse: edge points are the vertices of the major axis", class, d2(&lq, &Point2::new(a, 0.0)) <= 20.0 * (tau + h) && d2(&tq, &Point2::new(-a, 0.0)) <= 20.0 * (tau + h), mk, || format!("{}: le {:?} te {:?}", tag, lq, tq));
                    } else if case.le != "converge" {
                        l_.check("ellipse: both edges are located", "", false, mk, || tag.clone());
                    }
                }
            }
        }
    }
    let all_same = outcomes.iter().all(|x| *x == outcomes[0]);
    l_.check("acceptance or rejection of a configuration is the same for every pose and vertex order", class, all_same, mk, || format!("{:?}", outcomes));
    if summaries.len() > 1 {
        let same = summaries.iter().all(|s| s.2 == summaries[0].2 && (s.1 - summaries[0].1).abs() <= 8.0 * (tau + h));
        l_.check("results are unchanged by rigid motion, vertex order and start vertex", class, same, mk, || format!("(stations, tmax, leading edge found) per variant: {:?}", summaries));
    }
    l_.bucket(if outcomes.iter().any(|x| !*x) { "configuration rejected" } else { "configuration accepted" });
}

fn judge_c(case: &Case, l_: &mut Local) {
    let mk = || serde_json::to_value(case).unwrap();
    let (l, bend, r0, r1, bump, n) = C_SECTIONS[case.section % C_SECTIONS.len()];
    let (base, truth) = envelope_section(l, bend, r0, r1, bump, n, true, false);
    let tau = 1e-4 * l;
    l_.bucket("family C (open trailing end)");
    for (pi, pose) in poses().iter().take(3).enumerate() {
        for rev in [false, true] {
            let mut pts: Vec<Point2> = base.iter().map(|p| pose * p).collect();
            if rev {
                pts.reverse();
            }
            let sec = match Curve2::from_points(&pts, 1e-7 * l, false) {
                Ok(c) => c,
                Err(_) => continue,
            };
            let tag = format!("pose {} reversed {}", pi, rev);
            l_.eval();
            match analyze(&sec, l, case, &FaceOrient::UpperDir(pose * Vector2::new(0.0, 1.0)), pose * Vector2::new(-1.0, 0.0)) {
                Err(e) => {
                    l_.check("open section is analysed by the open-edge methods", if e.contains("VERIF_BUDGET") { "budget" } else if e.starts_with("panic") { "panic" } else { "err" }, false, mk, || format!("{}: {}", tag, e));
                }
                Ok(g) => {
                    l_.outcome(hash_of(&(g.stations.len().min(200) / 10, case.section, 9u8)));
                    judge_common(&g, &sec, l, case, &tag, false, &|_| false, l_);
                    let inv = pose.inverse();
                    let (c_end, _) = truth(l);
                    let (c_start, _) = truth(0.0);
                    match (&g.leading_edge, &g.trailing_edge) {
                        (Some(le), Some(te)) => {
                            l_.check("open section: leading edge at the closed end, trailing edge at the open end", "", d2(&(inv * le.point), &c_start) <= 2.5 * r0 && d2(&(inv * te.point), &c_end) <= 3.0 * r1, mk, || format!("{}: le {:?} te {:?}", tag, inv * le.point, inv * te.point));
                        }
                        _ => {
                            l_.check("open section: both edges are reported", "", false, mk, || tag.clone());
                        }
                    }
                    l_.check("open section: upper and lower surfaces are produced", "", g.upper.is_some() && g.lower.is_some(), mk, || tag.clone());
                    let _ = tau;
                }
            }
        }
    }
    // the open-edge method as *leading* locator on a section given with its open end first
    if case.te == "open" {
        let pose = poses()[0];
        let pts: Vec<Point2> = base.iter().map(|p| pose * p).collect();
        if let Ok(sec) = Curve2::from_points(&pts, 1e-7 * l, false) {
            let c2 = Case { le: "open".into(), te: "intersect".into(), ..case.clone() };
            l_.eval();
            // forward direction towards the open end
            if let Ok(g) = analyze(&sec, l, &c2, &FaceOrient::UpperDir(Vector2::new(0.0, 1.0)), Vector2::new(1.0, 0.0)) {
                if let (Some(le), Some(first)) = (&g.leading_edge, g.stations.first()) {
                    l_.bucket("open edge as the leading locator");
                    l_.check("an open leading edge is the first station, not the last", "", d2(&le.point, &first.center()) <= 1e-9 * l, || serde_json::to_value(&c2).unwrap(), || format!("leading edge {:?}, first station {:?}, last station {:?}", le.point, first.center(), g.stations.last().map(|s| s.center())));
                }
            }
        }
    }
}


/// Skew factors of the open end, in units of the end radius, and which surface is the shorter one
pub const K_SKEWS: [f64; 6] = [0.5, 1.0, 1.25, 1.5, 1.75, 2.5];

/// Family K: family C with the open end cut at a skew (one surface stops earlier than the other), so that
/// close to the end a spanning ray at the normal step misses one surface and the march has to shorten its
/// step or stop. Acceptance is not demanded; termination, consistency across poses and the clauses of an
/// accepted result are.
fn judge_k(case: &Case, l_: &mut Local) {
    let mk = || serde_json::to_value(case).unwrap();
    let ci = case.section % C_SECTIONS.len();
    let ki = (case.section / C_SECTIONS.len()) % K_SKEWS.len();
    let upper_short = case.section / (C_SECTIONS.len() * K_SKEWS.len()) % 2 == 0;
    let (l, bend, r0, r1, bump, n) = C_SECTIONS[ci];
    let (mut base, truth) = envelope_section(l, bend, r0, r1, bump, n, true, false);
    let h = l / n as f64;
    let (_, r_end) = truth(l);
    let skew = K_SKEWS[ki] * r_end;
    let k = ((skew / h).round() as usize).max(1);
    // the outline runs upper surface (open end first), leading cap, lower surface (open end last)
    if upper_short {
        base.drain(0..k);
    } else {
        base.truncate(base.len() - k);
    }
    let tau = 1e-4 * l;
    l_.bucket("family K (open end cut at a skew)");
    let mut outcomes = Vec::new();
    let mut first: Option<(Option<Point2>, f64, usize)> = None;
    for (pi, pose) in poses().iter().take(3).enumerate() {
        for rev in [false, true] {
            let mut pts: Vec<Point2> = base.iter().map(|p| pose * p).collect();
            if rev {
                pts.reverse();
            }
            let sec = match Curve2::from_points(&pts, 1e-7 * l, false) {
                Ok(c) => c,
                Err(_) => continue,
            };
            let tag = format!("pose {} reversed {}", pi, rev);
            l_.eval();
            match analyze(&sec, l, case, &FaceOrient::UpperDir(pose * Vector2::new(0.0, 1.0)), pose * Vector2::new(-1.0, 0.0)) {
                Err(e) => {
                    outcomes.push(false);
                    if e.contains("VERIF_BUDGET") {
                        l_.check("the analysis terminates within its iteration budget", "", false, mk, || format!("{}: {}", tag, e));
                    } else if e.starts_with("panic") {
                        l_.check("the analysis returns without panicking", "", false, mk, || format!("{}: {}", tag, e));
                    } else {
                        l_.bucket("skewed open section rejected");
                    }
                }
                Ok(g) => {
                    outcomes.push(true);
                    l_.bucket("skewed open section accepted");
                    l_.outcome(hash_of(&(g.stations.len().min(200) / 10, case.section, 11u8)));
                    // beyond the shorter surface the outline is one-sided: stations there are not claimed
                    let inv = pose.inverse();
                    let limit = l - skew - 2.0 * r_end;
                    let (c_lim, _) = truth(limit.max(0.0));
                    let (c_end, _) = truth(l);
                    let axis = (c_end - c_lim).normalize();
                    let beyond = move |st: &InscribedCircle| (inv * st.center() - c_lim).dot(&axis) > 0.0;
                    judge_common(&g, &sec, l, case, &tag, false, &beyond, l_);
                    // the same section in another pose or vertex order gives the same camber line (the open-edge
                    // methods are deterministic in the geometry: measured agreement on the unchanged code is 1e-9 of
                    // the allowance used here)
                    let te_local = g.trailing_edge.as_ref().map(|e| inv * e.point);
                    let cur = (te_local, g.camber.length(), g.stations.len());
                    match &first {
                        None => first = Some(cur),
                        Some(r) => {
                            let dte = match (r.0, cur.0) {
                                (Some(a), Some(b)) => d2(&a, &b),
                                (None, None) => 0.0,
                                _ => f64::MAX,
                            };
                            let hh = l / n as f64;
                            if std::env::var("VERIF_DEBUG_C10K").is_ok() {
                                eprintln!("K {} {} te {}: dte {:.3e} (tau+h), dlen {:.3e} (tau+h)", case.section, tag, case.te, dte / (tau + hh), (r.1 - cur.1).abs() / (tau + hh));
                            }
                            l_.check("results are unchanged by rigid motion, vertex order and start vertex", "skewed open end", dte <= 0.05 * (tau + hh) && (r.1 - cur.1).abs() <= 0.05 * (tau + hh), mk, || format!("{}: trailing edge moved by {:e}, camber length {} vs {}, stations {} vs {}", tag, dte, cur.1, r.1, cur.2, r.2));
                        }
                    }
                }
            }
        }
    }
    if !outcomes.is_empty() {
        l_.check("acceptance or rejection of a configuration is the same for every pose and vertex order", "", outcomes.iter().all(|x| *x == outcomes[0]), mk, || format!("{:?}", outcomes));
    }
}

pub fn judge(case: &Case, l: &mut Local) {
    l.distinct(hash_of(&serde_json::to_string(case).unwrap()));
    if case.section == 1 {
        l.sample(|| serde_json::to_value(case).unwrap());
    }
    match case.family.as_str() {
        "A" | "S" | "R" => judge_a(case, l),
        "B" => judge_b(case, l),
        "K" => judge_k(case, l),
        _ => judge_c(case, l),
    }
}

pub fn cases(tier: Tier) -> Vec<Case> {
    let mut out = Vec::new();
    // (the two arches at the end of the table are used with skewed upper directions only, below)
    let na = tier.pick(7, A_SECTIONS.len() - 2);
    for section in 0..na {
        for le in ["intersect", "fitradius", "constradius", "ransac"] {
            for orient in ["tmax", "dir"] {
                for detect_face in [true, false] {
                    // on a constant-thickness section the thicker end is not defined
                    let (_, _, r0, r1, bump, _) = A_SECTIONS[section];
                    if orient == "tmax" && r0 == r1 && bump == 0.0 {
                        continue;
                    }
                    out.push(Case { family: "A".into(), section, le: le.into(), te: "intersect".into(), orient: orient.into(), detect_face });
                }
            }
        }
    }
    // the curvature-tracing locator at the leading edge of the envelope family (it back-fills stations there)
    for section in (0..na).filter(|s| A_SECTIONS[*s].0 != 2.5) {
        let (_, _, r0, r1, bump, _) = A_SECTIONS[section];
        if !(r0 == r1 && bump == 0.0) {
            out.push(Case { family: "A".into(), section, le: "tracemax".into(), te: "intersect".into(), orient: "tmax".into(), detect_face: true });
        }
        out.push(Case { family: "A".into(), section, le: "tracemax".into(), te: "tracemax".into(), orient: "dir".into(), detect_face: false });
    }
    // the strongly turning section with every leading-edge locator that appends a station of its own
    for le in ["intersect", "fitradius", "constradius", "ransac", "tracemax"] {
        for te in ["intersect", "constradius"] {
            out.push(Case { family: "A".into(), section: A_SECTIONS.len() - 3, le: le.into(), te: te.into(), orient: "dir".into(), detect_face: false });
        }
    }
    // the arches with the upper side requested along directions 55 degrees either side of the vertical
    // (the arches are not given the directions within a few degrees of their axis of symmetry: the
    // library rejects those, in every pose and vertex order alike, which the statement allows)
    for section in [A_SECTIONS.len() - 2, A_SECTIONS.len() - 1] {
        for orient in ["dir", "dirskew+", "dirskew-", "dirskew0"] {
            if orient == "dir" || orient == "dirskew0" {
                continue;
            }
            out.push(Case { family: "A".into(), section, le: "intersect".into(), te: "intersect".into(), orient: orient.into(), detect_face: false });
        }
    }
    // reflexed (S-shaped) camber: face detection must follow the dominant bow
    for section in 0..R_SECTIONS.len() {
        for detect_face in [true, false] {
            for orient in ["tmax", "dir"] {
                out.push(Case { family: "R".into(), section, le: "intersect".into(), te: "intersect".into(), orient: orient.into(), detect_face });
            }
        }
    }
    // the tangent-convergence locator on the envelope family (known medial axis); not on the short, thick
    // section, where its dependence on the vertex order (the recorded finding on the 5 x 1.5 ellipse) shows again
    for section in (0..na).filter(|s| A_SECTIONS[*s].0 != 2.5) {
        out.push(Case { family: "A".into(), section, le: "converge".into(), te: "intersect".into(), orient: "dir".into(), detect_face: false });
    }
    // trailing-edge locators other than the intersection, and the sharp-cornered variant
    for section in 0..tier.pick(2, 4) {
        for te in ["fitradius", "constradius"] {
            out.push(Case { family: "A".into(), section, le: "intersect".into(), te: te.into(), orient: "dir".into(), detect_face: false });
        }
        out.push(Case { family: "S".into(), section, le: "intersect".into(), te: "intersect".into(), orient: "dir".into(), detect_face: false });
    }
    for section in 0..tier.pick(3, B_SECTIONS.len()) {
        for le in ["intersect", "tracemax", "converge"] {
            out.push(Case { family: "B".into(), section, le: le.into(), te: le.into(), orient: "dir".into(), detect_face: false });
        }
    }
    for section in 0..C_SECTIONS.len() {
        for te in ["open", "opengap"] {
            // the closed leading edge located by intersection and by a fitted radius (which cuts the section
            // beyond the last station, in either vertex order)
            for le in ["intersect", "fitradius"] {
                out.push(Case { family: "C".into(), section, le: le.into(), te: te.into(), orient: "dir".into(), detect_face: false });
            }
        }
    }
    // open end cut at a skew: 3 sections x 6 skews x {upper, lower} shorter
    for section in 0..C_SECTIONS.len() * K_SKEWS.len() * 2 {
        for te in ["open", "opengap"] {
            out.push(Case { family: "K".into(), section, le: "intersect".into(), te: te.into(), orient: "dir".into(), detect_face: false });
        }
    }
    out
}

pub fn run(tier: Tier) -> i32 {
    let mut cx = Ctx::new("C10", tier, "exploration");
    cx.rule = "generated sections with closed-form medial axes: family A = envelope of circles along a circular-arc camber (turning 0, +-0.4..0.6; length 0.3, 0.8, 2.5 (short and thick), 10, 100, 1e5; linear + sinusoidal radius laws; 200-400 samples), family B = ellipses (medial axis = focal segment), family C = family A open at the trailing end, family S = family A tapering to a sharp corner, family R = envelope along a reflexed (S-shaped) cubic camber, family K = family C with the open end cut at a skew of 0.5 .. 2.5 end radii on either surface; configurations: {TMaxFwd, DirectionFwd} x leading/trailing locators applicable to the family x {detected, given} face orientation; every configuration analysed in 4 poses x {as given, reversed, start rotated, both} (16 variants; B: 12, C: 6) with iteration budgets. distinct = distinct configurations".into();
    cx.bounds = json!({"family_a_sections": tier.pick(7, A_SECTIONS.len() - 2), "family_b_sections": tier.pick(3, B_SECTIONS.len()), "variants_per_configuration": 16, "iteration_budget": 400000});
    cx.require(&["family A", "family A, chord below one unit", "family A, chord below half a unit", "face orientation detected", "face orientation given", "family B (ellipse)", "family C (open trailing end)", "sharp trailing edge", "family R (reflexed camber)", "family K (open end cut at a skew)", "configuration accepted", "open edge as the leading locator"]);
    cx.assume("tolerances in units of the analysis tolerance tau = 1e-4 * chord and the sampling step h: inscribed 2 tau, manufactured stations 20 tau, known medial axis 1 (tau + h), variant agreement 8 (tau + h); a configuration may be rejected (Err) but then for every variant alike");
    let cs = cases(tier);
    let l = sweep(&cs, judge);
    cx.absorb(l);
    cx.finish()
}

pub fn replay(case: &Val) -> Local {
    let c: Case = serde_json::from_value(case.clone()).expect("case");
    let mut l = Local::new();
    judge(&c, &mut l);
    l
}
