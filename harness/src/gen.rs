//! Finite alphabets: lattices, vertex sequences, isometry menus
use engeom::{Iso2, Iso3, Point2, Point3, Vector2, Vector3};

pub fn lattice2(k: i32) -> Vec<[i32; 2]> {
    let mut v = Vec::new();
    for x in 0..k {
        for y in 0..k {
            v.push([x, y]);
        }
    }
    v
}

pub fn lattice3(k: i32) -> Vec<[i32; 3]> {
    let mut v = Vec::new();
    for x in 0..k {
        for y in 0..k {
            for z in 0..k {
                v.push([x, y, z]);
            }
        }
    }
    v
}

/// All index sequences of length `min_len..=max_len` over `0..n` with no two equal consecutive
/// entries, shortest first
pub fn seqs(n: usize, min_len: usize, max_len: usize) -> Vec<Vec<usize>> {
    let mut out = Vec::new();
    let mut level: Vec<Vec<usize>> = (0..n).map(|i| vec![i]).collect();
    for len in 1..=max_len {
        if len >= min_len {
            out.extend(level.iter().cloned());
        }
        if len == max_len {
            break;
        }
        let mut next = Vec::with_capacity(level.len() * (n - 1));
        for s in &level {
            for i in 0..n {
                if i != *s.last().unwrap() {
                    let mut t = s.clone();
                    t.push(i);
                    next.push(t);
                }
            }
        }
        level = next;
    }
    out
}

pub fn p2(c: [i32; 2], scale: f64) -> Point2 {
    Point2::new(c[0] as f64 * scale, c[1] as f64 * scale)
}

pub fn p3(c: [i32; 3], scale: f64) -> Point3 {
    Point3::new(c[0] as f64 * scale, c[1] as f64 * scale, c[2] as f64 * scale)
}

pub const ROT_MENU: [f64; 8] = [
    0.0,
    std::f64::consts::FRAC_PI_6,
    -std::f64::consts::FRAC_PI_6,
    std::f64::consts::FRAC_PI_2,
    std::f64::consts::PI,
    2.1,
    -3.0,
    1e-7,
];

pub fn iso2_menu() -> Vec<Iso2> {
    let mut v = Vec::new();
    for t in [[0.0, 0.0], [3.0, -2.0], [1e3, -7e2]] {
        for r in ROT_MENU {
            v.push(Iso2::new(Vector2::new(t[0], t[1]), r));
        }
    }
    v
}

pub fn iso3_menu() -> Vec<Iso3> {
    let axes = [
        Vector3::new(1.0, 0.0, 0.0),
        Vector3::new(0.0, 1.0, 0.0),
        Vector3::new(0.0, 0.0, 1.0),
        Vector3::new(1.0, 1.0, 1.0).normalize(),
        Vector3::new(1.0, 2.0, -3.0).normalize(),
    ];
    let mut v = Vec::new();
    for t in [[0.0, 0.0, 0.0], [3.0, -2.0, 5.0], [1e3, -7e2, 4e2]] {
        v.push(Iso3::translation(t[0], t[1], t[2]));
        for ax in axes.iter() {
            for r in &ROT_MENU[1..7] {
                v.push(Iso3::new(Vector3::new(t[0], t[1], t[2]), ax * *r));
            }
        }
    }
    v
}

/// A few well spread poses (subset of the menu) for checks that are expensive per pose
pub fn iso3_poses() -> Vec<Iso3> {
    vec![
        Iso3::identity(),
        Iso3::new(Vector3::new(3.0, -2.0, 5.0), Vector3::new(0.0, 0.0, 1.0) * 2.1),
        Iso3::new(
            Vector3::new(-1.0, 4.0, 0.5),
            Vector3::new(1.0, 1.0, 1.0).normalize() * -3.0,
        ),
        Iso3::new(
            Vector3::new(1e3, -7e2, 4e2),
            Vector3::new(1.0, 2.0, -3.0).normalize() * std::f64::consts::FRAC_PI_6,
        ),
        Iso3::new(Vector3::new(0.0, 0.0, 0.0), Vector3::new(1.0, 0.0, 0.0) * std::f64::consts::PI),
    ]
}

pub fn iso2_poses() -> Vec<Iso2> {
    vec![
        Iso2::identity(),
        Iso2::new(Vector2::new(3.0, -2.0), 2.1),
        Iso2::new(Vector2::new(-40.0, 25.0), -3.0),
        Iso2::new(Vector2::new(1e3, -7e2), std::f64::consts::FRAC_PI_6),
    ]
}

/// `v` and its neighbours: one ulp either side
pub fn ulps(v: f64) -> [f64; 3] {
    [v, v.next_up(), v.next_down()]
}

/// Structured large polylines (all QBVH occupancies and depths): family x number of edges
pub const LARGE_FAMILIES: [&str; 7] = ["circle", "zigzag", "spiral", "comb", "nested", "coincident", "longthin"];
pub const LARGE_SIZES: [usize; 15] = [5, 6, 7, 8, 9, 12, 13, 16, 17, 33, 64, 65, 257, 1000, 5000];

pub fn large_polyline(family: &str, edges: usize) -> Vec<Point2> {
    let n = edges + 1;
    let f = |i: usize| i as f64 / edges as f64;
    (0..n)
        .map(|i| {
            let t = f(i);
            match family {
                "circle" => {
                    let a = t * std::f64::consts::TAU * 0.95;
                    Point2::new(4.0 * a.cos(), 4.0 * a.sin())
                }
                "zigzag" => Point2::new(8.0 * t - 4.0, if i % 2 == 0 { -1.0 } else { 1.0 + (i % 3) as f64 / 3.0 }),
                "spiral" => {
                    let a = t * std::f64::consts::TAU * 3.0;
                    let r = 0.5 + 3.5 * t;
                    Point2::new(r * a.cos(), r * a.sin())
                }
                "comb" => {
                    // teeth: up, across, down, across
                    let k = i / 4;
                    let x = 8.0 * (k as f64 * 2.0 + if i % 4 >= 2 { 1.0 } else { 0.0 }) / (edges as f64 / 2.0 + 1.0) - 4.0;
                    let y = if i % 4 == 1 || i % 4 == 2 { 3.0 } else { -3.0 };
                    Point2::new(x, y)
                }
                "nested" => {
                    // two turns, the second just inside the first
                    let a = t * std::f64::consts::TAU * 2.0;
                    let r = if t < 0.5 { 4.0 } else { 3.9 };
                    Point2::new(r * a.cos(), r * a.sin())
                }
                "coincident" => {
                    // out along a line and back 1e-3 above it
                    if t <= 0.5 {
                        Point2::new(-4.0 + 16.0 * t, 0.0)
                    } else {
                        Point2::new(4.0 - 16.0 * (t - 0.5), 1e-3)
                    }
                }
                _ => {
                    // long thin rectangle-like open chain
                    let per = 2.0 * (1000.0 + 0.01);
                    let s = t * per * 0.999;
                    if s < 1000.0 {
                        Point2::new(s - 500.0, 0.0)
                    } else if s < 1000.01 {
                        Point2::new(500.0, s - 1000.0)
                    } else {
                        Point2::new(500.0 - (s - 1000.01), 0.01)
                    }
                }
            }
        })
        .collect()
}
