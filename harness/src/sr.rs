//! The C16 deviation-set machine expressed as a `stateright::Model`: an independent explicit-state
//! engine exploring the same real code; its unique-state count must equal the harness BFS's.
use engeom::metrology::{SurfaceDeviation2, SurfaceDeviationSet2};
use engeom::{Point2, SurfacePoint2, Vector2};
use stateright::{Checker, Model, Property};
use std::hash::{Hash, Hasher};

#[allow(dead_code)]
pub const DEV_ALPHABET: [f64; 5] = [-2.0, -1.0, 0.0, 0.5, 3.0];

fn dev(id: usize, d: f64) -> SurfaceDeviation2 {
    SurfaceDeviation2::new(SurfacePoint2::new_normalize(Point2::new(id as f64, 0.0), Vector2::new(0.0, 1.0)), d)
}

#[derive(Clone, Debug)]
pub struct SrDev {
    pub init: Vec<f64>,
    pub via_new: bool,
    pub pushes: Vec<f64>,
}

impl SrDev {
    pub fn build(&self) -> SurfaceDeviationSet2 {
        let mut s = if self.via_new { SurfaceDeviationSet2::new(self.init.iter().enumerate().map(|(i, d)| dev(i, *d)).collect()) } else { SurfaceDeviationSet2::default() };
        for (k, d) in self.pushes.iter().enumerate() {
            // both spellings of a push, alternating
            if k % 2 == 0 {
                s.push(dev(self.init.len() + k, *d));
            } else {
                let x = dev(self.init.len() + k, *d);
                s.push_new(x.surface, x.deviation);
            }
        }
        s
    }
    pub fn contents(&self) -> Vec<f64> {
        self.init.iter().chain(self.pushes.iter()).cloned().collect()
    }
    pub fn try_build(&self) -> Option<SurfaceDeviationSet2> {
        crate::engine::guarded(|| self.build()).ok()
    }
    pub fn key(&self) -> (Vec<i64>, i64, i64) {
        let s = match self.try_build() {
            Some(s) => s,
            None => return (self.contents().iter().map(|v| (v * 10.0) as i64).collect(), -2, -2),
        };
        (self.contents().iter().map(|v| (v * 10.0) as i64).collect(), s.max().map(|d| d.surface.point.x as i64).unwrap_or(-1), s.min().map(|d| d.surface.point.x as i64).unwrap_or(-1))
    }
}
impl Hash for SrDev {
    fn hash<H: Hasher>(&self, h: &mut H) {
        self.key().hash(h)
    }
}
impl PartialEq for SrDev {
    fn eq(&self, o: &Self) -> bool {
        self.key() == o.key()
    }
}
impl Eq for SrDev {}

pub struct DevModel {
    pub max_len: usize,
}

impl Model for DevModel {
    type State = SrDev;
    type Action = usize;
    fn init_states(&self) -> Vec<SrDev> {
        let mut init = vec![SrDev { init: vec![], via_new: false, pushes: vec![] }, SrDev { init: vec![], via_new: true, pushes: vec![] }];
        for a in DEV_ALPHABET {
            init.push(SrDev { init: vec![a], via_new: true, pushes: vec![] });
            for b in DEV_ALPHABET {
                init.push(SrDev { init: vec![a, b], via_new: true, pushes: vec![] });
            }
        }
        init
    }
    fn actions(&self, s: &SrDev, a: &mut Vec<usize>) {
        if s.pushes.len() < self.max_len {
            a.extend(0..DEV_ALPHABET.len());
        }
    }
    fn next_state(&self, s: &SrDev, a: usize) -> Option<SrDev> {
        let mut n = s.clone();
        n.pushes.push(DEV_ALPHABET[a]);
        Some(n)
    }
    fn properties(&self) -> Vec<Property<Self>> {
        vec![Property::always("extremes track the contents", |_, s: &SrDev| {
            let set = match s.try_build() {
                Some(x) => x,
                None => return false,
            };
            let vals = s.contents();
            if vals.is_empty() {
                return set.max().is_none() && set.min().is_none() && set.symmetrical_zone_size() == 0.0;
            }
            let mx = vals.iter().cloned().fold(f64::NEG_INFINITY, f64::max);
            let mn = vals.iter().cloned().fold(f64::INFINITY, f64::min);
            set.len() == vals.len() && set.max().map(|d| d.deviation) == Some(mx) && set.min().map(|d| d.deviation) == Some(mn) && set.symmetrical_zone_size() == 2.0 * mx.abs().max(mn.abs())
        })]
    }
}

/// Returns (unique states, max depth, all properties hold)
pub fn devset_model_check(max_len: usize, threads: usize) -> (usize, usize, bool) {
    let c = DevModel { max_len }.checker().threads(threads).spawn_bfs().join();
    let ok = c.discoveries().is_empty();
    (c.unique_state_count(), c.max_depth(), ok)
}
