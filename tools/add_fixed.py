#!/usr/bin/env python3
"""usage: add_fixed.py <property> <grep-for-commit-subject> <what failed>"""
import json,subprocess,sys
prop,grep,what=sys.argv[1:4]
h=subprocess.run(["git","-C","/repo","log","--format=%h","--grep",grep],capture_output=True,text=True).stdout.split()
assert len(h)==1,(grep,h)
p='/verif/known_findings.json'; k=json.load(open(p))
k['fixed'].append(f"fixed: property={prop} {h[0]} {what}")
json.dump(k,open(p,'w'),indent=1); print(k['fixed'][-1])
