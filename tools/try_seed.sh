#!/bin/bash
# usage: try_seed.sh <seed-id> [property]   applies the seed patch to /repo, runs the property's quick check, reverts
cd /verif
s=$1; p=${2:-${s%%-*}}
git -C /repo apply /verif/seeded/$s/patch.diff || exit 3
./check $p quick > /verif/.target/try_$s.log 2>&1; e=$?
git -C /repo checkout -- .
echo "$s exit=$e $(grep -c '^VIOLATION' /verif/.target/try_$s.log) violations: $(grep -o 'clause="[^"]*"' /verif/.target/try_$s.log | sort -u | head -4 | tr '\n' ' ')"
