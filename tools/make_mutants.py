#!/usr/bin/env python3
"""Generates hand-written mutant patches (realistic slips in the anchored mechanisms) into /verif/mutants/.
Each entry: (name, property, file, old, new, what). `old` must occur exactly once."""
import subprocess, json, sys
M = [
 ("m-C01-last-vertex-fraction","C01","src/geom2/curve2.rs","            (index - 1, 1.0)\n        } else {\n            (index, 0.0)\n        };\n\n        CurveStation2::new(","            (index - 1, 0.0)\n        } else {\n            (index, 0.0)\n        };\n\n        CurveStation2::new(","Curve2::at_vertex reports the last vertex as (n-2, 0.0)"),
 ("m-C01-fraction-denominator","C01","src/geom3/curve3.rs","let f = remaining / (self.lengths[index + 1] - self.lengths[index]);","let f = remaining / self.lengths[index + 1];","Curve3::at_length fraction divides by the cumulative length"),
 ("m-C02-barycentric-index","C02","src/geom3/curve3.rs","            sp.barycentric_coordinates()[1],","            sp.barycentric_coordinates()[0],","Curve3 closest-point fraction taken from the wrong barycentric coordinate"),
 ("m-C03-normal-translated","C03","src/geom3/plane3.rs","        let pos = self.normal.into_inner() * self.d;\n        let repr = SurfacePoint3::new(pos.into(), self.normal);\n\n        let new_repr = repr.transformed(iso);","        let pos = self.normal.into_inner() * self.d;\n        let repr = SurfacePoint3::new(pos.into(), self.normal);\n\n        let new_repr = SurfacePoint3::new(repr.point, iso * repr.normal);","Plane3::transform_by rotates the normal but keeps the offset"),
 ("m-C04-control-inclusive","C04","src/geom2/curve2.rs","        if lower < control && control < upper {","        if lower < control || control < upper {","between_lengths_by_control picks the inner piece for any control"),
 ("m-C04-loop-exit-strict","C04","src/geom2/curve2.rs","                } else if working.length_along() <= end.length_along() && next_index > end.index {","                } else if working.length_along() < end.length_along() && next_index > end.index {","portion loop never reaches its exit when the start lies exactly on a vertex of the last edge: unbounded walk"),
 ("m-C04-last-index","C04","src/geom2/curve2.rs","                if next_index > last_index {","                if next_index >= last_index {","between_lengths wraps one vertex early"),
 ("m-C05-fill-gaps-short","C05","src/common/points.rs","            while d / (n + 1) as f64 > max_dist {","            while d / (n + 2) as f64 > max_dist {","fill_gaps inserts one point too few"),
 ("m-C05-padding","C05","src/geom3/curve3.rs","    let padding = (curve.length() - positions.last().unwrap()) / 2.0;","    let padding = (curve.length() - positions.last().unwrap()) / 3.0;","Curve3 fixed-spacing resample is not centred"),
 ("m-C06-tmin-zero","C06","src/geom2/polyline2.rs","    let mut tmin = SimdReal::splat(f64::MIN);","    let mut tmin = SimdReal::splat(0.0);","ray/box test rejects boxes behind the origin (negative parameters)"),
 ("m-C06-edge-half-open","C06","src/geom2/polyline2.rs","        if (0.0..=1.0).contains(&t1) {","        if (0.0..1.0).contains(&t1) {","per-edge test excludes the far end of every edge"),
 ("m-C07-stale-closest","C07","src/geom3/align3/points_to_mesh.rs","            self.closest.push(self.mesh.surf_closest_to(&m));","            self.closest.push(self.mesh.surf_closest_to(p));","closest points computed from the unmoved points"),
 ("m-C08-stale-rc","C08","src/geom3/align3.rs","        self.current_rc = self.transform * self.rc;\n","","RcParams3::compute does not refresh the moved rotation centre"),
 ("m-C08-stale-rc2","C08","src/geom2/align2/rc_params2.rs","        self.current_rc = self.transform * self.rc;\n","","RcParams2::compute does not refresh the moved rotation centre"),
 ("m-C09-unweighted-rhs","C09","src/func1/polynomial.rs","                rhs[(k, 0)] += wxk * ys[i];","                rhs[(k, 0)] += xs[i].powi(k as i32) * ys[i];","right-hand side accumulated without the weight"),
 ("m-C11-inverted-plane","C19","src/geom3/plane3.rs","        Self::new(-self.normal, -self.d)","        Self::new(-self.normal, self.d)","Plane3::inverted_normal keeps the offset sign"),
 ("m-C12-sym-key","C12","src/geom3/mesh/patches.rs","    if k.0 < k.1 {","    if k.0 < k.1 || k.0 > 2 {","undirected edge key not symmetric for some vertices"),
 ("m-C12-6-neighbours","C12","src/raster3.rs","                    for z in -1..=1 {","                    for z in 0..=1 {","voxel neighbourhood misses the layer below"),
 ("m-C13-split-sign","C13","src/geom3/mesh/queries.rs","        let result = self.shape.local_split(&plane.normal, plane.d, 1.0e-6);","        let result = self.shape.local_split(&plane.normal, -plane.d, 1.0e-6);","split passes the negated offset"),
 ("m-C14-keep-complement","C14","src/geom3/mesh/filtering.rs","                self.indices.retain(|i| check_set.contains(i));","                self.indices.retain(|i| !check_set.contains(i));","Keep retains the complement"),
 ("m-C15-radius-not-squared","C15","src/common/kd_tree.rs","radius * radius);","radius);","radius query passes the radius where its square is expected"),
 ("m-C15-partial-index","C15","src/common/kd_tree.rs","        (self.index_map[i], d)","        (i, d)","partial tree forgets the index map in nearest_one"),
 ("m-C17-between-dup-end","C17","src/func1/series1.rs","        if xs[xs.len() - 1] < x1 {","        if xs[xs.len() - 1] <= x1 {","slice repeats its end abscissa with the same ordinate (abscissae stay ascending in the library's non-strict sense, every evaluation unchanged) -- control mutant, property-preserving"),
 ("m-C10-tmax-half","C10","src/airfoil/orientation.rs","        if fraction > 0.5 {","        if fraction < 0.5 {","TMaxFwd reverses the camber line when the thickest station is already forward"),
 ("m-C10-order-faces","C10","src/airfoil.rs","        if a_m > b_m {","        if a_m < b_m {","upper and lower surfaces swapped"),
 ("m-C16-min-uses-max","C16","src/metrology/surface_deviation.rs","            || deviation.deviation < self.values[self.min_index.unwrap()].deviation","            || deviation.deviation < self.values[self.max_index.unwrap()].deviation","push compares the new value with the maximum when updating the minimum"),
 ("m-C16-tolmap-first","C16","src/metrology/tolerance_map.rs","            Some(self.tol_zones[self.tol_zones.len() - 1])","            Some(self.tol_zones[0])","tolerance map returns the first zone outside the table"),
 ("m-C16-merge-early","C16","src/geom3/point_cloud.rs","        if self.colors.is_some() != other.colors.is_some() {\n            return Err(\"Cannot merge point clouds with inconsistent color data\".into());\n        }\n\n        // Merge the points\n        self.points.extend(other.points);","        // Merge the points\n        self.points.extend(other.points.clone());\n        if self.colors.is_some() != other.colors.is_some() {\n            return Err(\"Cannot merge point clouds with inconsistent color data\".into());\n        }","merge extends the points before the colour presence check"),
 ("m-C19-plane-orientation","C19","src/geom3/plane3.rs","        let normal = UnitVec3::new_normalize((p2 - p1).cross(&(p3 - p1)));\n        Self::from((&normal, p1))","        let normal = UnitVec3::new_normalize((p2 - p1).cross(&(p3 - p1)));\n        Self::from((&normal, p2))","plane from three points anchored on the second point (harmless) -- control mutant"),
 ("m-C20-uv-point-order","C20","src/geom3/mesh/uv_mapping.rs","            + tri.b.coords * barycentric[1]\n            + tri.c.coords * barycentric[2];","            + tri.b.coords * barycentric[2]\n            + tri.c.coords * barycentric[1];","UvMapping::point swaps two barycentric coordinates"),
 ("m-C11-arc-length-signed","C11","src/geom2/circle2.rs","        self.circle.ball.radius * self.angle.abs()","        self.circle.ball.radius * self.angle","arc length negative for clockwise arcs"),
 ("m-C02-angle-and","C02","src/geom3/mesh/queries.rs","                if angle < max_angle || angle > PI - max_angle {","                if angle < max_angle {","angle filter rejects offsets on the back side of the face"),
 ("m-C03-sp-normal-not-rotated","C03","src/common/surface_point.rs","        Self::new(t * self.point, t * self.normal)","        Self::new(t * self.point, self.normal)","SurfacePoint::transformed moves the point but keeps the normal"),
 ("m-C13-section-tol","C13","src/geom3/mesh/queries.rs","                if let Ok(curve) = Curve3::from_points(&points, tol) {","                if let Ok(curve) = Curve3::from_points(&points[1..], tol) {","section drops the first vertex of every chain"),
 ("m-C17-resample-step","C17","src/func1/series1.rs","        let step_size = (self.x_max() - self.x_min()) / (n as f64 - 1.0);","        let step_size = (self.x_max() - self.x_min()) / (n as f64);","resampled_n step computed with n instead of n-1 (last point short of x_max)"),
 ("m-C17-shift-y-only","C17","src/func1/series1.rs","        let xs = self.x.iter().map(|v| v + shift_x).collect::<Vec<f64>>();\n        let ys = self.y.iter().map(|v| v + shift_y).collect::<Vec<f64>>();","        let xs = self.x.iter().map(|v| v + shift_x).collect::<Vec<f64>>();\n        let ys = self.y.iter().map(|v| v + shift_x).collect::<Vec<f64>>();","shift_by adds the x shift to the ordinates"),
 ("m-C18-negative-extent","C18","src/common/angles.rs","            let start = angle_to_2pi(start + angle);","            let start = angle_to_2pi(start);","negative extent keeps the start"),
 ("m-C18-overlaps","C18","src/common/interval.rs","        self.contains(other.min) || other.contains(self.min)","        self.contains(other.min) || other.contains(self.max)","overlaps tests the wrong bound"),
]
idx = json.load(open('/verif/mutants/index.json'))
for name, prop, f, old, new, what in M:
    p = '/repo/' + f
    s = open(p, newline='').read()
    if s.count(old) != 1:
        print("SKIP (site not unique/found):", name, s.count(old)); continue
    open(p, 'w', newline='').write(s.replace(old, new))
    d = subprocess.run(["git","-C","/repo","diff","--","src"],capture_output=True).stdout
    open(f'/verif/mutants/{name}.diff','wb').write(d)
    subprocess.run(["git","-C","/repo","checkout","--","src"],check=True)
    idx[name + '.diff'] = {"property": prop, "kind": "hand-written mutant", "what": what, "applies": True}
    print("wrote", name)
json.dump(idx, open('/verif/mutants/index.json','w'), indent=1)
