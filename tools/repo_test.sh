#!/bin/bash
# runs the pinned baseline suite (feature off) and, optionally, with the hooks on
cd /repo && cargo nextest run --workspace --no-fail-fast --tool-config-file pb:/w/lib/nextest.toml --profile pb --test-threads 8 --offline 2>&1 | grep -E "Summary|FAIL|error" | head -20
