#!/usr/bin/env python3
"""Lists, per property, the public functions of the property's anchor files whose names never occur in the
harness sources: calls the checks cannot be exercising. Not a verdict (many are outside the statement), but
every blind spot found by the seeded changes so far was a gap of this kind, so the list is reviewed whenever
checks are extended. usage: api_audit.py"""
import json, re, glob, os
harness = ''.join(open(f).read() for f in glob.glob('/verif/harness/src/**/*.rs', recursive=True))
for line in open('/verif/properties.jsonl'):
    p = json.loads(line)
    miss = set()
    for f in p['anchors']['files']:
        path = '/repo/' + f
        if not os.path.exists(path):
            continue
        src = open(path).read().split('#[cfg(test)]')[0]
        for m in re.finditer(r'pub fn (\w+)', src):
            name = m.group(1)
            if not name.startswith('verif_') and not re.search(r'\b' + name + r'\b', harness):
                miss.add(f.split('/')[-1] + '::' + name)
    print(p['id'], len(miss), ', '.join(sorted(miss)))
