#!/usr/bin/env python3
"""Runs the seeded changes against the checks AS THEY WERE at an earlier /verif commit (checked out at
/root/scratch/oldverif, built into /root/scratch/oldtarget), to record which seeds the first version of a
check missed. usage: run_seeded_at.py <label> [seed ids...]   -> seeded/first_version_results.json"""
import json, subprocess, sys, os, re, glob
label = sys.argv[1]; only = sys.argv[2:]
def sh(cmd, **kw):
    return subprocess.run(cmd, shell=True, capture_output=True, text=True, **kw)
env = "CARGO_NET_OFFLINE=true CARGO_TARGET_DIR=/root/scratch/oldtarget"
assert sh("git -C /repo status --porcelain -- src").stdout.strip() == ""
out_path = '/verif/seeded/first_version_results.json'
res = json.load(open(out_path)) if os.path.exists(out_path) else {"checks_at_commit": label, "results": {}}
for d in sorted(glob.glob('/verif/seeded/C*')):
    sid = os.path.basename(d)
    if only and sid not in only:
        continue
    prop = json.load(open(d + '/meta.json'))['property']
    if sh(f"git -C /repo apply {d}/patch.diff").returncode:
        continue
    try:
        b = sh(f"cd /root/scratch/oldverif/harness && {env} cargo build --release --offline 2>&1 | tail -2")
        r = sh(f"cd /verif && /root/scratch/oldtarget/release/vcheck {prop} quick", timeout=1800)
        viol = [l for l in r.stdout.split('\n') if l.startswith('VIOLATION')]
        res["results"][sid] = {"exit": r.returncode, "detected": r.returncode == 1 and bool(viol), "clauses": sorted(set(re.findall(r'clause="([^"]*)"', '\n'.join(viol))))[:4]}
        print(sid, res["results"][sid]["detected"], res["results"][sid]["clauses"][:2], flush=True)
    finally:
        sh("git -C /repo checkout -- .")
    json.dump(res, open(out_path, 'w'), indent=1)
