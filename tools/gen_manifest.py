#!/usr/bin/env python3
"""Regenerates /verif/MANIFEST.json from the table below (one entry per claimed property)."""
import json, subprocess, sys

TECH_SWEEP = "small-scope exhaustive input enumeration (every input of a finite alphabet up to a size bound) of the real code against a reference model"
TECH_BFS = "explicit-state breadth-first search over the real methods (canonical-state de-duplication, invariant on every state, reference-model agreement on every transition)"
TECH_CHOICE = "deviation-bounded stateless exploration of environment choice points (hash-iteration orders / RNG draws) under a controlled choice script, CHESS-style iterative bounding"

ENTRIES = {
 "C01": dict(cat="exploration", engine="sweep", tech=TECH_SWEEP,
  text="Bounded exhaustive exploration of the real Curve2/Curve3 station code: every lattice vertex sequence up to the length bound x closure x scale x tolerance (0, 1e-9, 1 and 1.5 lattice steps, so closing gaps exactly equal to the tolerance occur), every critical arc length (incl. +-1 ulp), compared with a linear-scan reference model; closedness itself is judged on the stored end vertices. No execution in the enumerated space violates the property.",
  note="Small-scope hypothesis (local index/branch rules fail on small instances); tolerances 1e-9*extent / 16 ulp of L; direction at exactly reversing vertices is undefined by the statement and counted as gray."),
 "C02": dict(cat="exploration", engine="sweep", tech=TECH_SWEEP,
  text="Every small lattice curve (2D/3D) and 105 structured large polylines (5..5000 edges, every QBVH occupancy/depth) x query grids, all 1024 small height-field meshes + 4 solids x query grid (incl. points 1e-7 .. 3e-4 off the surface) x distance caps x angle limits x {no transform, two transforms}, each answer compared with brute force over every edge/face (distance, point, index/fraction or face/barycentric location, normal, cap and angle filters).",
  note="Ties: any minimiser accepted; gray zones at distance == cap, zero offset, angle on the acceptance boundary; inside queries only on non-solid meshes (is_solid is inert for Mesh::new)."),
 "C03": dict(cat="exploration", engine="sweep", tech=TECH_SWEEP + " (metamorphic oracle: f(Tx)=f(x), g(Tx)=T g(x))",
  text="Every entity of a finite menu (lattice curves, 16 meshes, 120 planes, surface points, segments, point clouds, distances) x the full isometry menu (24 in 2D, 93 in 3D, translations up to 1e3) x query grids; invariance of scalars, equivariance of geometric results, inverse and composition clauses.",
  note="Recorded finding (known_findings.json): the normal / ToPlane deviation at mesh edges and vertices depends on the frame. Closest points compared only when the brute-force minimiser is unique; tolerance 1e-9*(1+|t|+extent)."),
 "C04": dict(cat="model_checking", engine="bfs", tech=TECH_BFS,
  text="Explicit-state breadth-first search over curves reachable by <= 3 portion/split/trim/reverse operations from every small lattice curve; every transition calls the real method and is compared with the arc-length reference piece; portion-of-portion is compared with the direct portion (history vs from-scratch).",
  note="Bounded depth and root size; pieces compared within 4*tol (the curve constructor merges vertices within tol at each end); requests inside the tolerance band are gray; tolerance-scale pieces are judged but not expanded."),
 "C05": dict(cat="exploration", engine="sweep", tech=TECH_SWEEP,
  text="Every lattice curve up to the length bound (2D open/closed, 3D) x scales straddling one unit of length x the full request menu for resample (count, spacing, max spacing), simplify, RDP and fill_gaps, judged against the arc-length point function and brute-force segment distances.",
  note="Resampling clauses judged on simple (non self-overlapping) sources only, where span and spacing are well defined; degenerate requests on closed curves may be rejected (gray)."),
 "C06": dict(cat="exploration", engine="sweep", tech=TECH_SWEEP + " (differential: accelerated search vs per-edge scan)",
  text="Every vertex sequence over the 4x4 lattice up to the length bound and 105 structured large polylines x a grid of origins x 14 directions (axis-parallel, zero components, negative parameters, near-parallel): the QBVH-accelerated search must equal sort+dedup of the per-edge routine over every edge and an independent closed form; spanning ray, largest intersection, farthest vertex and surface-point intersections are checked against the same scan.",
  note="A mismatch is gray only for a line grazing a vertex (both neighbours on one side) or touching an end vertex; transversal crossings through a vertex must be reported."),
 "C07": dict(cat="model_checking", engine="bfs, sweep", tech="explicit enumeration of all set_params histories (<= 3 over a 5-vector alphabet) of the real private least-squares problems through cfg hooks, history-vs-fresh-problem oracle; plus exhaustive sweep of a stated displacement basin",
  text="Every set_params history of length <= 3 of the private 2D points-to-curve and 3D points-to-mesh problems (reached through feature-guarded observers) must give observations identical to a fresh problem holding only the last parameters, with residuals recomputed by brute force; every displacement of a stated basin x initial guess x sample density x DistMode on 3 reference curves and 2 reference meshes must be recovered to 1e-6, every Ok result (also from out-of-basin starts) must report honest residuals and a non-increased sum of squares.",
  note="Basin is stated and small (5% of the smallest feature, 10 deg 2D / 2 deg 3D); LM convergence outside it is not claimed. Plane-mode residuals may use any minimising face."),
 "C08": dict(cat="exploration", engine="sweep", tech=TECH_SWEEP + " (closed-form and central-finite-difference oracles)",
  text="Every Euler triple of an 18-value alphabet (incl. pitch within 1e-9..1e-3 of +-pi/2) x translations x rotation centres up to 1e3 for the rotation-centred parameter objects (3 updates each against the independent formula), Euler derivative matrices, isometry<->parameter round trips, every entry of the four analytic Jacobians against central finite differences on lattice probes, ParamHandler layouts.",
  note="Jacobian tolerance 1e-5*lever (h=1e-6), residual kinks skipped; reproduction tolerance 1e-9*(1+|t|+|rc|)."),
 "C09": dict(cat="exploration", engine="sweep, bfs", tech=TECH_SWEEP + "; CircleFit: all set_params histories <= 3 vs fresh problem",
  text="Polynomial fits K=2..6: coefficient vectors from a 5-value alphabet x 5 abscissa sets (asymmetric, one-sided, clustered, offset, symmetric) x sizes x weight patterns for exact recovery, arbitrary ordinates for the orthogonality (normal-equation) clause, best_fit_line vs degree 1; circle fits over centres x radii x arc extents x guesses x modes, stationarity on perturbed data, CircleFit history independence, every lattice triple for the three-point circle at six scales, seeded RANSAC on contaminated sets.",
  note="Recovery tolerance scales with the condition number of the normal matrix (explicit inverse); cond > 1e8 skipped and counted; three-point circles: collinearity decided exactly on the lattice indices at six scales (1e-5 .. 1e4); the CircleFit fresh problem is constructed at the last parameters."),
 "C10": dict(cat="exploration", engine="sweep", tech="exhaustive enumeration of a finite configuration space (edge locators x orientation methods x face modes) over generated section families with closed-form medial axes, each configuration executed in 16 pose / vertex-order / start-vertex variants under iteration budgets",
  text="Every configuration {TMaxFwd, DirectionFwd} x applicable edge locators x {detected, given} face orientation on envelope-of-circles sections (known camber curve and radius law), ellipses (focal-segment medial axis), open sections (square and skewed cuts) and sharp-cornered sections, chords from 0.3 to 100: every station is inscribed with contacts on the section on opposite sides, stations monotone, edges on the section at the camber ends, surfaces partition the perimeter on the right side, centres and radii recover the closed form (t_max, gauges), all 16 variants agree, envelope sections are accepted by every closed-section edge method, and every run ends within its tick budget.",
  note="Recorded finding: ConvergeTangentEdge on the 5x1.5 ellipse depends on vertex order. Sections outside the generated families and locators on families they are not defined for are not claimed; tolerances in units of the analysis tolerance and sampling step."),
 "C11": dict(cat="exploration", engine="sweep", tech=TECH_SWEEP,
  text="Circle pairs in all six regimes x radii x 13 directions x offsets; tangent points from 6 distance ratios; outer tangents; lines/segments through a grid of origins; every ordered pair of points of a 13x13 integer lattice as a segment against integer circles with the count decided in exact integer arithmetic; lattice curves against circles; arcs over centres x radii x 30 start angles (k*pi/2 +- 1e-9) x 12 signed sweeps; three-point arcs from every lattice triple at 3 scales and 2 offsets (collinearity decided exactly): every defining constraint checked (on both objects, counts, perpendicularity, order, start/through/end, length/fraction agreement, cached box contains and touches).",
  note="Recorded finding: equal-radius outer tangents come (right, left), pinned by a repository test. Exact tangency demanded only along exactly representable directions."),
 "C12": dict(cat="model_checking", engine="sweep, choice", tech=TECH_CHOICE + " over an exhaustive enumeration of all small inputs",
  text="All face lists of <= 4 oriented triangles over 5 vertices and <= 4 (thorough 5) over 6, structured meshes with every single face flipped, every subset of <= 5 voxels of a 2x2x3 block, every ordered list of <= 4 index pairs, box/cylinder generators; for every mesh and voxel set every hash-map/set traversal is a choice point and all executions with <= 2 non-default iteration orders are explored; union-find / multiset references; termination decided by deterministic tick budgets.",
  note="Orders beyond 4 elements are represented by rotations and reversals of the sorted order; at most 2 deviations per execution."),
 "C13": dict(cat="exploration", engine="sweep + subprocess workers", tech=TECH_SWEEP + "; every case is executed in worker processes limited to 3 GB of address space with a per-case watchdog (a case that takes its worker down is reported, the rest of the chunk re-run); the known allocation-unsafe input class is classified by the reference and probed by representatives first",
  text="17 meshes (boxes, prisms, capped cylinders, subdivided spheres, torus, tetrahedron, open tube, quad, height fields) x 3-5 poses x 32 plane normals x 9 offsets x curve tolerance {default, 5e-3, 0.05}: section vertices on plane and surface, consecutive vertices share a face, each crossing face used once, closed loops on watertight meshes, one loop on convex solids, total length equals the reference crossing segments, split sides and areas, commutation with rigid motion.",
  note="Recorded finding: Mesh::section never returns (unbounded allocation inside parry) when the section polyline is open; that class is probed by 3 representatives under ulimit -v 2 GB and executed fully only if they return. Planes within 1e-5 of a vertex are degenerate probes."),
 "C14": dict(cat="model_checking", engine="bfs, choice", tech=TECH_BFS + "; every transition under " + TECH_CHOICE,
  text="State space of selections over a tetrahedron, a two-normal roof, an octahedron and the roof with an extra zero-area face (closure reached in the thorough tier) x {Add, Remove, Keep} x 93 criteria (facing; near-mesh with all tolerance combinations); each transition and each create_mesh executed under all set-iteration orders with <= 2 deviations; next state must equal S u P / S \\ P / S n P with P computed independently from the geometry and by the code in a canonical context.",
  note="Independent geometric predicate only where the reference normal is unambiguous (plane references); elsewhere the canonical-context predicate is the oracle."),
 "C15": dict(cat="exploration", engine="sweep, choice", tech=TECH_SWEEP + "; samplers: " + TECH_CHOICE,
  text="kd-trees over every multiset of <= 4 lattice points (2D) / <= 3 (3D), structured and gridded sets, partial trees over every ordered subset; Poisson disk over every ordering of every subset; hulls of every lattice subset; every simple lattice polygon for order detection, from_points_ccw and ball pivot; mesh samplers with the RNG answered by the explorer (all 216 draw triples, shuffles with <= 2 non-default draws).",
  note="Recorded finding: kiddo's immutable kd-tree returns wrong items for > 32 points with tied coordinates (inherited by Mesh::sample_poisson). Ties exactly on the k-th neighbour / radius boundary are gray; statistical uniformity is not claimed."),
 "C16": dict(cat="model_checking", engine="bfs, sweep, stateright", tech=TECH_BFS + "; the deviation-set machine is explored a second time by stateright 0.31 (independent explicit-state checker on the same real code) and the unique-state counts must agree; plus " + TECH_SWEEP,
  text="State-space search of SurfaceDeviationSet (all push histories <= 5 over a tie-producing alphabet from default() and new(v)) and PointCloud (append/merge/select histories, rejected operations must change nothing) against Vec models, with from-scratch comparison on every state; exhaustive sweeps of curve and mesh deviations (sign, magnitude, reconstruction), directed distances and every small tolerance table.",
  note="Deviation sign judged only where the offset has a non-zero normal component; plane-mode value at mesh edges may use any adjacent face (C03 finding)."),
 "C17": dict(cat="model_checking", engine="bfs, sweep", tech=TECH_BFS + "; plus " + TECH_SWEEP,
  text="State-space search over series reachable by <= 3-4 derived operations (slice, split, scale incl. negative, shift, resample, NaN removal, abs) from every small series over a tie-producing alphabet; invariant (finite ascending abscissae, matching ordinates) on every state, function preservation on every transition, level crossings at every stored/mid level; exhaustive constructor sweeps (try_from, push histories, linear/linear_space with bounds in both orders).",
  note="Function preservation judged on strictly ascending NaN-free series; flat segments lying on the level only require termination and soundness of reported abscissae."),
 "C18": dict(cat="exploration", engine="sweep", tech=TECH_SWEEP,
  text="Complete enumeration of a 111-value angle alphabet (multiples of pi/4 with +-1 ulp neighbours, tiny, huge): every angle, every ordered pair x direction, every (start, extent) interval x every test angle, every pair of intervals; every ordered pair of 56 vectors; every scalar interval and pair over bounds incl. equal and infinite ones.",
  note="Direction equality on sin/cos within 8 ulp*(1+|a|); interval membership gray within 1e-9 of an end except the stored ends themselves."),
 "C19": dict(cat="exploration", engine="sweep", tech=TECH_SWEEP,
  text="Every ordered pair of the 124 non-zero vectors of {-2..2}^3 x 6 two-vector frame constructors x origins; basis-to-isometry builders over every exact signed-permutation rotation (all exact half turns) and oblique half turns; principal axes of every multiset of 4-5 points of the 3x3x3 lattice (generic, planar, collinear, coincident) x 5 weightings with centre, orthonormality, order, variance, rank, round-trip, equivariance and weight-scaling clauses; planes from every lattice triple.",
  note="Axes compared per axis up to sign where singular values are separated; weighted singular values carry no variance meaning."),
 "C20": dict(cat="exploration", engine="sweep", tech=TECH_SWEEP,
  text="Planar grid disks up to 4x3 (thorough 4x4) with every diagonal assignment, removed corner cells, displaced interior vertices, fans; every vertex relabelling for <= 6 vertices; 5 poses: finite positions, edge lengths preserved, positive orientation and area, pose invariance; curved disks for the invariance clause; six non-disk inputs rejected; UV round trips at 4 barycentric points of every face through the flattener's own and hand-built sheared / mirrored maps, with and without a transform argument.",
  note="Edge lengths at 1e-6 relative (regulariser 1e-8)."),
}

NOT_YET = "check under construction (will be claimed once its exhaustive exploration is implemented)"

def main():
    hooks = subprocess.run(["git","-C","/repo","log","--format=%h","--grep","^verif hooks"],capture_output=True,text=True).stdout.split()
    checks=[]
    for pid in sorted(ENTRIES):
        e=ENTRIES[pid]
        checks.append({"property_id":pid,"quick_cmd":f"./check {pid} quick","thorough_cmd":f"./check {pid} thorough",
          "evidence_file":f"/verif/evidence/{pid}.json","replay_cmd_template":"./check replay {path}","engine":e["engine"],
          "level_claimed":{"category":e["cat"],"text":e["text"],"design_ref":f"DESIGN.md section 4, {pid}"},
          "level_note":e["note"],"technique":e["tech"]})
    engines=[
      {"name":"sweep","path":"/verif/harness/src/engine.rs (sweep_n)","serves_properties":sorted(p for p,e in ENTRIES.items() if "sweep" in e["engine"]),"kind_free_text":"parallel exhaustive enumeration of finite input alphabets against reference models; deterministic merge, determinism self-check, vacuity guards"},
      {"name":"bfs","path":"/verif/harness/src/engine.rs (bfs)","serves_properties":sorted(p for p,e in ENTRIES.items() if "bfs" in e["engine"]),"kind_free_text":"explicit-state breadth-first search whose transitions call the real methods"},
      {"name":"choice","path":"/verif/harness/src/engine.rs (explore_choices) + /repo/src/verif.rs","serves_properties":sorted(p for p,e in ENTRIES.items() if "choice" in e["engine"]),"kind_free_text":"deviation-bounded DFS over choice scripts answering hash-iteration order and RNG draws"},
    ]
    m={"version":1,
     "setup_cmd":"cd /verif/harness && CARGO_NET_OFFLINE=true cargo build --release --offline",
     "hooks":{"guard":"cargo feature \"verif\" of engeom (off by default)",
              "enable":"the harness depends on engeom = { path = \"/repo\", features = [\"verif\"] }",
              "baseline_off_cmd":"cd /repo && cargo nextest run --workspace --no-fail-fast --tool-config-file pb:/w/lib/nextest.toml --profile pb --test-threads 8 --offline",
              "source_commits":hooks,"add_only":True},
     "engines":engines,"checks":checks,
     "notes":"Model-checking family: every deciding step is a complete enumeration of a stated finite space of executions of the real engeom code (inputs up to a size bound, operation histories up to a depth, environment answers up to a deviation bound). engeom has no threads, so interleaving explorers are not applicable; see DESIGN.md section 1. Safety nets that can turn into a verdict: a default budget of 2 M loop iterations per swept item (library loops and the one recursive routine carry cfg-gated ticks, hooks H3/H5/H6), library-located panics outside any clause, and a 300 s wall-clock allowance per swept item; each is reported as a VIOLATION of the clause \"library call returns / terminates\" for the item in progress, none fires on the unchanged tree.",
     "not_applicable":[{"property_id":f"C{i:02d}","reason":NOT_YET} for i in range(1,21) if f"C{i:02d}" not in ENTRIES]}
    json.dump(m,open('/verif/MANIFEST.json','w'),indent=1)
    import jsonschema
    jsonschema.validate(m,json.load(open('/root/.vp/MANIFEST.schema.json')))
    print("MANIFEST ok:",len(checks),"checks")
main()
