#!/usr/bin/env python3
"""Applies each patch of /verif/mutants (or /verif/seeded/*/patch.diff) to /repo, runs the pinned
suite (must stay green for the mutant to count) and the property's quick check, records the verdict and
restores /repo. usage: run_mutants.py [substring ...]  -> /verif/mutants/RESULTS.md + results.json"""
import json, subprocess, sys, os, re, time
os.chdir('/verif')
idx = json.load(open('mutants/index.json'))
sel = sys.argv[1:]
res_path = 'mutants/results.json'
results = json.load(open(res_path)) if os.path.exists(res_path) else {}
def sh(cmd, **kw):
    return subprocess.run(cmd, shell=True, capture_output=True, text=True, **kw)
assert sh("git -C /repo status --porcelain -- src").stdout.strip() == "", "repo not clean"
for name, meta in sorted(idx.items()):
    if sel and not any(s in name for s in sel):
        continue
    path = f'/verif/mutants/{name}'
    a = sh(f"git -C /repo apply {path}")
    if a.returncode:
        results[name] = dict(meta, applied=False, note=a.stderr[:200]); print(name, "DOES NOT APPLY"); continue
    try:
        t0 = time.time()
        tests = sh("cd /repo && cargo nextest run --workspace --no-fail-fast --tool-config-file pb:/w/lib/nextest.toml --profile pb --test-threads 8 --offline 2>&1 | grep -E 'Summary|error' | tail -2")
        green = '242 passed' in tests.stdout and 'failed' not in tests.stdout
        chk = sh(f"./check {meta['property']} quick", timeout=1800)
        viol = [l for l in chk.stdout.split('\n') if l.startswith('VIOLATION')]
        clauses = sorted(set(re.findall(r'clause="([^"]*)"', '\n'.join(viol))))
        results[name] = dict(meta, applied=True, suite_green=green, check_exit=chk.returncode, detected=chk.returncode == 1 and bool(viol), clauses=clauses[:6], wall_s=round(time.time() - t0, 1))
        print(f"{name:45} suite_green={green} check_exit={chk.returncode} detected={results[name]['detected']} {clauses[:2]}")
    finally:
        sh("git -C /repo checkout -- .")
    json.dump(results, open(res_path, 'w'), indent=1)
# RESULTS.md
lines = ["# Mutant results", "", "Each patch is applied to /repo, the pinned 242-test suite is run (a mutant only counts when it stays green),", "then the property's quick check is run; /repo is restored afterwards. `detected` = exit 1 with a VIOLATION line.", "", "Control mutants are property-preserving on purpose: the check must stay silent on them (exit 0).", "", "| patch | property | kind | suite green | detected | violated clauses (first) |", "|---|---|---|---|---|---|"]
for name, r in sorted(results.items()):
    what = idx.get(name, {}).get('what', '')
    kind = 'control (property-preserving)' if 'control mutant' in what else r.get('kind')
    lines.append(f"| {name} | {r.get('property')} | {kind} | {r.get('suite_green')} | {r.get('detected')} | {'; '.join(r.get('clauses', [])[:2])} |")
hand = [r for n, r in results.items() if 'control mutant' not in idx.get(n, {}).get('what', '')]
ctl = [r for n, r in results.items() if 'control mutant' in idx.get(n, {}).get('what', '')]
green = [r for r in hand if r.get('suite_green')]
lines += ["", f"Summary: {len(green)} non-control patches keep the suite green, {sum(1 for r in green if r.get('detected'))} of them detected; {len(hand) - len(green)} break the pinned suite ({sum(1 for r in hand if not r.get('suite_green') and r.get('detected'))} of those also detected); {len(ctl)} controls, {sum(1 for r in ctl if r.get('check_exit') == 0)} silent."]
open('mutants/RESULTS.md', 'w').write('\n'.join(lines) + '\n')
