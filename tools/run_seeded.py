#!/usr/bin/env python3
"""Runs the checks against every confirmed seeded change: git -C /repo apply, ./check <property> quick,
git -C /repo checkout. Records the verdict in seeded/<id>/meta.json and seeded/RESULTS.md.
usage: run_seeded.py [--all-props] [substring ...]"""
import json, subprocess, sys, os, re, glob, time
os.chdir('/verif')
args = [a for a in sys.argv[1:] if not a.startswith('--')]
all_props = '--all-props' in sys.argv
def sh(cmd, **kw):
    return subprocess.run(cmd, shell=True, capture_output=True, text=True, **kw)
assert sh("git -C /repo status --porcelain -- src").stdout.strip() == "", "repo not clean"
rows = []
for d in sorted(glob.glob('seeded/C*')):
    sid = os.path.basename(d)
    meta = json.load(open(d + '/meta.json'))
    if args and not any(a in sid for a in args):
        rows.append((sid, meta)); continue
    a = sh(f"git -C /repo apply /verif/{d}/patch.diff")
    if a.returncode:
        meta['check'] = {"applied": False, "note": a.stderr[:200]}; print(sid, 'DOES NOT APPLY'); json.dump(meta, open(d + '/meta.json', 'w'), indent=1); rows.append((sid, meta)); continue
    try:
        t0 = time.time()
        chk = sh(f"./check {meta['property']} quick", timeout=1800)
        viol = [l for l in chk.stdout.split('\n') if l.startswith('VIOLATION')]
        clauses = sorted(set(re.findall(r'clause="([^"]*)"', '\n'.join(viol))))
        meta['check'] = {"command": f"git -C /repo apply seeded/{sid}/patch.diff && ./check {meta['property']} quick && git -C /repo checkout -- .", "exit": chk.returncode, "detected": chk.returncode == 1 and bool(viol), "violated_clauses": clauses[:8], "wall_s": round(time.time() - t0, 1)}
        others = {}
        if (all_props or not meta['check']['detected']):
            for i in range(1, 21):
                pid = f"C{i:02d}"
                if pid == meta['property']:
                    continue
                c2 = sh(f"./check {pid} quick", timeout=1800)
                if c2.returncode == 1:
                    others[pid] = sorted(set(re.findall(r'clause="([^"]*)"', c2.stdout)))[:4]
            meta['check']['other_properties_reporting'] = others
        print(f"{sid:8} exit={chk.returncode} detected={meta['check']['detected']} {clauses[:2]} others={list(others)}")
    finally:
        sh("git -C /repo checkout -- .")
    json.dump(meta, open(d + '/meta.json', 'w'), indent=1)
    rows.append((sid, meta))
lines = ["# Seeded changes (written by independent sub-agents from the property text alone)", "", "Each was confirmed in a scratch worktree (compiles, the library's 242 tests stay green, the agent's demonstration", "fails with the change and passes without) and then applied to /repo, checked and reverted.", "", "| id | property | detected by its check | violated clauses (first) | other properties reporting |", "|---|---|---|---|---|"]
for sid, m in rows:
    c = m.get('check', {})
    lines.append(f"| {sid} | {m['property']} | {c.get('detected')} | {'; '.join(c.get('violated_clauses', [])[:2])} | {', '.join(c.get('other_properties_reporting', {}).keys())} |")
open('seeded/RESULTS.md', 'w').write('\n'.join(lines) + '\n')
