#!/usr/bin/env python3
"""Confirms sub-agent seeded changes in their scratch worktrees and files them under /verif/seeded/.
For each /tmp/seed/<Cxx>.out/{a,b}.patch: demo passes on the unchanged tree, fails with the patch, and
the library's own 242 unit tests stay green with the patch. usage: verify_seeds.py [--round2] C05 C06 ...
(--round2: worktrees under /tmp/seed2, filed as <Cxx>-c / <Cxx>-d; --round3: /tmp/seed3, <Cxx>-e / <Cxx>-f; --round4: /tmp/seed4, <Cxx>-g / <Cxx>-h; --round5: /tmp/seed5, <Cxx>-i / <Cxx>-j; --round6: /tmp/seed6, <Cxx>-k / <Cxx>-l; --round7: /tmp/seed7, <Cxx>-m / <Cxx>-n; --round8: /tmp/seed8, <Cxx>-o / <Cxx>-p; --round9: /tmp/seed9, <Cxx>-q / <Cxx>-r; --round10: /tmp/seed10, <Cxx>-s / <Cxx>-t; --round11: /tmp/seed11, <Cxx>-u / <Cxx>-v)"""
import json, os, shutil, subprocess, sys, re
def sh(cmd, cwd=None, timeout=3600):
    return subprocess.run(cmd, shell=True, capture_output=True, text=True, cwd=cwd, timeout=timeout)
props = {}
for l in open('/verif/properties.jsonl'):
    p = json.loads(l); props[p['id']] = p['title']
R2 = '--round2' in sys.argv
R3 = '--round3' in sys.argv
R4 = '--round4' in sys.argv
R5 = '--round5' in sys.argv
R6 = '--round6' in sys.argv
R7 = '--round7' in sys.argv
R8 = '--round8' in sys.argv
R9 = '--round9' in sys.argv
R10 = '--round10' in sys.argv
R11 = '--round11' in sys.argv
BASE = '/tmp/seed11' if R11 else '/tmp/seed10' if R10 else '/tmp/seed9' if R9 else '/tmp/seed8' if R8 else '/tmp/seed7' if R7 else '/tmp/seed6' if R6 else '/tmp/seed5' if R5 else '/tmp/seed4' if R4 else '/tmp/seed3' if R3 else '/tmp/seed2' if R2 else '/tmp/seed'
LETTER = {'a': 'u', 'b': 'v'} if R11 else {'a': 's', 'b': 't'} if R10 else {'a': 'q', 'b': 'r'} if R9 else {'a': 'o', 'b': 'p'} if R8 else {'a': 'm', 'b': 'n'} if R7 else {'a': 'k', 'b': 'l'} if R6 else {'a': 'i', 'b': 'j'} if R5 else {'a': 'g', 'b': 'h'} if R4 else {'a': 'e', 'b': 'f'} if R3 else {'a': 'c', 'b': 'd'} if R2 else {'a': 'a', 'b': 'b'}
for pid in [a for a in sys.argv[1:] if not a.startswith('--')]:
    wt = f'{BASE}/{pid}'; out = f'{BASE}/{pid}.out'
    readme = open(out + '/README.md').read() if os.path.exists(out + '/README.md') else ''
    for v in 'ab':
        patch = f'{out}/{v}.patch'; demo = f'{out}/{v}_demo.rs'
        if not (os.path.exists(patch) and os.path.exists(demo)):
            print(pid, v, 'MISSING'); continue
        sh('git checkout -- . && rm -rf tests && mkdir tests', cwd=wt)
        shutil.copy(demo, f'{wt}/tests/seed_demo.rs')
        r0 = sh('cargo test --offline --test seed_demo 2>&1 | tail -15', cwd=wt)
        pass_without = 'test result: ok' in r0.stdout
        ap = sh(f'git apply {patch}', cwd=wt)
        if ap.returncode:
            print(pid, v, 'PATCH DOES NOT APPLY', ap.stderr[:200]); sh('git checkout -- . && rm -rf tests', cwd=wt); continue
        r1 = sh('cargo test --offline --test seed_demo 2>&1 | tail -15', cwd=wt)
        compiles = 'error: could not compile' not in r1.stdout and 'error[' not in r1.stdout
        fail_with = compiles and 'test result: FAILED' in r1.stdout
        r2 = sh('cargo test --offline --lib 2>&1 | grep "test result"', cwd=wt)
        m = re.search(r'(\d+) passed; (\d+) failed', r2.stdout)
        suite_green = bool(m) and m.group(1) == '242' and m.group(2) == '0'
        sh('git checkout -- . && rm -rf tests', cwd=wt)
        ok = pass_without and fail_with and suite_green
        print(f'{pid}-{v}: demo passes without={pass_without} fails with={fail_with} suite green={suite_green} ({m.group(0) if m else r2.stdout.strip()[:60]}) -> {"KEEP" if ok else "DROP"}')
        if ok:
            d = f'/verif/seeded/{pid}-{LETTER[v]}'; os.makedirs(d, exist_ok=True)
            shutil.copy(patch, d + '/patch.diff'); shutil.copy(demo, d + '/demo.rs')
            # the part of the agent's README about this change
            json.dump({"property": pid, "title": props[pid], "source": "independent sub-agent that saw only the property text and a scratch worktree", "needs_to_manifest": "see README.md (agent's description)", "confirmed": {"demo_passes_without_patch": True, "demo_fails_with_patch": True, "library_unit_tests_with_patch": "242 passed, 0 failed", "how": "tools/verify_seeds.py in the scratch worktree %s/%s: cargo test --offline --test seed_demo (before/after git apply), cargo test --offline --lib" % (BASE, pid)}}, open(d + '/meta.json', 'w'), indent=1)
            open(d + '/README.md', 'w').write(readme)
