#!/bin/bash
# runs every thorough tier in turn (one at a time: each uses all cores), then the quick tier again so that
# evidence/<id>.json describes the check registered as "quick"; thorough evidence stays in evidence/thorough/
cd /verif
for i in $(seq -w 1 20); do
  s=$(date +%s)
  ./check C$i thorough > /verif/.target/t_C$i.log 2>&1
  e=$?
  echo "C$i thorough exit=$e wall=$(( $(date +%s) - s ))s kf=$(grep -c '^KNOWN-FINDING' /verif/.target/t_C$i.log) bad=$(grep -c '^VIOLATION\|^MACHINERY' /verif/.target/t_C$i.log)"
  ./check C$i quick > /dev/null 2>&1
done
